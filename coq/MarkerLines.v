(* C16, "which line a marker names".

   PART A (emitter; all programs, all chunk orders, all paths).  Every IMarker in the -lm output is immediately followed by
   the instruction that renders a construct of the program (command, label, condition leaf, switch operand, case, text,
   movement, step, mart, item, raw line, map script line, table entry) and its number is the line the AST records for that
   construct (kline):
       marker_names_following_construct (programs), script_marker_names_following_construct (one script), marker_text.
   The proof is an inclusion invariant of the chunk worklist (every chunk only carries constructs of the body: work_in) and a
   compositional predicate on instruction lists (announced).
   PART B (parser, site by site, all token streams that end with their EOF token).  The token / line recorded for a
   construct is the first token of that construct in the source stream:
       command_marker_site, label_marker_site, condition_marker_site, condition_autovar_marker_site, switch_marker_site,
       switch_cases_marker_site (case_marker_from), text_marker_site, movement_marker_site, mart_marker_site, raw_marker_site,
       mapscript_marker_site, table_entry_marker_site, inline_text_marker_site.
   PART C (whole pipeline, all source texts).  Every line recorded in the AST of an accepted program is the line of a token
   of the lexed stream (raw lines: the line of the raw string token plus the number of newlines that precede the line inside
   the raw string): block_lines_from_stream, program_lines_from_stream; a raw string token stands in the source as
   ` literal (raw_strings_located).  With LexPos.tokens_are_located and LexInv.lex_lines_in_range:
       constructs_on_source_lines, markers_name_source_lines, markers_in_range, compile_markers_name_source_lines:
   every marker names a line between 1 and the number of lines of the source, the line on which the construct that follows
   it starts.
   Not proved here: the converse (which constructs do get a marker - e.g. a block's final end/return command and the cases
   of an elided switch get none), i.e. an exact multiset characterisation of the markers of a script. *)
From Coq Require Import List String Ascii ZArith NArith Lia Bool.
From Pory Require Import Lexer Ast Emitter Props16.
From Pory Require Worklist.
Import ListNotations.
Open Scope list_scope.

(* ====================================================================================================================== *)
(* PART A: the emitter                                                                                                    *)
(* ====================================================================================================================== *)

(* ---------- the constructs of a program that can be announced by a marker ---------- *)
Inductive construct :=
| KCommand (c : cmd)                                  (* a command statement *)
| KLabel (name : text) (glob : bool) (tk : token)     (* a label statement *)
| KCond (l : leaf)                                    (* a leaf of a condition: flag(..), var(..), defeated(..), AutoVar command *)
| KSwitch (operand : text) (line : Z)                 (* the operand of a switch *)
| KCase (value : text) (line : Z)                     (* a (non-default) case of a switch *)
| KText (x : textdef)                                 (* a text (statement or hoisted from a command) *)
| KMovement (name : text) (glob : bool) (tk : token)  (* a movement (statement or hoisted moves(..)) *)
| KStep (s : token)                                   (* a movement step *)
| KMart (name : text) (glob : bool) (tk : token)      (* a mart *)
| KItem (item : text) (tk : token)                    (* a mart item *)
| KRawLine (content : text) (line : Z)                (* one line of a raw block *)
| KMapScript (ty : token) (name : text)               (* a map script entry (plain, or the header line of a table) *)
| KTableEntry (e : tableentry).                       (* an entry of a map script table *)

(* the line the AST records for a construct *)
Definition kline (k : construct) : Z :=
  match k with
  | KCommand c => tline (ctok c)
  | KLabel _ _ tk => tline tk
  | KCond l => lline l
  | KSwitch _ line => line
  | KCase _ line => line
  | KText x => tline (xtok x)
  | KMovement _ _ tk => tline tk
  | KStep s => tline s
  | KMart _ _ tk => tline tk
  | KItem _ tk => tline tk
  | KRawLine _ line => line
  | KMapScript ty _ => tline ty
  | KTableEntry e => tline (teCond e)
  end.

(* the instruction that renders a construct (the first one, when it is rendered by several) *)
Definition shows (k : construct) (i : instr) : Prop :=
  match k with
  | KCommand c => i = ICmd c
  | KLabel n g _ => i = ILabel n g
  | KCond l =>
      match lk l with
      | KFlag => exists lab, i = IGotoIfSet (loperand l) lab \/ i = IGotoIfUnset (loperand l) lab
      | KVar => i = ICompare (lstrict l) (loperand l) (lvalue l)
      | KDefeated => i = ICheckTrainer (loperand l)
      end
  | KSwitch operand _ => i = ISwitch operand
  | KCase v _ => exists lab, i = ICase v lab
  | KText x => exists content, i = IData (match xtype x with [] => t "string" | ty => ty end) content
  | KMovement n g _ => i = ILabel n g
  | KStep s => i = ILine (tab ++ tlit s)
  | KMart n g _ => i = ILabel n g
  | KItem it _ => i = ILine (tab ++ t ".2byte " ++ it)
  | KRawLine s _ => i = ILine s
  | KMapScript ty nm => i = ILine (tab ++ t "map_script " ++ tlit ty ++ t ", " ++ nm)
  | KTableEntry e => i = ILine (tab ++ t "map_script_2 " ++ teCondLit e ++ t ", " ++ teCmp e ++ t ", " ++ teName e)
  end.

Lemma shows_notmarker k i : shows k i -> notmarker i = true.
Proof.
  destruct k as [c|n g tk|l|o ol|v vl|x|n g tk|s|n g tk|it tk|s ln|ty nm|e]; cbn [shows]; intros H;
    try (subst i; reflexivity); try (destruct H as [? ->]; reflexivity).
  destruct (lk l); [destruct H as [lab [-> | ->]]; reflexivity|subst i; reflexivity|subst i; reflexivity].
Qed.

(* ---------- the constructs of a script body, at every depth ---------- *)
Fixpoint leaves (e : bexp) : list leaf :=
  match e with BLeaf l => [l] | BBin _ a b => leaves a ++ leaves b end.
Definition bexp_constructs (e : bexp) : list construct := map KCond (leaves e).
Definition case_head (c : scase) : list construct := if sc_def c then [] else [KCase (sc_val c) (sc_line c)].

Fixpoint stmt_constructs (s : stmt) : list construct :=
  let body := fix body (ss : list stmt) : list construct := match ss with [] => [] | x :: r => stmt_constructs x ++ body r end in
  match s with
  | SCmd c => [KCommand c]
  | SLabel n g tk => [KLabel n g tk]
  | SIf conds els =>
      (fix go (cs : list (bexp * list stmt)) : list construct :=
         match cs with [] => [] | cb :: r => (bexp_constructs (fst cb) ++ body (snd cb)) ++ go r end) conds ++
      match els with Some b => body b | None => [] end
  | SWhile _ c b => match c with Some e => bexp_constructs e | None => [] end ++ body b
  | SDoWhile _ b c => body b ++ bexp_constructs c
  | SBreak _ | SContinue _ => []
  | SSwitch _ operand oline cases =>
      KSwitch operand oline ::
      (fix go (cs : list scase) : list construct :=
         match cs with [] => [] | c :: r => (case_head c ++ body (sc_body c)) ++ go r end) cases
  end.
Fixpoint body_constructs (ss : list stmt) : list construct :=
  match ss with [] => [] | x :: r => stmt_constructs x ++ body_constructs r end.
Definition body_local := fix body (ss : list stmt) : list construct := match ss with [] => [] | x :: r => stmt_constructs x ++ body r end.
Lemma body_local_eq ss : body_local ss = body_constructs ss.
Proof. induction ss as [|x r IH]; [reflexivity|]. cbn. now rewrite IH. Qed.

Definition cond_constructs (cb : bexp * list stmt) : list construct := bexp_constructs (fst cb) ++ body_constructs (snd cb).
Definition case_constructs (c : scase) : list construct := case_head c ++ body_constructs (sc_body c).
Definition opt_constructs (o : option (list stmt)) : list construct := match o with Some b => body_constructs b | None => [] end.
Definition optb_constructs (o : option bexp) : list construct := match o with Some e => bexp_constructs e | None => [] end.

Lemma stmt_constructs_if conds els :
  stmt_constructs (SIf conds els) = flat_map cond_constructs conds ++ opt_constructs els.
Proof. destruct els; reflexivity. Qed.
Lemma stmt_constructs_while tg c b : stmt_constructs (SWhile tg c b) = optb_constructs c ++ body_constructs b.
Proof. reflexivity. Qed.
Lemma stmt_constructs_dowhile tg b c : stmt_constructs (SDoWhile tg b c) = body_constructs b ++ bexp_constructs c.
Proof. reflexivity. Qed.
Lemma stmt_constructs_switch tg o ol cases :
  stmt_constructs (SSwitch tg o ol cases) = KSwitch o ol :: flat_map case_constructs cases.
Proof. reflexivity. Qed.
Lemma body_constructs_flat ss : body_constructs ss = flat_map stmt_constructs ss.
Proof. induction ss as [|x r IH]; [reflexivity|]. cbn. now rewrite IH. Qed.
Lemma body_constructs_app a b : body_constructs (a ++ b) = body_constructs a ++ body_constructs b.
Proof. rewrite !body_constructs_flat. apply flat_map_app. Qed.
Lemma stmt_constructs_cmd c : stmt_constructs (SCmd c) = [KCommand c]. Proof. reflexivity. Qed.
Lemma stmt_constructs_label n g tk : stmt_constructs (SLabel n g tk) = [KLabel n g tk]. Proof. reflexivity. Qed.
Lemma stmt_constructs_break tg : stmt_constructs (SBreak tg) = []. Proof. reflexivity. Qed.
Lemma stmt_constructs_continue tg : stmt_constructs (SContinue tg) = []. Proof. reflexivity. Qed.
Global Opaque stmt_constructs.

(* ---------- well announced instruction lists ---------- *)
(* an instruction list in which every marker is immediately followed by the instruction of a construct of K that records
   the marker's line *)
Inductive announced (K : list construct) : list instr -> Prop :=
| an_nil : announced K []
| an_plain i r : notmarker i = true -> announced K r -> announced K (i :: r)
| an_mark l i r k : In k K -> kline k = l -> shows k i -> announced K r -> announced K (IMarker l :: i :: r).

Lemma announced_app K a b : announced K a -> announced K b -> announced K (a ++ b).
Proof. induction 1 as [|i r N _ IH|l i r k I L S _ IH]; intros B; cbn [app]; [exact B|apply an_plain; auto|eapply an_mark; eauto]. Qed.
Lemma announced_incl K K' a : incl K K' -> announced K a -> announced K' a.
Proof. intros I. induction 1 as [|i r N _ IH|l i r k I0 L S _ IH]; [constructor|apply an_plain; auto|eapply an_mark; eauto]. Qed.
Lemma announced_plain K a : Forall (fun i => notmarker i = true) a -> announced K a.
Proof. induction 1 as [|i r N _ IH]; constructor; assumption. Qed.
Lemma announced_one K mp k i : In k K -> shows k i -> announced K (marker mp (kline k) ++ [i]).
Proof.
  intros I S. destruct mp as [p|]; cbn [marker app].
  - eapply an_mark; [exact I|reflexivity|exact S|constructor].
  - apply an_plain; [eapply shows_notmarker; exact S|constructor].
Qed.
Lemma announced_concat K (l : list (list instr)) : Forall (announced K) l -> announced K (List.concat l).
Proof. induction 1 as [|x r H _ IH]; [constructor|]. cbn. apply announced_app; assumption. Qed.
Lemma announced_flat_map {A} K (f : A -> list instr) l : (forall x, In x l -> announced K (f x)) -> announced K (flat_map f l).
Proof.
  induction l as [|x r IH]; intros H; [constructor|]. cbn [flat_map]. apply announced_app; [apply H; left; reflexivity|].
  apply IH. intros y Hy. apply H. right; exact Hy.
Qed.

(* what 'announced' says about one marker of the list *)
Lemma announced_at K is : announced K is -> forall pre l post, is = pre ++ IMarker l :: post ->
  exists k i post', post = i :: post' /\ In k K /\ kline k = l /\ shows k i.
Proof.
  induction 1 as [|i r N _ IH|l0 i r k I L S _ IH]; intros pre l post E.
  - destruct pre; discriminate.
  - destruct pre as [|x pre]; cbn [app] in E.
    + injection E as -> _. discriminate N.
    + injection E as _ E. eapply IH; exact E.
  - destruct pre as [|x pre]; cbn [app] in E.
    + injection E as <- <-. exists k, i, r. auto.
    + injection E as _ E. destruct pre as [|y pre]; cbn [app] in E.
      * injection E as -> _. apply shows_notmarker in S. discriminate S.
      * injection E as _ E. eapply IH; exact E.
Qed.

(* ---------- the chunks of the worklist only carry constructs of the body ---------- *)
Section SCRIPT.
Variable K : list construct.

Definition stmts_in (ss : list stmt) : Prop := forall s, In s ss -> incl (stmt_constructs s) K.
Definition br_in (b : option brancher) : Prop :=
  match b with
  | Some (BrLeaf l _ _) => In (KCond l) K
  | Some (BrSwitch operand oline cases _ _) =>
      In (KSwitch operand oline) K /\ forall v vl d, In (v, vl, d) cases -> In (KCase v vl) K
  | _ => True
  end.
Definition chunk_in (c : chunk) : Prop := stmts_in (cstmts c) /\ br_in (cbr c).

Lemma stmts_in_incl ss : stmts_in ss <-> incl (body_constructs ss) K.
Proof.
  rewrite body_constructs_flat. split.
  - intros H k I. apply in_flat_map in I. destruct I as (s & Is & Ik). exact (H s Is k Ik).
  - intros H s Is k Ik. apply H. apply in_flat_map. exists s. split; assumption.
Qed.
Lemma stmts_in_nil : stmts_in [].
Proof. intros s []. Qed.
Lemma stmts_in_sub a b : (forall s, In s a -> In s b) -> stmts_in b -> stmts_in a.
Proof. intros S H s I. apply H, S, I. Qed.
Lemma in_firstn {A} (l : list A) n x : In x (firstn n l) -> In x l.
Proof. revert n. induction l as [|a l IH]; intros [|n] H; cbn in *; try tauto. destruct H; [left|right]; eauto. Qed.
Lemma in_skipn {A} (l : list A) n x : In x (skipn n l) -> In x l.
Proof. revert n. induction l as [|a l IH]; intros [|n] H; cbn in *; try tauto. right. eauto. Qed.

Lemma mk_in i r ss b : stmts_in ss -> br_in b -> chunk_in (mk i r ss b).
Proof. intros; split; assumption. Qed.

Lemma sfb_in cur i cn post ret c0 :
  split_for_branch cur i cn = (post, ret, c0) -> stmts_in (cstmts cur) -> Forall chunk_in post.
Proof.
  unfold split_for_branch. intros H S. destruct (Nat.eqb i (List.length (cstmts cur) - 1)).
  - injection H as <- _ _. constructor.
  - injection H as <- _ _. constructor; [|constructor]. apply mk_in; [|exact I]. eapply stmts_in_sub; [|exact S]. intros s. apply (in_skipn (cstmts cur) (Datatypes.S i)).
Qed.

Lemma split_bexp_in : forall e cn su fa fi cs en f2 c2,
  split_bexp e cn su fa fi = (cs, en, f2, c2) -> (forall l, In l (leaves e) -> In (KCond l) K) -> Forall chunk_in cs.
Proof.
  induction e as [l|o a IHa b IHb]; intros cn su fa fi cs en f2 c2 H L.
  - cbn in H. injection H as <- _ _ _. constructor; [|constructor]. apply mk_in; [apply stmts_in_nil|]. cbn. apply L. left; reflexivity.
  - cbn [leaves] in L.
    assert (La : forall l, In l (leaves a) -> In (KCond l) K) by (intros l I0; apply L, in_or_app; left; exact I0).
    assert (Lb : forall l, In l (leaves b) -> In (KCond l) K) by (intros l I0; apply L, in_or_app; right; exact I0).
    destruct o; cbn [split_bexp] in H.
    + destruct (split_bexp a (cn + 1) (cn + 1) fa fi) as [[[ra la] f1] c1] eqn:Ea.
      destruct (split_bexp b c1 su fa f1) as [[[rb lb] f2'] c2'] eqn:Eb. injection H as <- _ _ _.
      apply Forall_app; split; [eapply IHa; eassumption|]. apply Forall_app; split; [eapply IHb; eassumption|].
      constructor; [|constructor]. apply mk_in; [apply stmts_in_nil|exact I].
    + destruct (split_bexp a (cn + 1) su (cn + 1) fi) as [[[ra la] f1] c1] eqn:Ea.
      destruct (split_bexp b c1 su fa f1) as [[[rb lb] f2'] c2'] eqn:Eb. injection H as <- _ _ _.
      apply Forall_app; split; [eapply IHa; eassumption|]. apply Forall_app; split; [eapply IHb; eassumption|].
      constructor; [|constructor]. apply mk_in; [apply stmts_in_nil|exact I].
Qed.

Lemma mk_body_chunks_in : forall bodies cn ret cs c',
  mk_body_chunks bodies cn ret = (cs, c') -> (forall b, In b bodies -> stmts_in b) -> Forall chunk_in cs.
Proof.
  induction bodies as [|b r IH]; intros cn ret cs c' H B; cbn in H.
  - injection H as <- _. constructor.
  - destruct (mk_body_chunks r (cn + 1) ret) as [cs1 c1] eqn:E. injection H as <- _.
    constructor; [apply mk_in; [apply B; left; reflexivity|exact I]|]. eapply IH; [exact E|]. intros b0 I0. apply B. right; exact I0.
Qed.

Lemma stitch_elifs_in : forall rl cn fail cs entry c',
  stitch_elifs rl cn fail = (cs, entry, c') -> (forall e id l, In (e, id) rl -> In l (leaves e) -> In (KCond l) K) -> Forall chunk_in cs.
Proof.
  induction rl as [|[e id] r IH]; intros cn fail cs entry c' H L; cbn [stitch_elifs] in H.
  - injection H as <- _ _. constructor.
  - destruct (split_bexp e cn id fail (-1)) as [[[cs1 x] first] c1] eqn:E1.
    destruct (stitch_elifs r c1 first) as [[cs2 entry2] c2] eqn:E2. injection H as <- _ _.
    apply Forall_app; split.
    + eapply split_bexp_in; [exact E1|]. intros l I0. eapply L; [left; reflexivity|exact I0].
    + eapply IH; [exact E2|]. intros e0 id0 l I0 I1. eapply L; [right; exact I0|exact I1].
Qed.

(* the constructs of one statement of the chunk being split *)
Lemma cond_in conds els e b : incl (stmt_constructs (SIf conds els)) K -> In (e, b) conds ->
  (forall l, In l (leaves e) -> In (KCond l) K) /\ stmts_in b.
Proof.
  intros H I0. rewrite stmt_constructs_if in H.
  assert (H1 : incl (cond_constructs (e, b)) K).
  { intros k Ik. apply H, in_or_app. left. apply in_flat_map. exists (e, b). split; assumption. }
  unfold cond_constructs in H1. cbn [fst snd] in H1. split.
  - intros l Il. apply H1, in_or_app. left. unfold bexp_constructs. apply in_map, Il.
  - apply stmts_in_incl. intros k Ik. apply H1, in_or_app. right. exact Ik.
Qed.

Lemma create_if_in conds els cur i cn news br ret c' :
  create_if conds els cur i cn = (news, br, ret, c') -> stmts_in (cstmts cur) -> incl (stmt_constructs (SIf conds els)) K ->
  Forall chunk_in news /\ br_in (Some br).
Proof.
  intros H S HI. unfold create_if in H.
  destruct (split_for_branch cur i cn) as [[post ret0] c0] eqn:ES.
  pose proof (sfb_in _ _ _ _ _ _ ES S) as P1.
  destruct (mk_body_chunks (map snd conds) c0 ret0) as [bodychunks c1] eqn:EB.
  assert (P2 : Forall chunk_in bodychunks).
  { eapply mk_body_chunks_in; [exact EB|]. intros b Ib. apply in_map_iff in Ib. destruct Ib as ([e b0] & <- & Ib).
    exact (proj2 (cond_in _ _ _ _ HI Ib)). }
  set (EL := match els with Some b => let c := (c1 + 1)%Z in ([mk c ret0 b None], c, c) | None => ([], c1, ret0) end) in H.
  assert (P3 : Forall chunk_in (fst (fst EL))).
  { subst EL. destruct els as [b|]; cbn; [|constructor]. constructor; [|constructor]. apply mk_in; [|exact I].
    apply stmts_in_incl. intros k Ik. apply HI. rewrite stmt_constructs_if. apply in_or_app. right. exact Ik. }
  destruct EL as [[elsechunk c2] finalfail]. cbn [fst] in P3.
  assert (PL : forall e id l, In (e, id) (combine (map fst conds) (map cid bodychunks)) -> In l (leaves e) -> In (KCond l) K).
  { intros e id l Ic Il. apply in_combine_l in Ic. apply in_map_iff in Ic. destruct Ic as ([e0 b0] & <- & Ib).
    exact (proj1 (cond_in _ _ _ _ HI Ib) l Il). }
  destruct (combine (map fst conds) (map cid bodychunks)) as [|first elifs] eqn:EC.
  - injection H as <- <- _ _. split; [exact P1|exact I].
  - destruct (stitch_elifs (rev elifs) c2 finalfail) as [[cs entryfail] c3] eqn:EST.
    destruct (split_bexp (fst first) c3 (snd first) entryfail (-1)) as [[[cs1 x] entry] c4] eqn:EX.
    injection H as <- <- _ _. split; [|exact I].
    apply Forall_app; split; [exact P1|]. apply Forall_app; split; [exact P2|]. apply Forall_app; split; [exact P3|].
    apply Forall_app; split.
    + eapply stitch_elifs_in; [exact EST|]. intros e id l Ic Il. eapply PL; [right; apply in_rev; exact Ic|exact Il].
    + eapply split_bexp_in; [exact EX|]. intros l Il. destruct first as [e id]. eapply PL; [left; reflexivity|exact Il].
Qed.

Lemma create_while_in tg c body cur i cn news br ret c' :
  create_while c body cur i cn = (news, br, ret, c') -> stmts_in (cstmts cur) -> incl (stmt_constructs (SWhile tg c body)) K ->
  Forall chunk_in news /\ br_in (Some br).
Proof.
  intros H S HI. unfold create_while in H. rewrite stmt_constructs_while in HI.
  destruct (split_for_branch cur i cn) as [[post ret0] c0] eqn:ES.
  pose proof (sfb_in _ _ _ _ _ _ ES S) as P1.
  assert (PB : stmts_in body) by (apply stmts_in_incl; intros k Ik; apply HI, in_or_app; right; exact Ik).
  destruct c as [e|].
  - destruct (split_bexp e (c0 + 2) (c0 + 2) ret0 (-1)) as [[[cs x] entry] c1] eqn:EX. injection H as <- <- _ _. split; [|exact I].
    apply Forall_app; split; [exact P1|]. apply Forall_app; split.
    + eapply split_bexp_in; [exact EX|]. intros l Il. apply HI, in_or_app. left. cbn. unfold bexp_constructs. apply in_map, Il.
    + constructor; [apply mk_in; [exact PB|exact I]|]. constructor; [apply mk_in; [apply stmts_in_nil|exact I]|constructor].
  - injection H as <- <- _ _. split; [|exact I]. apply Forall_app; split; [exact P1|].
    constructor; [apply mk_in; [exact PB|exact I]|]. constructor; [apply mk_in; [apply stmts_in_nil|exact I]|constructor].
Qed.

Lemma create_dowhile_in tg body e cur i cn news br ret c' :
  create_dowhile body e cur i cn = (news, br, ret, c') -> stmts_in (cstmts cur) -> incl (stmt_constructs (SDoWhile tg body e)) K ->
  Forall chunk_in news /\ br_in (Some br).
Proof.
  intros H S HI. unfold create_dowhile in H. rewrite stmt_constructs_dowhile in HI.
  destruct (split_for_branch cur i cn) as [[post ret0] c0] eqn:ES.
  pose proof (sfb_in _ _ _ _ _ _ ES S) as P1.
  assert (PB : stmts_in body) by (apply stmts_in_incl; intros k Ik; apply HI, in_or_app; left; exact Ik).
  destruct (split_bexp e (c0 + 2) (c0 + 2) ret0 (-1)) as [[[cs x] entry] c1] eqn:EX. injection H as <- <- _ _. split; [|exact I].
  apply Forall_app; split; [exact P1|]. apply Forall_app; split.
  - eapply split_bexp_in; [exact EX|]. intros l Il. apply HI, in_or_app. right. unfold bexp_constructs. apply in_map, Il.
  - constructor; [apply mk_in; [exact PB|exact I]|]. constructor; [apply mk_in; [apply stmts_in_nil|exact I]|constructor].
Qed.

(* switch *)
Definition sw_in (st : swst) : Prop :=
  Forall chunk_in (sw_new st) /\ forall v vl d, In (v, vl, d) (sw_cases st) -> In (KCase v vl) K.

Lemma find_bodied_in : forall cs j0 j cj, find_bodied cs j0 = Some (j, cj) -> In cj cs.
Proof.
  induction cs as [|c r IH]; intros j0 j cj H; cbn in H; [discriminate|]. destruct (sc_body c).
  - right. eapply IH; exact H.
  - injection H as _ <-. left; reflexivity.
Qed.

Lemma case_entries_in (all : list scase) (sub : list scase) (id : Z) (v : text) (vl d : Z) :
  (forall c, In c all -> incl (case_constructs c) K) -> (forall c, In c sub -> In c all) ->
  In (v, vl, d) (flat_map (fun c' : scase => if sc_def c' then [] else [(sc_val c', sc_line c', id)]) sub) -> In (KCase v vl) K.
Proof.
  intros HA HS I0. apply in_flat_map in I0. destruct I0 as (c & Ic & I0). destruct (sc_def c) eqn:D; [destruct I0|].
  destruct I0 as [E|[]]. injection E as <- <- _. apply (HA c (HS c Ic)). unfold case_constructs, case_head. rewrite D. left; reflexivity.
Qed.

Lemma sw_loop_in (all : list scase) ret : (forall c, In c all -> incl (case_constructs c) K) ->
  forall f i st st' el, sw_loop f all i ret st = (st', el) -> sw_in st -> sw_in st'.
Proof.
  intros HA. induction f as [|f IH]; intros i st st' el H [S1 S2]; cbn [sw_loop] in H; [injection H as <- _; split; assumption|].
  destruct (nth_error all i) as [c|] eqn:N; [|injection H as <- _; split; assumption].
  pose proof (nth_error_In _ _ N) as Ic.
  assert (BODY : forall c0, In c0 all -> stmts_in (sc_body c0)).
  { intros c0 I0. apply stmts_in_incl. intros k Ik. apply (HA c0 I0). unfold case_constructs. apply in_or_app. right. exact Ik. }
  assert (ONE : forall (c0 : scase) (id : Z) (v : text) (vl d : Z), In c0 all -> In (v, vl, d) (if sc_def c0 then [] else [(sc_val c0, sc_line c0, id)]) -> In (KCase v vl) K).
  { intros c0 id v vl d I0 I1. eapply (case_entries_in all [c0] id); [exact HA| |cbn [flat_map]; rewrite app_nil_r; exact I1].
    intros c1 [<-|[]]. exact I0. }
  destruct (sc_body c) as [|s0 b0] eqn:Bc.
  - destruct (find_bodied (skipn (S i) all) (S i)) as [[j cj]|] eqn:FB.
    + assert (Icj : In cj all) by (eapply in_skipn, find_bodied_in; exact FB).
      eapply IH; [exact H|]. split; cbn [sw_new sw_cases].
      * apply Forall_app; split; [exact S1|]. constructor; [|constructor]. apply mk_in; [apply BODY, Icj|exact I].
      * intros v vl d I0. apply in_app_or in I0. destruct I0 as [I0|I0]; [eapply S2; exact I0|].
        apply in_app_or in I0. destruct I0 as [I0|I0].
        -- eapply (case_entries_in all); [exact HA| |exact I0]. intros c1 I1. eapply in_skipn, in_firstn. exact I1.
        -- eapply ONE; [exact Icj|exact I0].
    + destruct (sw_cases st) as [|x xs] eqn:SC; destruct (sw_def st) as [dd|] eqn:SD; injection H as <- _; try (split; [exact S1|rewrite SC; exact S2]).
      * split; cbn [sw_new sw_cases].
        -- apply Forall_app; split; [exact S1|]. constructor; [|constructor]. apply mk_in; [apply stmts_in_nil|exact I].
        -- intros v vl d I0. cbn [app] in I0. eapply (case_entries_in all); [exact HA| |exact I0]. intros c1. apply in_skipn.
      * split; cbn [sw_new sw_cases].
        -- apply Forall_app; split; [exact S1|]. constructor; [|constructor]. apply mk_in; [apply stmts_in_nil|exact I].
        -- intros v vl d I0. change (In (v, vl, d) ((x :: xs) ++ flat_map (fun c' : scase => if sc_def c' then [] else [(sc_val c', sc_line c', (sw_counter st + 1)%Z)]) (skipn i all))) in I0.
           apply in_app_or in I0. destruct I0 as [I0|I0]; [eapply S2; exact I0|].
           eapply (case_entries_in all); [exact HA| |exact I0]. intros c1. apply in_skipn.
  - eapply IH; [exact H|]. split; cbn [sw_new sw_cases].
    + apply Forall_app; split; [exact S1|]. constructor; [|constructor]. apply mk_in; [rewrite <- Bc; apply BODY, Ic|exact I].
    + intros v vl d I0. destruct (sc_def c) eqn:D; [eapply S2; exact I0|]. apply in_app_or in I0. destruct I0 as [I0|I0]; [eapply S2; exact I0|].
      eapply (ONE c); [exact Ic|rewrite D; exact I0].
Qed.

Lemma create_switch_in tg op ol cases cur i cn news br ret c' :
  create_switch op ol cases cur i cn = (news, br, ret, c') -> stmts_in (cstmts cur) -> incl (stmt_constructs (SSwitch tg op ol cases)) K ->
  Forall chunk_in news /\ br_in (Some br).
Proof.
  intros H S HI. unfold create_switch in H. rewrite stmt_constructs_switch in HI.
  destruct (split_for_branch cur i cn) as [[post ret0] c0] eqn:ES.
  pose proof (sfb_in _ _ _ _ _ _ ES S) as P1. cbv zeta in H.
  match type of H with context[sw_loop ?a ?b ?c ?d ?e] => destruct (sw_loop a b c d e) as [st el] eqn:SW end.
  assert (HA : forall c, In c cases -> incl (case_constructs c) K).
  { intros c Ic k Ik. apply HI. right. apply in_flat_map. exists c. split; assumption. }
  destruct (sw_loop_in cases ret0 HA _ _ _ _ _ SW) as [S1 S2]; [split; [constructor|intros v vl d []]|].
  injection H as <- <- _ _. split; [|exact I]. apply Forall_app; split; [exact P1|]. cbn [app]. constructor; [|exact S1].
  apply mk_in; [apply stmts_in_nil|]. destruct el; [exact I|]. cbn [br_in]. split; [apply HI; left; reflexivity|exact S2].
Qed.

(* one step of the worklist *)
Lemma wstep_in w cur rest fin news c' nt :
  remaining w = cur :: rest -> Worklist.wstep w = Worklist.SNext fin news c' nt -> chunk_in cur -> chunk_in fin /\ Forall chunk_in news.
Proof.
  intros R H [S B]. unfold Worklist.wstep in H. rewrite R in H.
  assert (FN : forall i, stmts_in (firstn i (cstmts cur))) by (intros i; eapply stmts_in_sub; [|exact S]; intros s; apply in_firstn).
  destruct (scan (cstmts cur) 0 (List.length (cstmts cur))) as [i [e|]].
  { injection H as <- <- _ _. split; [split; [apply FN|exact I]|constructor]. }
  destruct (Nat.eqb i (List.length (cstmts cur))).
  { injection H as <- <- _ _. split; [split; assumption|constructor]. }
  destruct (nth_error (cstmts cur) i) as [s|] eqn:N.
  2:{ injection H as <- <- _ _. split; [split; [apply FN|exact I]|constructor]. }
  pose proof (S s (nth_error_In _ _ N)) as HI.
  destruct s as [c|n g tk|conds els|tag c body|tag body c|tag|tag|tag op ol cases].
  - injection H as <- <- _ _. split; [split; [apply FN|exact I]|constructor].
  - injection H as <- <- _ _. split; [split; [apply FN|exact I]|constructor].
  - destruct (create_if conds els cur i (counter w)) as [[[news0 br] ret] c0] eqn:CI. injection H as <- <- _ _.
    destruct (create_if_in _ _ _ _ _ _ _ _ _ CI S HI) as [P1 P2]. split; [split; [apply FN|exact P2]|exact P1].
  - destruct (create_while c body cur i (counter w)) as [[[news0 br] ret] c0] eqn:CI. injection H as <- <- _ _.
    destruct (create_while_in tag _ _ _ _ _ _ _ _ _ CI S HI) as [P1 P2]. split; [split; [apply FN|exact P2]|exact P1].
  - destruct (create_dowhile body c cur i (counter w)) as [[[news0 br] ret] c0] eqn:CI. injection H as <- <- _ _.
    destruct (create_dowhile_in tag _ _ _ _ _ _ _ _ _ CI S HI) as [P1 P2]. split; [split; [apply FN|exact P2]|exact P1].
  - destruct (tm_get (brk w) tag); [|discriminate]. destruct (split_for_branch cur i (counter w)) as [[post ret] c0] eqn:ES.
    injection H as <- <- _ _. split; [split; [apply FN|exact I]|eapply sfb_in; eassumption].
  - destruct (tm_get (org w) tag); [|discriminate]. destruct (split_for_branch cur i (counter w)) as [[post ret] c0] eqn:ES.
    injection H as <- <- _ _. split; [split; [apply FN|exact I]|eapply sfb_in; eassumption].
  - destruct (create_switch op ol cases cur i (counter w)) as [[[news0 br] ret] c0] eqn:CI. injection H as <- <- _ _.
    destruct (create_switch_in tag _ _ _ _ _ _ _ _ _ _ CI S HI) as [P1 P2]. split; [split; [apply FN|exact P2]|exact P1].
Qed.

Definition wst_in (w : wst) : Prop := Forall chunk_in (remaining w) /\ Forall chunk_in (finals w).

Lemma work_in : forall f w w', work f w = Ok w' -> wst_in w -> Forall chunk_in (finals w').
Proof.
  induction f as [|f IH]; intros w w' H [R F]; [discriminate|]. rewrite Worklist.work_S in H.
  destruct (Worklist.wstep w) as [|fin news c' nt| |] eqn:WS; try discriminate.
  - injection H as <-. exact F.
  - destruct (remaining w) as [|cur rest] eqn:RW; [unfold Worklist.wstep in WS; rewrite RW in WS; discriminate|].
    inversion R as [|? ? Rc Rr]; subst.
    destruct (wstep_in _ _ _ _ _ _ _ RW WS Rc) as [P1 P2].
    eapply IH; [exact H|]. unfold Worklist.wnext. split; cbn [remaining finals].
    + rewrite RW. cbn [tl]. apply Forall_app; split; assumption.
    + unfold set_final. constructor; [exact P1|]. apply Forall_forall. intros x Ix. apply filter_In in Ix.
      rewrite Forall_forall in F. apply F, Ix.
Qed.
End SCRIPT.

Local Opaque work_fuel work.
Lemma emit_graph_in body w : emit_graph body = Ok w -> Forall (chunk_in (body_constructs body)) (finals w).
Proof.
  intros H. unfold emit_graph in H. eapply work_in; [exact H|]. split; cbn [remaining finals]; [|constructor].
  constructor; [|constructor]. apply mk_in; [|exact I]. apply stmts_in_incl. apply incl_refl.
Qed.

(* ---------- rendering a chunk graph whose chunks only carry constructs of K ---------- *)
Section RENDERK.
Variable K : list construct.
Variable mp : option text.
Variable tl : list text.

Lemma render_stmt_announced s : incl (stmt_constructs s) K -> announced K (render_stmt mp s).
Proof.
  intros H. destruct s as [c|n g tk|conds els|tag c body|tag body c|tag|tag|tag op ol cases]; cbn [render_stmt]; try constructor.
  - apply (announced_one K mp (KCommand c)); [apply H; left; reflexivity|reflexivity].
  - apply (announced_one K mp (KLabel n g tk)); [apply H; left; reflexivity|reflexivity].
Qed.

Lemma goto_or_fall_plain name d next b : Forall (fun i => notmarker i = true) (fst (fst (goto_or_fall name d next b))).
Proof.
  unfold goto_or_fall. destruct (b && (d =? -1)%Z); [repeat constructor|]. destruct (d =? next)%Z; repeat constructor.
Qed.

Lemma leaf_cmp_announced name l d x : In (KCond l) K -> Forall (fun i => notmarker i = true) x ->
  announced K (marker mp (lline l) ++ render_leaf_cmp name l d ++ x).
Proof.
  intros I0 Fx.
  assert (E : exists i r, render_leaf_cmp name l d = i :: r /\ shows (KCond l) i /\ Forall (fun i => notmarker i = true) r).
  { unfold render_leaf_cmp. cbn [shows]. destruct (lk l).
    - eexists _, []. split; [reflexivity|]. split; [|constructor]. exists (lbl name d). destruct (flag_truthy l); [left|right]; reflexivity.
    - eexists _, [_]. split; [reflexivity|]. split; [reflexivity|repeat constructor].
    - eexists _, [_]. split; [reflexivity|]. split; [reflexivity|repeat constructor]. }
  destruct E as (i & r & -> & S & Fr). change ((i :: r) ++ x) with ([i] ++ (r ++ x)). rewrite app_assoc. change (lline l) with (kline (KCond l)).
  apply announced_app; [apply announced_one; assumption|]. apply announced_plain, Forall_app. split; assumption.
Qed.

Ltac ann := first [assumption | apply announced_app; [assumption|ann] | repeat constructor].
Lemma render_branch_announced name c next : br_in K (cbr c) -> announced K (fst (fst (render_branch mp name c next))).
Proof.
  intros B. unfold render_branch. destruct (cbr c) as [[d|d|l tr fa|op ol cases def dest]|]; cbn [br_in] in B.
  - apply announced_plain, goto_or_fall_plain.
  - apply announced_plain, goto_or_fall_plain.
  - pose proof (goto_or_fall_plain name fa next true) as G. destruct (goto_or_fall name fa next true) as [[x regs] fall]. cbn [fst] in *.
    apply announced_app; [destruct (lpre l); repeat constructor|]. apply leaf_cmp_announced; assumption.
  - destruct B as [B1 B2].
    assert (HD : announced K (marker mp ol ++ [ISwitch op])) by (apply (announced_one K mp (KSwitch op ol)); [exact B1|reflexivity]).
    assert (CS : announced K (flat_map (fun '(v, vl, d) => marker mp vl ++ [ICase v (lbl name d)]) cases)).
    { apply announced_flat_map. intros [[v vl] d] I0. apply (announced_one K mp (KCase v vl)); [eapply B2; exact I0|eexists; reflexivity]. }
    destruct def as [dd|].
    + destruct (dd =? next)%Z; cbn [fst]; ann.
    + destruct (dest =? next)%Z; [|destruct (dest =? -1)%Z]; cbn [fst]; ann.
  - destruct (cret c =? -1)%Z; [destruct (cend c); repeat constructor|]. destruct (cret c =? next)%Z; repeat constructor.
Qed.

Lemma get_chunk_in : forall fs i c, get_chunk fs i = Some c -> In c fs.
Proof.
  induction fs as [|x r IH]; intros i c H; cbn in H; [discriminate|]. destruct (cid x =? i)%Z; [injection H as <-; left; reflexivity|right; eauto].
Qed.

Lemma render_bodies_announced name fs labels : Forall (chunk_in K) fs -> forall order bodies regs,
  render_bodies mp tl name fs labels order = Ok (bodies, regs) -> Forall (fun ib => announced K (snd ib)) bodies.
Proof.
  intros F. induction order as [|i r IH]; intros bodies regs H; cbn [render_bodies] in H.
  - injection H as <- _. constructor.
  - destruct (get_chunk fs i) as [c|] eqn:G; [|eapply IH; exact H].
    destruct (clash tl labels (cstmts c)) as [[tk b]|]; [discriminate|].
    pose proof (render_branch_announced name c (match r with n :: _ => n | [] => (-1)%Z end)) as RB.
    destruct (render_branch mp name c _) as [[b regs0] fall]. cbn [fst] in RB.
    destruct (render_bodies mp tl name fs labels r) as [[rest regs']| | | |]; try discriminate. injection H as <- _.
    rewrite Forall_forall in F. destruct (F c (get_chunk_in _ _ _ G)) as [CS CB].
    constructor; [|eapply IH; reflexivity]. cbn [snd]. apply announced_app; [|apply announced_app; [apply RB, CB|destruct fall; repeat constructor]].
    apply announced_flat_map. intros s Is. apply render_stmt_announced, CS, Is.
Qed.

Lemma render_chunks_announced name glob fs order is : Forall (chunk_in K) fs ->
  render_chunks mp tl name glob fs order = Ok is -> announced K is.
Proof.
  intros F H. unfold render_chunks in H.
  destruct (render_bodies mp tl name fs (map (chunk_label name) fs) order) as [[bodies regs]| | | |] eqn:RB; try discriminate.
  injection H as <-. pose proof (render_bodies_announced _ _ _ F _ _ _ RB) as FB.
  apply announced_flat_map. intros [i b] Ib. rewrite Forall_forall in FB. apply announced_app; [|exact (FB _ Ib)].
  destruct (i =? 0)%Z; [repeat constructor|]. destruct (zmem i regs); repeat constructor.
Qed.
End RENDERK.

(* THEOREM A1: in the -lm output of a script every marker is followed by the instruction of a construct of the body *)
Theorem emit_script_announced mp tl name glob opt body is :
  emit_script mp tl name glob opt body = Ok is -> announced (body_constructs body) is.
Proof.
  intros H. unfold emit_script in H. destruct (emit_graph body) as [w| | | |] eqn:G; try discriminate.
  eapply render_chunks_announced; [|exact H]. apply emit_graph_in, G.
Qed.

(* ---------- whole programs ---------- *)
Fixpoint raw_constructs (lines : list text) (line : Z) : list construct :=
  match lines with [] => [] | l :: r => KRawLine l line :: raw_constructs r (line + 1)%Z end.
Definition script_opt_constructs (o : option (list stmt)) : list construct := match o with Some b => body_constructs b | None => [] end.
Definition entry_constructs (e : tableentry) : list construct := KTableEntry e :: script_opt_constructs (teScript e).
Definition table_constructs (tb : tablems) : list construct := KMapScript (tmType tb) (tmName tb) :: flat_map entry_constructs (tmEntries tb).
Definition mapscript_constructs (m : mapscript) : list construct := KMapScript (msType m) (msName m) :: script_opt_constructs (msScript m).

Definition top_constructs (tp : top) : list construct :=
  match tp with
  | TScript _ _ body => body_constructs body
  | TRaw v line => raw_constructs (split_nl v []) line
  | TTextStmt => []
  | TMovement n g tk steps => KMovement n g tk :: map KStep steps
  | TMart n g tk items itoks => KMart n g tk :: map (fun p => KItem (fst p) (snd p)) (combine items itoks)
  | TMapScripts _ _ plain tables => flat_map mapscript_constructs plain ++ flat_map table_constructs tables
  end.
(* the constructs of a program: those of its top-level statements (hoisted movements included) and its texts *)
Definition program_constructs (p : program) : list construct := flat_map top_constructs (tops p) ++ map KText (texts p).

Section PROGK.
Variable mp : option text.
Variable tl : list text.

Lemma emit_text_announced x : announced [KText x] (emit_text mp x).
Proof.
  unfold emit_text. apply announced_app; [repeat constructor|].
  assert (E : exists c r, split_nl (xvalue x) [] = c :: r).
  { generalize (@nil N). induction (xvalue x) as [|ch s IH]; intros acc; cbn [split_nl]; [eexists _, _; reflexivity|].
    destruct (ch =? 10)%N; [eexists _, _; reflexivity|apply IH]. }
  destruct E as (c & r & ->). cbn [map]. change (tline (xtok x)) with (kline (KText x)).
  match goal with |- announced _ (?m ++ ?i :: ?rest) => change (m ++ i :: rest) with (m ++ [i] ++ rest) end. rewrite app_assoc.
  apply announced_app; [apply announced_one; [left; reflexivity|eexists; reflexivity]|].
  apply announced_plain. induction r; constructor; [reflexivity|assumption].
Qed.

Lemma emit_steps_announced steps : announced (map KStep steps) (emit_steps mp steps).
Proof.
  induction steps as [|s r IH]; cbn [emit_steps]; [repeat constructor|]. rewrite app_assoc. apply announced_app.
  - apply (announced_one _ mp (KStep s)); [left; reflexivity|reflexivity].
  - destruct (text_eqb (tlit s) (t "step_end")); [constructor|]. eapply announced_incl; [|exact IH]. intros k Ik. right; exact Ik.
Qed.
Lemma emit_movement_announced n g tk steps : announced (top_constructs (TMovement n g tk steps)) (emit_movement mp n g tk steps).
Proof.
  unfold emit_movement. cbn [top_constructs]. rewrite app_assoc. apply announced_app.
  - apply (announced_one _ mp (KMovement n g tk)); [left; reflexivity|reflexivity].
  - eapply announced_incl; [|apply emit_steps_announced]. intros k Ik. right; exact Ik.
Qed.

Lemma emit_items_announced : forall items itoks, announced (map (fun p => KItem (fst p) (snd p)) (combine items itoks)) (emit_items mp items itoks).
Proof.
  induction items as [|i r IH]; intros [|tk rt]; cbn [emit_items combine map]; try constructor.
  destruct (text_eqb i (t "ITEM_NONE")); [constructor|]. rewrite app_assoc. apply announced_app.
  - apply (announced_one _ mp (KItem i tk)); [left; reflexivity|reflexivity].
  - eapply announced_incl; [|apply IH]. intros k Ik. right; exact Ik.
Qed.
Lemma emit_mart_announced n g tk items itoks : announced (top_constructs (TMart n g tk items itoks)) (emit_mart mp n g tk items itoks).
Proof.
  unfold emit_mart. cbn [top_constructs]. apply announced_app; [repeat constructor|]. rewrite app_assoc. apply announced_app.
  - apply (announced_one _ mp (KMart n g tk)); [left; reflexivity|reflexivity].
  - apply announced_app; [|repeat constructor]. eapply announced_incl; [|apply emit_items_announced]. intros k Ik. right; exact Ik.
Qed.

Lemma emit_raw_lines_announced : forall lines line, announced (raw_constructs lines line) (emit_raw_lines mp lines line).
Proof.
  induction lines as [|l r IH]; intros line; cbn [emit_raw_lines raw_constructs]; [constructor|]. rewrite app_assoc. apply announced_app.
  - apply (announced_one _ mp (KRawLine l line)); [left; reflexivity|reflexivity].
  - eapply announced_incl; [|apply IH]. intros k Ik. right; exact Ik.
Qed.

Lemma ok_inj {A} (a b : A) : @Ok A a = Ok b -> a = b.
Proof. congruence. Qed.
Lemma bind_i_ok {A B} (r : res A) (f : A -> res B) y : bind_i r f = Ok y -> exists x, r = Ok x /\ f x = Ok y.
Proof. destruct r; cbn; try discriminate. eauto. Qed.

Lemma emit_scripts_announced opt : forall (l : list (text * option (list stmt))) is,
  emit_scripts mp tl opt l = Ok is -> announced (flat_map (fun p => script_opt_constructs (snd p)) l) is.
Proof.
  induction l as [|[n [b|]] r IH]; intros is H; cbn [emit_scripts] in H.
  - injection H as <-. constructor.
  - apply bind_i_ok in H. destruct H as (x & E1 & H). apply bind_i_ok in H. destruct H as (y & E2 & H). injection H as <-.
    cbn [flat_map snd script_opt_constructs]. apply announced_app.
    + eapply announced_incl; [|eapply emit_script_announced; exact E1]. intros k Ik. apply in_or_app. left; exact Ik.
    + eapply announced_incl; [|apply IH; exact E2]. intros k Ik. apply in_or_app. right; exact Ik.
  - cbn [flat_map snd script_opt_constructs app]. apply IH, H.
Qed.

Lemma emit_tables_announced opt : forall (l : list tablems) is,
  emit_tables mp tl opt l = Ok is -> announced (flat_map (fun tb => flat_map entry_constructs (tmEntries tb)) l) is.
Proof.
  induction l as [|tb r IH]; intros is H; cbn [emit_tables] in H.
  - injection H as <-. constructor.
  - apply bind_i_ok in H. destruct H as (x & E1 & H). apply bind_i_ok in H. destruct H as (y & E2 & H). apply ok_inj in H. subst is.
    cbn [flat_map]. apply announced_app; [|apply announced_app].
    + eapply announced_incl with (K := flat_map entry_constructs (tmEntries tb)); [intros k Ik; apply in_or_app; left; exact Ik|].
      apply announced_app; [repeat constructor|]. apply announced_app; [|repeat constructor].
      apply announced_flat_map. intros e Ie. eapply announced_incl; [|apply (announced_one [KTableEntry e] mp (KTableEntry e)); [left; reflexivity|reflexivity]].
      intros k [<-|[]]. apply in_flat_map. exists e. split; [exact Ie|left; reflexivity].
    + eapply announced_incl; [|eapply emit_scripts_announced; exact E1]. intros k Ik. apply in_or_app. left.
      apply in_flat_map in Ik. destruct Ik as ([nm o] & Ip & Ik). apply in_map_iff in Ip. destruct Ip as (e & Ee & Ie). injection Ee as _ <-.
      apply in_flat_map. exists e. split; [exact Ie|right; exact Ik].
    + eapply announced_incl; [|apply IH; exact E2]. intros k Ik. apply in_or_app. right; exact Ik.
Qed.

Lemma emit_mapscripts_announced opt n g plain tables is :
  emit_mapscripts mp tl opt n g plain tables = Ok is -> announced (top_constructs (TMapScripts n g plain tables)) is.
Proof.
  intros H. unfold emit_mapscripts in H. apply bind_i_ok in H. destruct H as (x & E1 & H). apply bind_i_ok in H. destruct H as (y & E2 & H).
  apply ok_inj in H. subst is. cbn [top_constructs]. apply announced_app; [|apply announced_app].
  - apply announced_app; [repeat constructor|]. apply announced_app; [|apply announced_app; [|repeat constructor]].
    + apply announced_flat_map. intros m Im.
      eapply announced_incl; [|apply (announced_one [KMapScript (msType m) (msName m)] mp (KMapScript (msType m) (msName m))); [left; reflexivity|reflexivity]].
      intros k [<-|[]]. apply in_or_app. left. apply in_flat_map. exists m. split; [exact Im|left; reflexivity].
    + apply announced_flat_map. intros tb Itb.
      eapply announced_incl; [|apply (announced_one [KMapScript (tmType tb) (tmName tb)] mp (KMapScript (tmType tb) (tmName tb))); [left; reflexivity|reflexivity]].
      intros k [<-|[]]. apply in_or_app. right. apply in_flat_map. exists tb. split; [exact Itb|left; reflexivity].
  - eapply announced_incl; [|eapply emit_scripts_announced; exact E1]. intros k Ik. apply in_or_app. left.
    apply in_flat_map in Ik. destruct Ik as ([nm o] & Ip & Ik). apply in_map_iff in Ip. destruct Ip as (m & Em & Im). injection Em as _ <-.
    apply in_flat_map. exists m. split; [exact Im|right; exact Ik].
  - eapply announced_incl; [|eapply emit_tables_announced; exact E2]. intros k Ik. apply in_or_app. right.
    apply in_flat_map in Ik. destruct Ik as (tb & Itb & Ik). apply in_flat_map. exists tb. split; [exact Itb|right; exact Ik].
Qed.

Lemma emit_top_announced opt tp r is : emit_top mp tl opt tp = Some r -> r = Ok is -> announced (top_constructs tp) is.
Proof.
  intros H E. destruct tp as [n g b|v ln| |n g tk steps|n g tk items itoks|n g plain tables]; cbn [emit_top] in H; try discriminate; injection H as <-.
  - eapply emit_script_announced; exact E.
  - injection E as <-. apply emit_raw_lines_announced.
  - injection E as <-. apply emit_movement_announced.
  - injection E as <-. apply emit_mart_announced.
  - eapply emit_mapscripts_announced; exact E.
Qed.

Lemma emit_tops_announced opt : forall l i is n, emit_tops mp tl opt l i = Ok (is, n) -> announced (flat_map top_constructs l) is.
Proof.
  induction l as [|tp r IH]; intros i is n H; cbn [emit_tops] in H.
  - injection H as <- _. constructor.
  - destruct (emit_top mp tl opt tp) as [rt|] eqn:ET.
    + apply bind_i_ok in H. destruct H as (x & E1 & H). apply bind_i_ok in H. destruct H as ([y m] & E2 & H). injection H as <- _.
      cbn [flat_map]. apply announced_app; [destruct i; repeat constructor|]. apply announced_app.
      * eapply announced_incl; [|eapply emit_top_announced; [exact ET|exact E1]]. intros k Ik. apply in_or_app. left; exact Ik.
      * eapply announced_incl; [|eapply IH; exact E2]. intros k Ik. apply in_or_app. right; exact Ik.
    + cbn [flat_map]. eapply announced_incl; [|eapply IH; exact H]. intros k Ik. apply in_or_app. right; exact Ik.
Qed.

Lemma emit_texts_announced : forall l k, announced (map KText l) (emit_texts mp l k).
Proof.
  induction l as [|x r IH]; intros k; cbn [emit_texts map]; [constructor|]. apply announced_app; [destruct k; repeat constructor|].
  apply announced_app.
  - eapply announced_incl; [|apply emit_text_announced]. intros k0 [<-|[]]. left; reflexivity.
  - eapply announced_incl; [|apply IH]. intros k0 Ik. right; exact Ik.
Qed.
End PROGK.

(* THEOREM A2: the same for whole programs *)
Theorem emit_program_announced opt mp prog is :
  emit_program_instrs opt mp prog = Ok is -> announced (program_constructs prog) is.
Proof.
  intros H. unfold emit_program_instrs in H.
  destruct (emit_tops mp (map xname (texts prog)) opt (tops prog) 0) as [[x n]| | | |] eqn:ET; try discriminate. injection H as <-.
  unfold program_constructs. apply announced_app.
  - eapply announced_incl; [|eapply emit_tops_announced; exact ET]. intros k Ik. apply in_or_app. left; exact Ik.
  - eapply announced_incl; [|apply emit_texts_announced]. intros k Ik. apply in_or_app. right; exact Ik.
Qed.

(* MAIN THEOREM A: in the -lm output of a program, every marker is immediately followed by the instruction that renders a
   construct of the program, and the number it carries is the line the AST records for that construct *)
Theorem marker_names_following_construct opt p prog is :
  emit_program_instrs opt (Some p) prog = Ok is ->
  forall pre l post, is = pre ++ IMarker l :: post ->
  exists k i post', post = i :: post' /\ In k (program_constructs prog) /\ kline k = l /\ shows k i.
Proof. intros H. apply announced_at. eapply emit_program_announced; exact H. Qed.

Theorem script_marker_names_following_construct p tl name glob opt body is :
  emit_script (Some p) tl name glob opt body = Ok is ->
  forall pre l post, is = pre ++ IMarker l :: post ->
  exists k i post', post = i :: post' /\ In k (body_constructs body) /\ kline k = l /\ shows k i.
Proof. intros H. apply announced_at. eapply emit_script_announced; exact H. Qed.

(* the text of a marker: "# <line> "<path with backslashes doubled>"" *)
Theorem marker_text path line :
  print_instr path (IMarker line) = t "# " ++ decZ line ++ t " """ ++ esc_path path ++ t """" ++ nl.
Proof. reflexivity. Qed.

(* ====================================================================================================================== *)
(* PART B: the parser, site by site                                                                                       *)
(* ====================================================================================================================== *)
From Pory Require Import Parser Consume ConstSites.
From Pory Require LabelSim LexInv LexLayout LexPos ProgSrc Format Compile.
(* from here on  Ok  is Parser.Ok ; the emitter's results are written Emitter.Ok *)

Section MSITES.
Variable autovars : list (text * autovar).
Variable switches : list (text * text).
Variable env_errors : bool.
Variable parse_format : toks -> res (token * text * text * toks).
Variable consts : list (text * text).
Hypothesis parse_format_advs : forall ts tk v sty ts', parse_format ts = Ok (tk, v, sty, ts') -> forall a, advs a ts -> advs a ts'.

Notation command_stmt := (command_stmt switches env_errors parse_format consts).
Notation var_or_autovar := (var_or_autovar autovars switches env_errors parse_format consts).
Notation leaf_expr := (leaf_expr autovars switches env_errors parse_format consts).
Notation parse_switch := (parse_switch autovars switches env_errors parse_format consts).
Notation parse_cases := (parse_cases autovars switches env_errors parse_format consts).
Notation parse_switch_block := (parse_switch_block autovars switches env_errors parse_format consts).
Notation subst := (subst consts).

(* MARKER SITE 1: a command.  The token recorded for a command is the first token of the command: its name. *)
Theorem command_marker_site f script ts c imp ts' :
  command_stmt f script ts = Ok (c, imp, ts') -> ctok c = cur ts /\ cname c = tlit (cur ts).
Proof. intros H. destruct (command_name_verbatim _ _ _ _ _ _ _ _ _ _ H) as [A B]. split; assumption. Qed.

(* MARKER SITE 2: a label.  The token recorded for a label is its name token, the first token of "name:" / "name(global):". *)
Theorem label_marker_site ts s ts' :
  try_label ts = Some (s, ts') -> exists g, s = SLabel (tlit (cur ts)) g (cur ts).
Proof. apply label_name_verbatim. Qed.

(* MARKER SITE 3: a condition leaf. *)
Lemma leaf_line_plain f script ts0 l imp ts' :
  leaf_expr f script ts0 = Ok (l, imp, ts') -> lpre l = None ->
  lline l = tline (cur (adv (adv (adv (if peekis NOT ts0 then adv ts0 else ts0))))).
Proof.
  intros H LP. unfold Parser.leaf_expr in H.
  destruct (peekis NOT ts0); cbv beta iota zeta in H.
  all: match type of H with context[peek_is_autovar autovars ?x] => set (ts := x) in * end.
  all: destruct (negb (peekis VAR ts) && negb (peek_is_autovar autovars ts) && negb (peekis FLAG ts) && negb (peekis DEFEATED ts)); [discriminate|].
  all: destruct (negb (peek_is_autovar autovars ts)).
  all: try (exfalso; destruct (var_or_autovar f script ts) as [[[r imp1] ts1]| | |]; try discriminate;
            destruct r as [[v c]|]; [|discriminate]; cbv beta iota zeta in H;
            first [ injection H as Hl _ _; subst l; discriminate LP
                  | destruct (cond_var_operator consts f (adv ts1)) as [[[[o v0] st] ts5]| | |]; try discriminate; injection H as Hl _ _; subst l; discriminate LP ]).
  all: destruct (expect_peek LPAREN (adv ts)) as [ts2|] eqn:P1; [|discriminate]; rewrite (expect_peek_some _ _ _ P1) in *;
       destruct (peekis RPAREN (adv (adv ts))); [discriminate|];
       destruct (collect_until consts f (is RPAREN) (adv (adv (adv ts))) []) as [[parts ts4]|]; [|discriminate]; cbv beta iota zeta in H.
  - injection H as <- _ _. reflexivity.
  - destruct (if is VAR (cur (adv ts)) then KVar else if is FLAG (cur (adv ts)) then KFlag else KDefeated).
    + destruct (cond_flag_operator (adv ts4) "flag") as [[[o v] ts5]| | |]; try discriminate. injection H as <- _ _. reflexivity.
    + destruct (cond_var_operator consts f (adv ts4)) as [[[[o v] st] ts5]| | |]; try discriminate. injection H as <- _ _. reflexivity.
    + destruct (cond_flag_operator (adv ts4) "defeated") as [[[o v] ts5]| | |]; try discriminate. injection H as <- _ _. reflexivity.
Qed.

(* flag( ) / var( ) / defeated( ): the recorded line is the line of the first token of the operand *)
Theorem condition_marker_site f script ts0 l imp ts' :
  leaf_expr f script ts0 = Ok (l, imp, ts') -> eof_ended ts0 -> lpre l = None ->
  exists pre op lp first seg rp rest,
    ts0 = pre ++ op :: lp :: first :: seg ++ rp :: rest /\
    (pre = [cur ts0] /\ peekis NOT ts0 = false \/ exists nt, pre = [cur ts0; nt] /\ is NOT nt = true /\ peekis NOT ts0 = true) /\
    (ttype op = VAR \/ ttype op = FLAG \/ ttype op = DEFEATED) /\ is LPAREN lp = true /\
    Forall (fun tk => is RPAREN tk = false) (first :: seg) /\ is RPAREN rp = true /\
    loperand l = join sp (map subst (first :: seg)) /\
    lline l = tline first.
Proof.
  intros H EO LP. pose proof (leaf_line_plain _ _ _ _ _ _ H LP) as LL.
  destruct (condition_operand_site _ _ _ _ _ _ _ _ _ _ _ H EO LP) as (pre & op & lp & seg & rp & rest & E & PRE & OP & _ & LPA & NE & F & RP & LO & _).
  destruct seg as [|first seg]; [congruence|]. exists pre, op, lp, first, seg, rp, rest.
  split; [exact E|]. split; [exact PRE|]. split; [exact OP|]. split; [exact LPA|]. split; [exact F|]. split; [exact RP|]. split; [exact LO|].
  rewrite LL. destruct PRE as [[-> PN]|(nt & -> & _ & PN)]; rewrite PN; rewrite E; reflexivity.
Qed.

(* an AutoVar command used as a condition: the recorded line is the line of the command's name token, the first token of the leaf *)
Theorem condition_autovar_marker_site f script ts0 l imp ts' c :
  leaf_expr f script ts0 = Ok (l, imp, ts') -> eof_ended ts0 -> lpre l = Some c ->
  exists pre rest,
    ts0 = pre ++ ctok c :: rest /\
    (pre = [cur ts0] /\ peekis NOT ts0 = false \/ exists nt, pre = [cur ts0; nt] /\ is NOT nt = true /\ peekis NOT ts0 = true) /\
    is IDENT (ctok c) = true /\ cname c = tlit (ctok c) /\ lline l = tline (ctok c).
Proof.
  intros H EO LP. unfold Parser.leaf_expr in H.
  remember (if peekis NOT ts0 then (true, adv ts0) else (false, ts0)) as p eqn:Ep. destruct p as [used_not ts].
  assert (EOts : eof_ended ts).
  { destruct (peekis NOT ts0); inversion Ep; subst; [eapply advs_eof; [apply advs_step, advs_refl|exact EO]|exact EO]. }
  cbv zeta in H.
  destruct (negb (peekis VAR ts) && negb (peek_is_autovar autovars ts) && negb (peekis FLAG ts) && negb (peekis DEFEATED ts)); [discriminate|].
  destruct (negb (peek_is_autovar autovars ts)) eqn:IA.
  { exfalso. destruct (expect_peek LPAREN (adv ts)) as [ts2|]; [|discriminate]. destruct (peekis RPAREN ts2); [discriminate|].
    destruct (collect_until consts f (is RPAREN) (adv ts2) []) as [[parts ts4]|]; [|discriminate]. cbv beta iota zeta in H.
    destruct used_not; [injection H as <- _ _; discriminate LP|].
    destruct (if is VAR (cur (adv ts)) then KVar else if is FLAG (cur (adv ts)) then KFlag else KDefeated).
    + destruct (cond_flag_operator (adv ts4) "flag") as [[[o v] ts5]| | |]; try discriminate. injection H as <- _ _; discriminate LP.
    + destruct (cond_var_operator consts f (adv ts4)) as [[[[o v] st] ts5]| | |]; try discriminate. injection H as <- _ _; discriminate LP.
    + destruct (cond_flag_operator (adv ts4) "defeated") as [[[o v] ts5]| | |]; try discriminate. injection H as <- _ _; discriminate LP. }
  apply negb_false_iff in IA. unfold peek_is_autovar in IA. apply andb_prop in IA. destruct IA as [PI AV].
  destruct (peekis_step IDENT ts EOts PI ltac:(discriminate)) as (E1 & C1 & EO1).
  destruct (var_or_autovar f script ts) as [[[r imp1] ts1]| | |] eqn:VA; try discriminate.
  destruct r as [[v c0]|]; [|discriminate]. cbv beta iota zeta in H.
  assert (CT : ctok c0 = cur (adv ts) /\ cname c0 = tlit (cur (adv ts))).
  { unfold Parser.var_or_autovar in VA. destruct (peekis VAR ts) eqn:PV.
    { exfalso. unfold peekis in PI, PV. apply is_spec in PI. apply is_spec in PV. congruence. }
    destruct (assoc autovars (tlit (pk 1 ts))) as [av|]; [|discriminate]. cbv zeta in VA.
    destruct (command_stmt f script (adv ts)) as [[[c1 imp2] ts2]| | |] eqn:CS; try discriminate.
    destruct (command_marker_site _ _ _ _ _ _ CS) as [A B].
    destruct (avPos av) as [p|]; [destruct ((p <? 0)%Z || (p >? Z.of_nat (List.length (cargs c1)) - 1)%Z); [discriminate|]|]; injection VA as _ <- _ _; split; assumption. }
  destruct CT as [CT CN].
  assert (LC : lpre l = Some c0 /\ lline l = tline (ctok c0)).
  { destruct used_not; [injection H as <- _ _; split; reflexivity|].
    destruct (cond_var_operator consts f (adv ts1)) as [[[[o v0] st] ts5]| | |]; try discriminate. injection H as <- _ _; split; reflexivity. }
  destruct LC as [LC LL]. rewrite LP in LC. injection LC as <-.
  exists (if used_not then [cur ts0; cur ts] else [cur ts0]), (adv (adv ts)).
  assert (E2 : adv ts = cur (adv ts) :: adv (adv ts)).
  { destruct (step_nonEOF IDENT (adv ts) EO1 C1 ltac:(discriminate)) as (r0 & E & A & _). rewrite A. exact E. }
  split; [|split; [|split; [rewrite CT; exact C1|split; [rewrite CN, CT; reflexivity|exact LL]]]].
  - rewrite CT. destruct (peekis NOT ts0) eqn:PN; injection Ep as -> ->.
    + destruct (peekis_step NOT ts0 EO PN ltac:(discriminate)) as (Ea & _ & _). rewrite Ea at 1. cbn [app]. rewrite E1 at 1. now rewrite E2 at 1.
    + cbn [app]. rewrite E1 at 1. now rewrite E2 at 1.
  - destruct (peekis NOT ts0) eqn:PN; injection Ep as -> ->.
    + right. exists (cur (adv ts0)). split; [reflexivity|]. split; [|reflexivity].
      destruct (peekis_step NOT ts0 EO PN ltac:(discriminate)) as (_ & Ca & _). exact Ca.
    + left. split; reflexivity.
Qed.

(* MARKER SITE 4: a switch.  switch (var(X ...)): the recorded line is the line of the first token after "var(" (the first
   token of the operand); switch (cmd(...)) with an AutoVar command: the line of the command's name token, the first token
   after "switch (" *)
Theorem switch_marker_site f script bs cs ts ss imp ts' :
  parse_switch f script bs cs ts = Ok (ss, imp, ts') -> eof_ended ts ->
  (peekis VAR (adv ts) = true ->
     exists tg operand oline cases lp vr lp2 first rest,
       ss = [SSwitch tg operand oline cases] /\ ts = cur ts :: lp :: vr :: lp2 :: first :: rest /\
       is LPAREN lp = true /\ is VAR vr = true /\ is LPAREN lp2 = true /\ oline = tline first) /\
  (peekis VAR (adv ts) = false ->
     exists c tg operand oline cases lp rest,
       ss = [SCmd c; SSwitch tg operand oline cases] /\ ts = cur ts :: lp :: ctok c :: rest /\
       is LPAREN lp = true /\ cname c = tlit (ctok c) /\ oline = tline (ctok c)).
Proof.
  destruct f as [|f]; [discriminate|]. intros H EO. rewrite parse_switch_unfold in H. cbv zeta in H.
  destruct (expect_peek LPAREN ts) as [ts1|] eqn:P1; [|discriminate].
  destruct (peek_step _ _ _ EO P1 ltac:(discriminate)) as (E1 & C1 & EO1).
  pose proof (expect_peek_some _ _ _ P1) as A1.
  destruct (var_or_autovar f script ts1) as [[[r imp1] ts2]| | |] eqn:VA; try discriminate.
  match type of H with (do _ <- ?X ; _) = _ => destruct X as [[[[operand oline] pre] ts3]| | |] eqn:OP; try discriminate end.
  destruct (expect_peek LBRACE ts3) as [ts4|] eqn:P2; [|discriminate].
  destruct (parse_cases f script (List.length ts :: bs) cs (cur ts4) (adv ts4) [] [] false imp0) as [[[cases imp2] ts5]| | |] eqn:PC; try discriminate.
  assert (SS : ss = match pre with Some c => [SCmd c] | None => [] end ++ [SSwitch (List.length ts) operand oline cases]).
  { destruct cases; [discriminate|]. injection H as <- _ _. reflexivity. }
  rewrite <- A1. unfold Parser.var_or_autovar in VA. split; intros PV; rewrite PV in VA; cbv zeta in VA.
  - destruct (peekis_step VAR ts1 EO1 PV ltac:(discriminate)) as (Ea & Ca & EOa).
    destruct (expect_peek LPAREN (adv ts1)) as [tsb|] eqn:P3; [|discriminate]. injection VA as <- _ <-.
    destruct (peek_step _ _ _ EOa P3 ltac:(discriminate)) as (Eb & Cb & EOb).
    destruct (step_nonEOF LPAREN tsb EOb Cb ltac:(discriminate)) as (rb & Ec & Ab & EOc). rewrite Ab in OP.
    destruct (switch_operand consts f (cur ts) rb []) as [[parts tsx]| | |] eqn:SO; try discriminate. injection OP as <- <- <- _.
    assert (Ed : rb = cur rb :: tl rb) by (destruct rb as [|x rb']; [destruct EOc; congruence|reflexivity]).
    exists (List.length ts), (join sp parts), (tline (cur rb)), cases, (cur ts1), (cur (adv ts1)), (cur tsb), (cur rb), (tl rb).
    split; [exact SS|]. split; [rewrite E1 at 1; rewrite Ea at 1; rewrite Eb at 1; rewrite Ec at 1; now rewrite Ed at 1|].
    split; [exact C1|]. split; [exact Ca|]. split; [exact Cb|reflexivity].
  - destruct (assoc autovars (tlit (pk 1 ts1))) as [av|]; [|discriminate].
    destruct (command_stmt f script (adv ts1)) as [[[c1 imp3] tsc]| | |] eqn:CS; try discriminate.
    destruct (command_marker_site _ _ _ _ _ _ CS) as [CT CN].
    assert (R : r = Some (Datatypes.fst (match r with Some p => p | None => ([], c1) end), c1)).
    { destruct (avPos av) as [p|]; [destruct ((p <? 0)%Z || (p >? Z.of_nat (List.length (cargs c1)) - 1)%Z); [discriminate|]|]; injection VA as <- _ _; reflexivity. }
    rewrite R in OP. destruct (expect_peek RPAREN ts2) as [tsx|]; [|discriminate]. injection OP as <- <- <- _.
    assert (E2 : adv ts1 = cur (adv ts1) :: tl (adv ts1)).
    { assert (EO2 : eof_ended (adv ts1)) by (eapply advs_eof; [apply advs_step, advs_refl|exact EO1]).
      destruct (adv ts1) as [|x r0]; [destruct EO2; congruence|reflexivity]. }
    assert (Ea : ts1 = cur ts1 :: adv ts1) by (destruct (step_nonEOF LPAREN ts1 EO1 C1 ltac:(discriminate)) as (r1 & E & A & _); rewrite A; exact E).
    exists c1, (List.length ts). eexists. exists (tline (ctok c1)), cases, (cur ts1), (tl (adv ts1)).
    split; [exact SS|]. split; [rewrite E1 at 1; rewrite Ea at 1; rewrite E2 at 1; now rewrite CT|].
    split; [exact C1|]. split; [rewrite CN, CT; reflexivity|reflexivity].
Qed.
End MSITES.

Lemma in_advs' base ts (tk : token) : advs base ts -> In tk ts -> In tk base.
Proof. intros A I0. destruct (advs_split _ _ A) as [pre ->]. apply in_or_app. right; exact I0. Qed.

Section MSITES2.
Variable autovars : list (text * autovar).
Variable switches : list (text * text).
Variable env_errors : bool.
Variable parse_format : toks -> res (token * text * text * toks).
Variable consts : list (text * text).
Hypothesis parse_format_advs : forall ts tk v sty ts', parse_format ts = Ok (tk, v, sty, ts') -> forall a, advs a ts -> advs a ts'.

Notation parse_switch := (parse_switch autovars switches env_errors parse_format consts).
Notation parse_cases := (parse_cases autovars switches env_errors parse_format consts).
Notation parse_switch_block := (parse_switch_block autovars switches env_errors parse_format consts).
Notation var_or_autovar := (var_or_autovar autovars switches env_errors parse_format consts).
Notation subst := (subst consts).

(* MARKER SITE 5: a case.  A case read from the stream [ts]: either the default case, or its value is made of the tokens
   between a 'case' keyword and the next ':' and its recorded line is the line of the first token after 'case' (the first
   token of the value) *)
Definition case_marker_from (ts : toks) (c : scase) : Prop :=
  sc_def c = true \/
  exists pre ck seg post, ts = pre ++ ck :: seg ++ post /\ is CASE ck = true /\ Forall (fun tk => is COLON tk = false) seg /\
                          curis COLON post = true /\ sc_val c = join sp (map subst seg) /\ sc_line c = tline (cur (seg ++ post)).
Lemma case_marker_from_app a b c : case_marker_from b c -> case_marker_from (a ++ b) c.
Proof.
  intros [D|(pre & ck & seg & post & E & R)]; [left; exact D|]. right. exists (a ++ pre), ck, seg, post.
  split; [rewrite E; now rewrite <- app_assoc|exact R].
Qed.

Lemma parse_cases_marker_site : forall f script bs cs brace ts acc seen hasdef imp cases imp' ts',
  parse_cases f script bs cs brace ts acc seen hasdef imp = Ok (cases, imp', ts') -> eof_ended ts ->
  exists news, cases = acc ++ news /\ Forall (case_marker_from ts) news.
Proof.
  induction f as [|f IH]; intros script bs cs brace ts acc seen hasdef imp cases imp' ts' H EO; [discriminate|].
  rewrite parse_cases_unfold in H.
  destruct (curis RBRACE ts) eqn:C1.
  { injection H as <- _ _. exists []. split; [now rewrite app_nil_r|constructor]. }
  destruct (curis CASE ts) eqn:C2.
  { cbv zeta in H. destruct (step_nonEOF CASE ts EO C2 ltac:(discriminate)) as (r & E & A & EO1). rewrite A in H.
    destruct (collect_until consts f (is COLON) r []) as [[parts ts2]|] eqn:CU; [|discriminate].
    destruct (collect_until_site _ _ _ _ _ _ _ CU EO1) as (seg & E2 & F & ST & EO2 & PA).
    destruct (existsb (text_eqb (join sp parts)) seen); [discriminate|].
    destruct (parse_switch_block f script bs cs brace (adv ts2) [] imp0) as [[[b imp1] ts3]| | |] eqn:SB; try discriminate.
    pose proof (parse_switch_block_suffix _ _ _ _ _ parse_format_advs _ _ _ _ _ _ _ _ _ _ _ SB) as A3.
    assert (A4 : advs ts2 ts3) by (apply advs_step; exact A3).
    destruct (advs_split _ _ A4) as [pre3 E3]. pose proof (advs_eof _ _ A4 EO2) as EO3.
    destruct (IH _ _ _ _ _ _ _ _ _ _ _ _ H EO3) as (news & EC & FC).
    exists ((false, join sp parts, tline (cur r), b) :: news). split; [rewrite EC; now rewrite <- app_assoc|].
    assert (TS : ts = (cur ts :: seg ++ pre3) ++ ts3) by (rewrite E at 1; rewrite E2, E3; cbn [app]; now rewrite <- app_assoc).
    constructor.
    - right. exists [], (cur ts), seg, ts2. cbn [app sc_val sc_line sc_def Datatypes.fst Datatypes.snd]. split; [rewrite E at 1; now rewrite E2|].
      split; [exact C2|]. split; [exact F|]. split; [exact ST|]. split; [rewrite PA; reflexivity|]. rewrite E2. reflexivity.
    - rewrite TS. eapply Forall_impl; [|exact FC]. intros c. apply case_marker_from_app. }
  destruct (curis DEFAULT ts) eqn:C3; [|discriminate].
  destruct hasdef; [discriminate|].
  destruct (expect_peek COLON ts) as [ts1|] eqn:P; [|discriminate].
  destruct (peek_step _ _ _ EO P ltac:(discriminate)) as (E1 & C4 & EO1).
  destruct (parse_switch_block f script bs cs brace (adv ts1) [] imp0) as [[[b imp1] ts2]| | |] eqn:SB; try discriminate.
  pose proof (parse_switch_block_suffix _ _ _ _ _ parse_format_advs _ _ _ _ _ _ _ _ _ _ _ SB) as A3.
  assert (A4 : advs ts1 ts2) by (apply advs_step; exact A3).
  destruct (advs_split _ _ A4) as [pre3 E3]. pose proof (advs_eof _ _ A4 EO1) as EO3.
  destruct (IH _ _ _ _ _ _ _ _ _ _ _ _ H EO3) as (news & EC & FC).
  exists ((true, [], 0%Z, b) :: news). split; [rewrite EC; now rewrite <- app_assoc|].
  constructor; [left; reflexivity|].
  assert (TS : ts = (cur ts :: pre3) ++ ts2) by (rewrite E1 at 1; rewrite E3; reflexivity).
  rewrite TS. eapply Forall_impl; [|exact FC]. intros c. apply case_marker_from_app.
Qed.

Theorem switch_cases_marker_site f script bs cs ts ss imp ts' :
  parse_switch f script bs cs ts = Ok (ss, imp, ts') -> eof_ended ts ->
  exists pre tg operand oline cases, ss = pre ++ [SSwitch tg operand oline cases] /\ Forall (case_marker_from ts) cases.
Proof.
  destruct f as [|f]; [discriminate|]. intros H EO. rewrite parse_switch_unfold in H. cbv zeta in H.
  destruct (expect_peek LPAREN ts) as [ts1|] eqn:P1; [|discriminate].
  destruct (peek_step _ _ _ EO P1 ltac:(discriminate)) as (E1 & C1 & EO1).
  pose proof (expect_peek_some _ _ _ P1) as A1.
  destruct (var_or_autovar f script ts1) as [[[r imp1] ts2]| | |] eqn:VA; try discriminate.
  assert (A2 : advs ts1 ts2) by (eapply var_or_autovar_advs; [exact parse_format_advs|exact VA|apply advs_refl]).
  match type of H with (do _ <- ?X ; _) = _ => destruct X as [[[[operand oline] pre] ts3]| | |] eqn:OP; try discriminate end.
  destruct (expect_peek LBRACE ts3) as [ts4|] eqn:P2; [|discriminate].
  destruct (parse_cases f script (List.length ts :: bs) cs (cur ts4) (adv ts4) [] [] false imp0) as [[[cases imp2] ts5]| | |] eqn:PC; try discriminate.
  assert (A3 : advs ts ts3).
  { apply advs_step. rewrite <- A1. eapply advs_trans; [exact A2|]. destruct r as [[v c]|].
    - destruct (expect_peek RPAREN ts2) as [tsx|] eqn:P3; [|discriminate]. injection OP as _ _ _ <-. rewrite (expect_peek_some _ _ _ P3). apply advs_step, advs_refl.
    - destruct (switch_operand consts f (cur ts) (adv ts2) []) as [[parts tsx]| | |] eqn:SO; try discriminate. injection OP as _ _ _ <-.
      apply advs_step. apply advs_adv_r. eapply switch_operand_advs; [exact SO|apply advs_refl]. }
  assert (A4 : advs ts (adv ts4)) by (eapply advs_trans; [exact A3|]; rewrite (expect_peek_some _ _ _ P2); apply advs_step, advs_step, advs_refl).
  destruct (advs_split _ _ A4) as [pre4 E4]. pose proof (advs_eof _ _ A4 EO) as EO4.
  destruct (parse_cases_marker_site _ _ _ _ _ _ _ _ _ _ _ _ _ PC EO4) as (news & EC & FC). cbn [app] in EC. subst news.
  exists (match pre with Some c => [SCmd c] | None => [] end), (List.length ts), operand, oline, cases.
  split; [destruct cases; [discriminate|]; injection H as <- _ _; reflexivity|].
  rewrite E4. eapply Forall_impl; [|exact FC]. intros c. apply case_marker_from_app.
Qed.

(* MARKER SITES 6-9: the top-level statements.  text: the 'text' keyword; movement / mart: the keyword, and every step / item
   token is an identifier token of the stream; raw: the raw string token (the emitter adds the index of the line). *)
Theorem text_marker_site f ts td ts' :
  parse_text switches env_errors parse_format f ts = Ok (td, ts') -> xtok td = cur ts.
Proof.
  intros H. unfold parse_text in H. cbv zeta in H.
  destruct (scope_modifier true ts) as [[g ts1]| | |]; try discriminate.
  destruct (expect_peek IDENT ts1) as [ts2|]; [|discriminate]. destruct (expect_peek LBRACE ts2) as [ts3|]; [|discriminate].
  match type of H with (do _ <- ?X ; _) = _ => destruct X as [[[v sty] ts5]| | |]; try discriminate end.
  destruct (expect_peek RBRACE ts5); [|discriminate]. injection H as <- _. reflexivity.
Qed.
Theorem movement_marker_site f ts tp ts' :
  parse_movement switches env_errors f ts = Ok (tp, ts') ->
  exists name g steps, tp = TMovement name g (cur ts) steps /\ Forall (src_ident ts) steps.
Proof.
  intros H. destruct (movement_steps_verbatim _ _ _ _ _ _ H) as (name & g & tk & steps & -> & F).
  exists name, g, steps. split; [|exact F]. unfold parse_movement in H. cbv zeta in H.
  destruct (scope_modifier false ts) as [[g0 ts1]| | |]; try discriminate.
  destruct (expect_peek IDENT ts1) as [ts2|]; [|discriminate]. destruct (expect_peek LBRACE ts2) as [ts3|]; [|discriminate].
  destruct (movement_value switches env_errors f RBRACE true (adv ts3) []) as [[mv ts4]| | |]; try discriminate.
  injection H as _ _ <- _. reflexivity.
Qed.
Theorem mart_marker_site f ts tp ts' :
  parse_mart switches env_errors consts f ts = Ok (tp, ts') -> eof_ended ts ->
  exists name g itoks, tp = TMart name g (cur ts) (map subst itoks) itoks /\ Forall (src_ident ts) itoks.
Proof.
  intros H EO. destruct (mart_items_site _ _ _ _ _ _ _ H EO) as (name & g & tk & itoks & -> & F & _).
  exists name, g, itoks. split; [|exact F]. unfold parse_mart in H. cbv zeta in H.
  destruct (scope_modifier false ts) as [[g0 ts1]| | |]; try discriminate.
  destruct (expect_peek IDENT ts1) as [ts2|]; [|discriminate]. destruct (expect_peek LBRACE ts2) as [ts3|]; [|discriminate].
  destruct (mart_value switches env_errors f true (adv ts3) []) as [[its ts4]| | |]; try discriminate.
  injection H as _ _ <- _ _. reflexivity.
Qed.
Theorem raw_marker_site ts tp ts' :
  parse_raw ts = Ok (tp, ts') -> eof_ended ts ->
  exists rt rest, ts = cur ts :: rt :: rest /\ is RAWSTRING rt = true /\ tp = TRaw (tlit rt) (tline rt).
Proof.
  intros H EO. unfold parse_raw in H. destruct (expect_peek RAWSTRING ts) as [ts1|] eqn:P; [|discriminate]. injection H as <- _.
  destruct (peek_step _ _ _ EO P ltac:(discriminate)) as (E1 & C1 & EO1).
  destruct (step_nonEOF RAWSTRING ts1 EO1 C1 ltac:(discriminate)) as (r & E2 & _ & _).
  exists (cur ts1), r. split; [rewrite E1 at 1; now rewrite E2 at 1|]. split; [exact C1|reflexivity].
Qed.

(* MARKER SITE 10: map scripts.  One entry of a mapscripts statement: the recorded token (of a plain entry, of an entry with an
   inline script, of a table) is the type identifier, the first token of the entry. *)
Theorem mapscript_marker_site f mapname ts plain tables imp r :
  ms_entries autovars switches env_errors parse_format consts (S f) mapname ts plain tables imp = Ok r -> curis RBRACE ts = false ->
  is IDENT (cur ts) = true /\
  exists plain1 tables1 imp1 ts1,
    ms_entries autovars switches env_errors parse_format consts f mapname ts1 plain1 tables1 imp1 = Ok r /\
    ((exists m, plain1 = plain ++ [m] /\ tables1 = tables /\ msType m = cur ts) \/
     (exists tb, plain1 = plain /\ tables1 = tables ++ [tb] /\ tmType tb = cur ts)).
Proof.
  intros H NB. cbn [Parser.ms_entries] in H. rewrite NB in H. destruct (curis IDENT ts) eqn:CI; [|discriminate]. cbn [negb] in H. cbv zeta in H.
  split; [exact CI|].
  destruct (curis COLON (adv ts)).
  - destruct (expect_peek IDENT (adv ts)) as [ts2|]; [|discriminate]. eexists _, _, _, _. split; [exact H|]. left. eexists. split; [reflexivity|]. split; reflexivity.
  - destruct (curis LBRACE (adv ts)).
    + match type of H with (do _ <- ?X ; _) = _ => destruct X as [[[b imp1] ts2]| | |]; try discriminate end.
      eexists _, _, _, _. split; [exact H|]. left. eexists. split; [reflexivity|]. split; reflexivity.
    + destruct (curis LBRACKET (adv ts)); [|discriminate].
      match type of H with (do _ <- ?X ; _) = _ => destruct X as [[[es imp1] ts2]| | |]; try discriminate end.
      eexists _, _, _, _. split; [exact H|]. right. eexists. split; [reflexivity|]. split; reflexivity.
Qed.

(* one entry of a map script table: the recorded token is the first token of the entry (the first token of its condition) *)
Theorem table_entry_marker_site f mapname tyname ts i acc imp r :
  ms_table autovars switches env_errors parse_format consts (S f) mapname tyname ts i acc imp = Ok r -> eof_ended ts -> curis RBRACKET ts = false ->
  exists e imp1 ts1, teCond e = cur ts /\ ms_table autovars switches env_errors parse_format consts f mapname tyname ts1 (S i) (acc ++ [e]) imp1 = Ok r.
Proof.
  intros H EO NB. destruct (table_entry_site _ _ _ _ _ parse_format_advs _ _ _ _ _ _ _ _ H EO NB) as (e & post & imp1 & ts1 & EA & _ & _ & H1).
  exists e, imp1, ts1. split; [|exact H1]. destruct EA as (cseg & comma & vseg & _ & _ & _ & _ & _ & TC & _). exact TC.
Qed.

(* a text hoisted from a command argument: its token is the string token with the terminated literal, on the same line *)
Theorem inline_text_marker_site : forall f script cmdtok cidv ts depth parts args imp args' imp' ts',
  command_args switches env_errors parse_format consts f script cmdtok cidv ts depth parts args imp = Ok (args', imp', ts') ->
  exists nt nm, idT imp' = idT imp ++ nt /\ idM imp' = idM imp ++ nm /\
    Forall (fun it => (exists tk, In tk ts /\ is STRING tk = true /\ tline (itTok it) = tline tk) \/
                      (exists ts0 tk v ts1, parse_format ts0 = Ok (tk, v, itType it, ts1) /\ tline (itTok it) = tline tk)) nt /\
    Forall (fun im => imCmdTok im = cmdtok /\ Forall (src_ident ts) (imToks im)) nm.
Proof.
  induction f as [|f IH]; intros script cmdtok cidv ts depth parts args imp args' imp' ts' H; [discriminate|].
  cbn [Parser.command_args] in H.
  assert (LIFT : forall ts1 imp1 d p a, command_args switches env_errors parse_format consts f script cmdtok cidv ts1 d p a imp1 = Ok (args', imp', ts') ->
     forall nt1 nm1, advs ts ts1 -> idT imp1 = idT imp ++ nt1 -> idM imp1 = idM imp ++ nm1 ->
     Forall (fun it => (exists tk, In tk ts /\ is STRING tk = true /\ tline (itTok it) = tline tk) \/
                      (exists ts0 tk v ts1, parse_format ts0 = Ok (tk, v, itType it, ts1) /\ tline (itTok it) = tline tk)) nt1 ->
     Forall (fun im => imCmdTok im = cmdtok /\ Forall (src_ident ts) (imToks im)) nm1 ->
     exists nt nm, idT imp' = idT imp ++ nt /\ idM imp' = idM imp ++ nm /\
       Forall (fun it => (exists tk, In tk ts /\ is STRING tk = true /\ tline (itTok it) = tline tk) \/
                      (exists ts0 tk v ts1, parse_format ts0 = Ok (tk, v, itType it, ts1) /\ tline (itTok it) = tline tk)) nt /\
       Forall (fun im => imCmdTok im = cmdtok /\ Forall (src_ident ts) (imToks im)) nm).
  { intros ts1 imp1 d p a G nt1 nm1 A E1 E2 F1 F2. destruct (IH _ _ _ _ _ _ _ _ _ _ _ G) as (nt & nm & E3 & E4 & F3 & F4).
    exists (nt1 ++ nt), (nm1 ++ nm). split; [rewrite E3, E1; now rewrite <- app_assoc|]. split; [rewrite E4, E2; now rewrite <- app_assoc|].
    split; apply Forall_app; (split; [assumption|]).
    - eapply Forall_impl; [|exact F3]. intros it [(tk & I0 & R)|X]; [left; exists tk; split; [eapply in_advs'; eassumption|exact R]|right; exact X].
    - eapply Forall_impl; [|exact F4]. intros im [C F5]. split; [exact C|]. eapply Forall_impl; [|exact F5]. intros x. apply src_ident_advs, A. }
  assert (SAME : forall ts1 d p a, advs ts ts1 -> command_args switches env_errors parse_format consts f script cmdtok cidv ts1 d p a imp = Ok (args', imp', ts') ->
     exists nt nm, idT imp' = idT imp ++ nt /\ idM imp' = idM imp ++ nm /\
       Forall (fun it => (exists tk, In tk ts /\ is STRING tk = true /\ tline (itTok it) = tline tk) \/
                      (exists ts0 tk v ts1, parse_format ts0 = Ok (tk, v, itType it, ts1) /\ tline (itTok it) = tline tk)) nt /\
       Forall (fun im => imCmdTok im = cmdtok /\ Forall (src_ident ts) (imToks im)) nm).
  { intros ts1 d p a A G. eapply (LIFT _ _ _ _ _ G [] [] A); [now rewrite app_nil_r|now rewrite app_nil_r|constructor|constructor]. }
  destruct (curis RPAREN ts && Nat.eqb depth 0).
  { injection H as _ <- _. exists [], []. rewrite !app_nil_r. auto. }
  destruct (curis EOF ts); [discriminate|].
  destruct (curis COMMA ts); [eapply SAME; [apply advs_step, advs_refl|exact H]|].
  destruct (curis LPAREN ts); [eapply SAME; [apply advs_step, advs_refl|exact H]|].
  destruct (curis RPAREN ts); [eapply SAME; [apply advs_step, advs_refl|exact H]|].
  destruct (curis FORMAT ts).
  { destruct (parse_format ts) as [[[[tk v] sty] ts1]| | |] eqn:PF; try discriminate.
    eapply (LIFT _ _ _ _ _ H [_] []); [apply advs_adv_r; eapply parse_format_advs; [exact PF|apply advs_refl]|reflexivity|cbn [idM]; now rewrite app_nil_r| |constructor].
    constructor; [|constructor]. right. exists ts, tk, v, ts1. split; [exact PF|reflexivity]. }
  destruct (curis STRING ts) eqn:CS.
  { eapply (LIFT _ _ _ _ _ H [_] []); [apply advs_step, advs_refl|reflexivity|cbn [idM]; now rewrite app_nil_r| |constructor].
    constructor; [|constructor]. left. exists (cur ts). split; [eapply cur_in; [exact CS|discriminate]|]. split; [exact CS|reflexivity]. }
  destruct (curis STRINGTYPE ts) eqn:CT.
  { cbv zeta in H. destruct (curis STRING (adv ts)) eqn:CS2; [|discriminate]. cbn [negb] in H.
    eapply (LIFT _ _ _ _ _ H [_] []); [apply advs_step, advs_step, advs_refl|reflexivity|cbn [idM]; now rewrite app_nil_r| |constructor].
    constructor; [|constructor]. left. exists (cur (adv ts)). split; [|split; [exact CS2|reflexivity]].
    eapply in_advs'; [apply advs_step, advs_refl|]. eapply cur_in; [exact CS2|discriminate]. }
  destruct (curis MOVES ts).
  { destruct (moves_operator switches env_errors f ts) as [[mv ts1]| | |] eqn:MO; try discriminate.
    eapply (LIFT _ _ _ _ _ H [] [_]); [apply advs_adv_r; eapply moves_operator_advs; [exact MO|apply advs_refl]|cbn [idT]; now rewrite app_nil_r|reflexivity|constructor|].
    constructor; [|constructor]. cbn [imCmdTok imToks]. split; [reflexivity|]. eapply moves_operator_verbatim. exact MO. }
  eapply SAME; [apply advs_step, advs_refl|exact H].
Qed.
End MSITES2.

(* ====================================================================================================================== *)
(* PART C: every line recorded in the AST of an accepted program is the line of a token of the stream                     *)
(* ====================================================================================================================== *)
Lemma bind_inv' {A B} (m : res A) (k : A -> res B) r :
  (match m with Ok x => k x | Err e => Err e | Panic => Panic | Fuel => Fuel end) = Ok r -> exists x, m = Ok x /\ k x = Ok r.
Proof. destruct m; try discriminate. eauto. Qed.
Tactic Notation "bind" hyp(H) "as" simple_intropattern(p) "eqn" ident(E) :=
  apply bind_inv' in H; destruct H as (p & E & H); cbn beta iota in H.

(* the line [l] is the line of a token of the stream [base] *)
Definition srcl (base : toks) (l : Z) : Prop := exists tk, In tk base /\ tline tk = l.
Definition LK (base : toks) (K : list construct) : Prop := Forall (fun k => srcl base (kline k)) K.
(* the inline texts / movements collected while parsing commands (hoisted later) *)
Definition limp (base : toks) (imp : impdata) : Prop :=
  Forall (fun it => srcl base (tline (itTok it))) (idT imp) /\
  Forall (fun im => In (imCmdTok im) base /\ Forall (fun tk => In tk base) (imToks im)) (idM imp).

Lemma srcl_in base tk : In tk base -> srcl base (tline tk).
Proof. intros I0. exists tk. split; [exact I0|reflexivity]. Qed.
Lemma LK_app base a b : LK base (a ++ b) <-> LK base a /\ LK base b.
Proof. apply Forall_app. Qed.
Lemma LK_nil base : LK base []. Proof. constructor. Qed.
Lemma limp0 base : limp base imp0. Proof. split; constructor. Qed.
Lemma limp_add base a b : limp base a -> limp base b -> limp base (impadd a b).
Proof. intros [A1 A2] [B1 B2]. split; cbn; apply Forall_app; split; assumption. Qed.
Lemma in_advs base ts tk : advs base ts -> In tk ts -> In tk base.
Proof. intros A I0. destruct (advs_split _ _ A) as [pre ->]. apply in_or_app. right; exact I0. Qed.

Section LINES.
Variable autovars : list (text * autovar).
Variable switches : list (text * text).
Variable env_errors : bool.
Variable parse_format : toks -> res (token * text * text * toks).
Hypothesis parse_format_advs : forall ts tk v sty ts', parse_format ts = Ok (tk, v, sty, ts') -> forall a, advs a ts -> advs a ts'.
(* the token format( ) returns (it carries the line of the hoisted text) is a token of the stream it was read from *)
Hypothesis parse_format_tok : forall ts tk v sty ts', parse_format ts = Ok (tk, v, sty, ts') -> ts <> [] -> In tk ts.

Section WITHCONSTS.
Variable consts : list (text * text).

Notation command_args := (command_args switches env_errors parse_format consts).
Notation command_stmt := (command_stmt switches env_errors parse_format consts).
Notation var_or_autovar := (var_or_autovar autovars switches env_errors parse_format consts).
Notation leaf_expr := (leaf_expr autovars switches env_errors parse_format consts).
Notation bool_expr := (bool_expr autovars switches env_errors parse_format consts).
Notation right_side := (right_side autovars switches env_errors parse_format consts).
Notation parse_stmt := (parse_stmt autovars switches env_errors parse_format consts).
Notation parse_block := (parse_block autovars switches env_errors parse_format consts).
Notation parse_switch_block := (parse_switch_block autovars switches env_errors parse_format consts).
Notation parse_cond := (parse_cond autovars switches env_errors parse_format consts).
Notation parse_if := (parse_if autovars switches env_errors parse_format consts).
Notation parse_elifs := (parse_elifs autovars switches env_errors parse_format consts).
Notation parse_switch := (parse_switch autovars switches env_errors parse_format consts).
Notation parse_cases := (parse_cases autovars switches env_errors parse_format consts).
Notation parse_pory := (parse_pory autovars switches env_errors parse_format consts).
Notation parse_pory_cases := (parse_pory_cases autovars switches env_errors parse_format consts).
Notation parse_pory_stmts := (parse_pory_stmts autovars switches env_errors parse_format consts).

Lemma command_args_L : forall f script cmdtok cidv ts depth parts args imp args' imp' ts' base,
  command_args f script cmdtok cidv ts depth parts args imp = Ok (args', imp', ts') -> advs base ts -> base <> [] ->
  In cmdtok base -> limp base imp -> limp base imp'.
Proof.
  induction f as [|f IH]; intros script cmdtok cidv ts depth parts args imp args' imp' ts' base H AB NB IC LI; [discriminate|].
  cbn [Parser.command_args] in H.
  assert (NT : ts <> []) by (eapply advs_nonempty; eassumption).
  assert (SAME : forall ts1 d p a imp1, command_args f script cmdtok cidv ts1 d p a imp1 = Ok (args', imp', ts') -> advs ts ts1 ->
            limp base imp1 -> limp base imp').
  { intros ts1 d p a imp1 G A L1. eapply IH; [exact G|eapply advs_trans; eassumption|exact NB|exact IC|exact L1]. }
  assert (TXT : forall it, srcl base (tline (itTok it)) -> limp base {| idT := idT imp ++ [it]; idM := idM imp |}).
  { intros it S0. destruct LI as [L1 L2]. split; cbn [idT idM]; [apply Forall_app; split; [exact L1|constructor; [exact S0|constructor]]|exact L2]. }
  destruct (curis RPAREN ts && Nat.eqb depth 0); [injection H as _ <- _; exact LI|].
  destruct (curis EOF ts); [discriminate|].
  destruct (curis COMMA ts); [eapply SAME; [exact H|apply advs_step, advs_refl|exact LI]|].
  destruct (curis LPAREN ts); [eapply SAME; [exact H|apply advs_step, advs_refl|exact LI]|].
  destruct (curis RPAREN ts); [eapply SAME; [exact H|apply advs_step, advs_refl|exact LI]|].
  destruct (curis FORMAT ts).
  { destruct (parse_format ts) as [[[[tk v] sty] ts1]| | |] eqn:PF; try discriminate.
    eapply SAME; [exact H|apply advs_adv_r; eapply parse_format_advs; [exact PF|apply advs_refl]|].
    apply TXT. cbn [itTok set_lit tline]. apply srcl_in. eapply in_advs; [exact AB|]. eapply parse_format_tok; [exact PF|exact NT]. }
  destruct (curis STRING ts).
  { eapply SAME; [exact H|apply advs_step, advs_refl|]. apply TXT. cbn [itTok set_lit tline]. apply srcl_in, cur_in_base; assumption. }
  destruct (curis STRINGTYPE ts).
  { cbv zeta in H. destruct (negb (curis STRING (adv ts))); [discriminate|].
    eapply SAME; [exact H|apply advs_step, advs_step, advs_refl|]. apply TXT. cbn [itTok set_lit tline]. apply srcl_in, cur_in_base; [apply advs_adv_r, AB|exact NB]. }
  destruct (curis MOVES ts).
  { destruct (moves_operator switches env_errors f ts) as [[mv ts1]| | |] eqn:MO; try discriminate.
    eapply SAME; [exact H|apply advs_adv_r; eapply moves_operator_advs; [exact MO|apply advs_refl]|].
    destruct LI as [L1 L2]. split; cbn [idT idM]; [exact L1|]. apply Forall_app; split; [exact L2|]. constructor; [|constructor]. cbn [imCmdTok imToks].
    split; [exact IC|]. pose proof (moves_operator_verbatim _ _ _ _ _ _ MO) as FM. rewrite Forall_forall in *. intros x Ix.
    eapply in_advs; [exact AB|]. exact (proj1 (FM x Ix)). }
  eapply SAME; [exact H|apply advs_step, advs_refl|exact LI].
Qed.

Lemma command_stmt_L f script ts c imp ts' base :
  command_stmt f script ts = Ok (c, imp, ts') -> advs base ts -> base <> [] -> In (ctok c) base /\ limp base imp.
Proof.
  intros H A N. destruct (command_name_verbatim _ _ _ _ _ _ _ _ _ _ H) as [_ E2]. pose proof (cur_in_base _ _ A N) as IC.
  split; [rewrite E2; exact IC|]. unfold Parser.command_stmt in H. cbv zeta in H. destruct (peekis LPAREN ts).
  - bind H as [[args imp1] ts1] eqn CA. injection H as _ <- _.
    eapply command_args_L; [exact CA|apply advs_adv_r, advs_adv_r, A|exact N|exact IC|apply limp0].
  - injection H as _ <- _. apply limp0.
Qed.

Lemma var_or_autovar_L f script ts r imp ts' base :
  var_or_autovar f script ts = Ok (r, imp, ts') -> advs base ts -> base <> [] ->
  limp base imp /\ match r with Some (v, c) => In (ctok c) base | None => True end.
Proof.
  intros H A N. unfold Parser.var_or_autovar in H. destruct (peekis VAR ts).
  { cbv zeta in H. destruct (expect_peek LPAREN (adv ts)); [|discriminate]. injection H as <- <- _. split; [apply limp0|exact I]. }
  destruct (assoc autovars (tlit (pk 1 ts))) as [av|]; [|discriminate]. cbv zeta in H.
  bind H as [[c0 imp1] ts2] eqn CS. destruct (command_stmt_L _ _ _ _ _ _ base CS (advs_adv_r _ _ A) N) as [V1 V2].
  destruct (avPos av) as [p|].
  - destruct ((p <? 0)%Z || (p >? Z.of_nat (List.length (cargs c0)) - 1)%Z); [discriminate|]. injection H as <- <- _. split; assumption.
  - injection H as <- <- _. split; assumption.
Qed.

Lemma leaf_expr_L f script ts l imp ts' base :
  leaf_expr f script ts = Ok (l, imp, ts') -> advs base ts -> base <> [] -> srcl base (lline l) /\ limp base imp.
Proof.
  intros H A N. unfold Parser.leaf_expr in H.
  remember (if peekis NOT ts then (true, adv ts) else (false, ts)) as p eqn:Ep. destruct p as [used_not ts0].
  assert (A0 : advs base ts0) by (destruct (peekis NOT ts); injection Ep as _ ->; [apply advs_adv_r, A|exact A]).
  cbv zeta in H.
  destruct (negb (peekis VAR ts0) && negb (peek_is_autovar autovars ts0) && negb (peekis FLAG ts0) && negb (peekis DEFEATED ts0)); [discriminate|].
  destruct (negb (peek_is_autovar autovars ts0)).
  - destruct (expect_peek LPAREN (adv ts0)) as [ts2|] eqn:P1; [|discriminate]. destruct (peekis RPAREN ts2); [discriminate|].
    destruct (collect_until consts f (is RPAREN) (adv ts2) []) as [[parts ts4]|]; [|discriminate]. cbv beta iota zeta in H.
    assert (S0 : srcl base (tline (cur (adv ts2)))).
    { apply srcl_in, cur_in_base; [|exact N]. apply advs_adv_r. eapply advs_k_peek; [exact P1|]. apply advs_adv_r, A0. }
    destruct used_not; [injection H as <- <- _; split; [exact S0|apply limp0]|].
    destruct (if is VAR (cur (adv ts0)) then KVar else if is FLAG (cur (adv ts0)) then KFlag else KDefeated).
    + destruct (cond_flag_operator (adv ts4) "flag") as [[[o v] ts5]| | |]; try discriminate. injection H as <- <- _; split; [exact S0|apply limp0].
    + destruct (cond_var_operator consts f (adv ts4)) as [[[[o v] st] ts5]| | |]; try discriminate. injection H as <- <- _; split; [exact S0|apply limp0].
    + destruct (cond_flag_operator (adv ts4) "defeated") as [[[o v] ts5]| | |]; try discriminate. injection H as <- <- _; split; [exact S0|apply limp0].
  - bind H as [[[[[kind opnd] opline] pre] imp1] ts3] eqn IN. bind IN as [[r imp2] ts1] eqn VA.
    destruct r as [[v c0]|]; [|discriminate]. injection IN as <- <- <- <- <- <-. cbv beta iota zeta in H.
    destruct (var_or_autovar_L _ _ _ _ _ _ base VA A0 N) as [V1 V2].
    destruct used_not; [injection H as <- <- _; split; [apply srcl_in, V2|exact V1]|].
    destruct (cond_var_operator consts f (adv ts1)) as [[[[o v0] st] ts5]| | |]; try discriminate.
    injection H as <- <- _; split; [apply srcl_in, V2|exact V1].
Qed.

Lemma LK_neg base l : LK base (bexp_constructs (BLeaf l)) -> forall b : bool, LK base (bexp_constructs (BLeaf (if b then neg_leaf l else l))).
Proof. intros H [|]; [|exact H]. inversion H as [|? ? H1 _]; subst. constructor; [exact H1|constructor]. Qed.
Lemma LK_bin base o a b : LK base (bexp_constructs a) -> LK base (bexp_constructs b) -> LK base (bexp_constructs (BBin o a b)).
Proof. intros A B. unfold bexp_constructs. cbn [leaves]. rewrite map_app. apply LK_app. split; assumption. Qed.

Lemma bexp_L : forall f,
  (forall single negated script ts e imp ts' base, bool_expr f single negated script ts = Ok (e, imp, ts') -> advs base ts -> base <> [] ->
     LK base (bexp_constructs e) /\ limp base imp) /\
  (forall left single negated script ts e imp ts' base, right_side f left single negated script ts = Ok (e, imp, ts') -> advs base ts -> base <> [] ->
     LK base (bexp_constructs left) -> LK base (bexp_constructs e) /\ limp base imp).
Proof.
  induction f as [|f [IH1 IH2]]; [split; intros; discriminate|].
  destruct (bexp_advs autovars switches parse_format consts parse_format_advs env_errors f) as [AB1 AB2]. split.
  - intros single negated script ts e imp ts' base H A N. rewrite bool_expr_unfold in H. cbv zeta in H.
    destruct (peekis LPAREN ts || peekis NOT ts && is LPAREN (pk 2 ts)).
    + remember (if peekis LPAREN ts then (adv ts, negated) else (adv (adv ts), negb negated)) as p eqn:Ep. destruct p as [ts2 nn].
      assert (A2 : advs base ts2) by (destruct (peekis LPAREN ts); injection Ep as -> _; [apply advs_adv_r, A|apply advs_adv_r, advs_adv_r, A]).
      bind H as [[e1 imp1] ts3] eqn B1. destruct (IH1 _ _ _ _ _ _ _ base B1 A2 N) as [V1 W1].
      destruct (negb (curis RPAREN ts3)); [discriminate|].
      destruct (negb single && (peekis AND ts3 || peekis OR ts3)).
      * bind H as [[e2 imp2] ts4] eqn R2. injection H as <- <- _.
        destruct (IH2 _ _ _ _ _ _ _ _ base R2 (advs_adv_r _ _ (AB1 _ _ _ _ _ _ _ B1 _ A2)) N V1) as [V2 W2].
        split; [exact V2|apply limp_add; assumption].
      * injection H as <- <- _. split; assumption.
    + bind H as [[l imp1] ts1] eqn L1. destruct (leaf_expr_L _ _ _ _ _ _ base L1 A N) as [V1 W1].
      assert (V2 : LK base (bexp_constructs (BLeaf (if negated then neg_leaf l else l)))).
      { apply LK_neg. constructor; [exact V1|constructor]. }
      destruct single; [injection H as <- <- _; split; assumption|].
      bind H as [[e2 imp2] ts2] eqn R2. injection H as <- <- _.
      destruct (IH2 _ _ _ _ _ _ _ _ base R2 (leaf_expr_advs _ _ _ _ parse_format_advs _ _ _ _ _ _ _ L1 _ A) N V2) as [V3 W3].
      split; [exact V3|apply limp_add; assumption].
  - intros left single negated script ts e imp ts' base H A N VL. rewrite right_side_unfold in H.
    destruct (curis AND ts).
    + bind H as [[r imp1] ts1] eqn B1. cbv zeta in H. bind H as [[e2 imp2] ts2] eqn R2. injection H as <- <- _.
      destruct (IH1 _ _ _ _ _ _ _ base B1 A N) as [V1 W1].
      destruct (IH2 _ _ _ _ _ _ _ _ base R2 (AB1 _ _ _ _ _ _ _ B1 _ A) N (LK_bin _ _ _ _ VL V1)) as [V2 W2].
      split; [exact V2|apply limp_add; assumption].
    + destruct (curis OR ts); [|injection H as <- <- _; split; [exact VL|apply limp0]].
      bind H as [[r imp1] ts1] eqn B1. injection H as <- <- _. destruct (IH1 _ _ _ _ _ _ _ base B1 A N) as [V1 W1].
      split; [apply LK_bin; assumption|exact W1].
Qed.

Definition LB (base : toks) (ss : list stmt) : Prop := LK base (body_constructs ss).
Lemma LB_app base a b : LB base (a ++ b) <-> LB base a /\ LB base b.
Proof. unfold LB. rewrite body_constructs_app. apply LK_app. Qed.
Lemma LB_nil base : LB base []. Proof. constructor. Qed.
Lemma LB_one base s : LK base (stmt_constructs s) -> LB base [s].
Proof. intros H. unfold LB. cbn [body_constructs]. rewrite app_nil_r. exact H. Qed.
Definition LBI (base : toks) (ss : list stmt) (imp : impdata) : Prop := LB base ss /\ limp base imp.
Definition LConds (base : toks) (l : list (bexp * list stmt)) : Prop := LK base (flat_map cond_constructs l).
Definition LCases (base : toks) (l : list scase) : Prop := LK base (flat_map case_constructs l).
Definition LPCases (base : toks) (l : list (text * (list stmt * impdata))) : Prop :=
  Forall (fun c : text * (list stmt * impdata) => LBI base (Datatypes.fst (Datatypes.snd c)) (Datatypes.snd (Datatypes.snd c))) l.

Definition LW (f : nat) : Prop :=
  (forall script bs cs ts ss imp ts' base, parse_stmt f script bs cs ts = Ok (ss, imp, ts') -> advs base ts -> base <> [] -> LBI base ss imp) /\
  (forall script bs cs start ts acc imp ss imp' ts' base, parse_block f script bs cs start ts acc imp = Ok (ss, imp', ts') -> advs base ts -> base <> [] ->
      LBI base acc imp -> LBI base ss imp') /\
  (forall script bs cs start ts acc imp ss imp' ts' base, parse_switch_block f script bs cs start ts acc imp = Ok (ss, imp', ts') -> advs base ts -> base <> [] ->
      LBI base acc imp -> LBI base ss imp') /\
  (forall req script bs cs ts e b imp ts' base, parse_cond f req script bs cs ts = Ok (e, b, imp, ts') -> advs base ts -> base <> [] ->
      LK base (optb_constructs e) /\ LBI base b imp) /\
  (forall script bs cs ts ss imp ts' base, parse_if f script bs cs ts = Ok (ss, imp, ts') -> advs base ts -> base <> [] -> LBI base ss imp) /\
  (forall script bs cs ts acc imp l imp' ts' base, parse_elifs f script bs cs ts acc imp = Ok (l, imp', ts') -> advs base ts -> base <> [] ->
      LConds base acc -> limp base imp -> LConds base l /\ limp base imp') /\
  (forall script bs cs ts ss imp ts' base, parse_switch f script bs cs ts = Ok (ss, imp, ts') -> advs base ts -> base <> [] -> LBI base ss imp) /\
  (forall script bs cs brace ts acc seen hasdef imp l imp' ts' base,
      parse_cases f script bs cs brace ts acc seen hasdef imp = Ok (l, imp', ts') -> advs base ts -> base <> [] ->
      LCases base acc -> limp base imp -> LCases base l /\ limp base imp') /\
  (forall script bs cs ts ss imp ts' base, parse_pory f script bs cs ts = Ok (ss, imp, ts') -> advs base ts -> base <> [] -> LBI base ss imp) /\
  (forall script bs cs start ts acc l ts' base, parse_pory_cases f script bs cs start ts acc = Ok (l, ts') -> advs base ts -> base <> [] ->
      LPCases base acc -> LPCases base l) /\
  (forall script bs cs multi ts acc imp ss imp' ts' base, parse_pory_stmts f script bs cs multi ts acc imp = Ok (ss, imp', ts') -> advs base ts -> base <> [] ->
      LBI base acc imp -> LBI base ss imp').

Lemma LBI_app base a b ia ib : LBI base a ia -> LBI base b ib -> LBI base (a ++ b) (impadd ia ib).
Proof. intros [A1 A2] [B1 B2]. split; [apply LB_app; split; assumption|apply limp_add; assumption]. Qed.

Lemma lw_all : forall f, LW f.
Proof.
  induction f as [|f IH].
  - unfold LW. split; [|split; [|split; [|split; [|split; [|split; [|split; [|split; [|split; [|split]]]]]]]]]; intros; discriminate.
  - destruct IH as (Istmt & Iblock & Iswb & Icond & Iif & Ielifs & Iswitch & Icases & Ipory & Ipcases & Ipstmts).
    destruct (adv_all autovars switches parse_format consts parse_format_advs env_errors f) as (Astmt & Ablock & Aswb & Acond & Aif & Aelifs & Aswitch & Acases & Apory & Apcases & Apstmts).
    unfold LW. split; [|split; [|split; [|split; [|split; [|split; [|split; [|split; [|split; [|split]]]]]]]]].
    + (* parse_stmt *)
      intros script bs cs ts ss imp ts' base H A N. rewrite parse_stmt_unfold in H.
      destruct (ttype (cur ts)) eqn:TY; try discriminate.
      * destruct (try_label ts) as [[l ts1]|] eqn:TL.
        -- injection H as <- <- _. destruct (label_name_verbatim _ _ _ TL) as [g ->]. split; [|apply limp0].
           apply LB_one. rewrite stmt_constructs_label. constructor; [|constructor]. cbn [kline]. apply srcl_in, cur_in_base; assumption.
        -- bind H as [[c imp1] ts1] eqn E1. injection H as <- <- _. destruct (command_stmt_L _ _ _ _ _ _ base E1 A N) as [V1 V2].
           split; [|exact V2]. apply LB_one. rewrite stmt_constructs_cmd. constructor; [|constructor]. cbn [kline]. apply srcl_in, V1.
      * eapply Iif; eassumption.
      * (* do *)
        destruct (expect_peek LBRACE ts) as [ts1|] eqn:P1; [|discriminate]. bind H as [[b imp1] ts2] eqn E2.
        destruct (expect_peek WHILE ts2) as [ts3|] eqn:P3; [|discriminate].
        destruct (expect_peek LPAREN ts3) as [ts4|] eqn:P4; [|discriminate]. bind H as [[e imp2] ts5] eqn E5. injection H as <- <- _.
        assert (A1 : advs base (adv ts1)) by (apply advs_adv_r; eapply advs_k_peek; [exact P1|exact A]).
        assert (A4 : advs base ts4) by (eapply advs_k_peek; [exact P4|]; eapply advs_k_peek; [exact P3|]; eapply Ablock; [exact E2|exact A1]).
        destruct (Iblock _ _ _ _ _ _ _ _ _ _ base E2 A1 N (conj (LB_nil _) (limp0 _))) as [V1 W1].
        destruct (proj1 (bexp_L f) _ _ _ _ _ _ _ base E5 A4 N) as [V2 W2].
        split; [|apply limp_add; assumption]. apply LB_one. rewrite stmt_constructs_dowhile. apply LK_app. split; assumption.
      * (* while *)
        bind H as [[[c b] imp1] ts1] eqn E1. injection H as <- <- _.
        destruct (Icond _ _ _ _ _ _ _ _ _ base E1 A N) as [V1 [V2 W2]]. split; [|exact W2].
        apply LB_one. rewrite stmt_constructs_while. apply LK_app. split; assumption.
      * destruct bs as [|tg bs]; [discriminate|]. injection H as <- <- _. split; [apply LB_one; rewrite stmt_constructs_break; constructor|apply limp0].
      * destruct cs as [|tg cs]; [discriminate|]. destruct (peekis RBRACE ts); [|discriminate]. injection H as <- <- _. split; [apply LB_one; rewrite stmt_constructs_continue; constructor|apply limp0].
      * eapply Iswitch; eassumption.
      * eapply Ipory; eassumption.
    + (* parse_block *)
      intros script bs cs start ts acc imp ss imp' ts' base H A N Hacc. rewrite parse_block_unfold in H.
      destruct (curis RBRACE ts); [injection H as <- <- _; exact Hacc|].
      destruct (curis EOF ts); [discriminate|]. bind H as [[ss1 imp1] ts1] eqn E1.
      eapply Iblock; [exact H|apply advs_adv_r; eapply Astmt; [exact E1|exact A]|exact N|].
      apply LBI_app; [exact Hacc|eapply Istmt; eassumption].
    + (* parse_switch_block *)
      intros script bs cs start ts acc imp ss imp' ts' base H A N Hacc. rewrite parse_switch_block_unfold in H.
      destruct (curis RBRACE ts || curis CASE ts || curis DEFAULT ts); [injection H as <- <- _; exact Hacc|].
      destruct (curis EOF ts); [discriminate|]. bind H as [[ss1 imp1] ts1] eqn E1.
      eapply Iswb; [exact H|apply advs_adv_r; eapply Astmt; [exact E1|exact A]|exact N|].
      apply LBI_app; [exact Hacc|eapply Istmt; eassumption].
    + (* parse_cond *)
      intros req script bs cs ts e b imp ts' base H A N. rewrite parse_cond_unfold in H. bind H as [[e1 imp1] ts1] eqn E1.
      destruct (expect_peek LBRACE ts1) as [ts2|] eqn:P2; [|discriminate]. bind H as [[b1 imp2] ts3] eqn E3. injection H as <- <- <- _.
      assert (X : advs base ts1 /\ LK base (optb_constructs e1) /\ limp base imp1).
      { destruct (req || negb (peekis LBRACE ts)).
        - destruct (expect_peek LPAREN ts) as [tsa|] eqn:PA; [|discriminate]. bind E1 as [[e0 imp0'] tsb] eqn EB. injection E1 as <- <- <-.
          assert (Aa : advs base tsa) by (eapply advs_k_peek; [exact PA|exact A]).
          split; [eapply bool_expr_advs; [exact parse_format_advs|exact EB|exact Aa]|]. cbn [optb_constructs]. eapply (proj1 (bexp_L f)); eassumption.
        - injection E1 as <- <- <-. split; [exact A|]. split; [constructor|apply limp0]. }
      destruct X as (A1 & V1 & W1). split; [exact V1|].
      destruct (Iblock _ _ _ _ _ _ _ _ _ _ base E3 (advs_adv_r _ _ (advs_k_peek _ _ _ _ P2 A1)) N (conj (LB_nil _) (limp0 _))) as [V2 W2].
      split; [exact V2|apply limp_add; assumption].
    + (* parse_if *)
      intros script bs cs ts ss imp ts' base H A N. rewrite parse_if_unfold in H. bind H as [[[o l] imp1] ts1] eqn E1.
      destruct o as [e1|]; [|discriminate]. bind H as [[l0 imp2] t0] eqn E2.
      destruct (Icond _ _ _ _ _ _ _ _ _ base E1 A N) as [V1 [V2 W2]].
      assert (A1 : advs base ts1) by (eapply Acond; [exact E1|exact A]).
      destruct (Ielifs _ _ _ _ _ _ _ _ _ base E2 A1 N (LK_nil _) W2) as [C1 C2].
      assert (A2 : advs base t0) by (eapply Aelifs; [exact E2|exact A1]).
      assert (HD : LConds base ((e1, l) :: l0)).
      { unfold LConds. cbn [flat_map]. apply LK_app. split; [|exact C1]. unfold cond_constructs. cbn [Datatypes.fst Datatypes.snd]. apply LK_app. split; assumption. }
      destruct (peekis ELSE t0).
      * cbv zeta in H. destruct (expect_peek LBRACE (adv t0)) as [ts4|] eqn:P4; [|discriminate]. bind H as [[eb imp3] ts5] eqn E5. injection H as <- <- _.
        destruct (Iblock _ _ _ _ _ _ _ _ _ _ base E5 (advs_adv_r _ _ (advs_k_peek _ _ _ _ P4 (advs_adv_r _ _ A2))) N (conj (LB_nil _) (limp0 _))) as [V3 W3].
        split; [|apply limp_add; assumption]. apply LB_one. rewrite stmt_constructs_if. apply LK_app. split; [exact HD|exact V3].
      * injection H as <- <- _. split; [|exact C2]. apply LB_one. rewrite stmt_constructs_if. apply LK_app. split; [exact HD|constructor].
    + (* parse_elifs *)
      intros script bs cs ts acc imp l imp' ts' base H A N Hacc Himp. rewrite parse_elifs_unfold in H.
      destruct (peekis ELSEIF ts); [|injection H as <- <- _; split; assumption]. bind H as [[[o b1] imp1] ts1] eqn E1.
      destruct o as [e1|]; [|discriminate].
      destruct (Icond _ _ _ _ _ _ _ _ _ base E1 (advs_adv_r _ _ A) N) as [V1 [V2 W2]].
      eapply Ielifs; [exact H|eapply Acond; [exact E1|apply advs_adv_r, A]|exact N| |apply limp_add; assumption].
      unfold LConds. rewrite flat_map_app. apply LK_app. split; [exact Hacc|]. cbn [flat_map]. rewrite app_nil_r.
      unfold cond_constructs. cbn [Datatypes.fst Datatypes.snd]. apply LK_app. split; assumption.
    + (* parse_switch *)
      intros script bs cs ts ss imp ts' base H A N. rewrite parse_switch_unfold in H. cbv zeta in H.
      destruct (expect_peek LPAREN ts) as [ts1|] eqn:P1; [|discriminate]. bind H as [[r0 imp1] ts2] eqn E2. bind H as [[[operand oline] pre] ts3] eqn E3.
      destruct (expect_peek LBRACE ts3) as [ts4|] eqn:P4; [|discriminate]. bind H as [[l imp2] ts5] eqn E5.
      destruct l as [|c0 l]; [discriminate|]. injection H as <- <- _.
      assert (A1 : advs base ts1) by (eapply advs_k_peek; [exact P1|exact A]).
      assert (A2 : advs base ts2) by (eapply var_or_autovar_advs; [exact parse_format_advs|exact E2|exact A1]).
      destruct (var_or_autovar_L _ _ _ _ _ _ base E2 A1 N) as [W1 VR].
      assert (X : advs base ts3 /\ srcl base oline /\ match pre with Some c => In (ctok c) base | None => True end).
      { destruct r0 as [[v c]|].
        - destruct (expect_peek RPAREN ts2) as [tsx|] eqn:PX; [|discriminate]. injection E3 as _ <- <- <-.
          split; [eapply advs_k_peek; [exact PX|exact A2]|]. split; [apply srcl_in, VR|exact VR].
        - bind E3 as [parts tsx] eqn EX. injection E3 as _ <- <- <-. split; [|split; [|exact I]].
          + apply advs_adv_r. eapply switch_operand_advs; [exact EX|apply advs_adv_r, A2].
          + apply srcl_in, cur_in_base; [apply advs_adv_r, A2|exact N]. }
      destruct X as (A3 & VO & VP).
      destruct (Icases _ _ _ _ _ _ _ _ _ _ _ _ base E5 (advs_adv_r _ _ (advs_k_peek _ _ _ _ P4 A3)) N (LK_nil _) (limp0 _)) as [VC WC].
      split; [|apply limp_add; assumption].
      apply LB_app. split.
      * destruct pre as [c|]; [|apply LB_nil]. apply LB_one. rewrite stmt_constructs_cmd. constructor; [|constructor]. cbn [kline]. apply srcl_in, VP.
      * apply LB_one. rewrite stmt_constructs_switch. constructor; [exact VO|exact VC].
    + (* parse_cases *)
      intros script bs cs brace ts acc seen hasdef imp l imp' ts' base H A N Hacc Himp. rewrite parse_cases_unfold in H.
      destruct (curis RBRACE ts); [injection H as <- <- _; split; assumption|].
      destruct (curis CASE ts).
      * cbv zeta in H. destruct (collect_until consts f (is COLON) (adv ts) []) as [[parts ts2]|] eqn:CU; [|discriminate].
        destruct (existsb _ seen); [discriminate|]. bind H as [[b1 imp1] ts3] eqn E3.
        assert (A2 : advs base (adv ts2)) by (apply advs_adv_r; eapply collect_until_advs; [exact CU|apply advs_adv_r, A]).
        destruct (Iswb _ _ _ _ _ _ _ _ _ _ base E3 A2 N (conj (LB_nil _) (limp0 _))) as [V3 W3].
        eapply Icases; [exact H|eapply Aswb; [exact E3|exact A2]|exact N| |apply limp_add; assumption].
        unfold LCases. rewrite flat_map_app. apply LK_app. split; [exact Hacc|]. cbn [flat_map]. rewrite app_nil_r.
        unfold case_constructs, case_head. cbn [sc_def sc_val sc_line sc_body Datatypes.fst Datatypes.snd].
        constructor; [|exact V3]. cbn [kline]. apply srcl_in, cur_in_base; [apply advs_adv_r, A|exact N].
      * destruct (curis DEFAULT ts); [|discriminate]. destruct hasdef; [discriminate|].
        destruct (expect_peek COLON ts) as [ts1|] eqn:P1; [|discriminate]. bind H as [[b1 imp1] ts2] eqn E2.
        assert (A2 : advs base (adv ts1)) by (apply advs_adv_r; eapply advs_k_peek; [exact P1|exact A]).
        destruct (Iswb _ _ _ _ _ _ _ _ _ _ base E2 A2 N (conj (LB_nil _) (limp0 _))) as [V3 W3].
        eapply Icases; [exact H|eapply Aswb; [exact E2|exact A2]|exact N| |apply limp_add; assumption].
        unfold LCases. rewrite flat_map_app. apply LK_app. split; [exact Hacc|]. cbn [flat_map]. rewrite app_nil_r. exact V3.
    + (* parse_pory *)
      intros script bs cs ts ss imp ts' base H A N. rewrite parse_pory_unfold in H. cbv zeta in H. bind H as [[sc o] ts1] eqn E1. bind H as [l ts2] eqn E2.
      assert (A1 : advs base ts1) by (eapply poryswitch_header_advs; [exact E1|exact A]).
      assert (PC : LPCases base l) by (eapply Ipcases; [exact E2|exact A1|exact N|constructor]).
      assert (SEL : forall key ss0 imp0', assoc l key = Some (ss0, imp0') -> LBI base ss0 imp0').
      { intros key ss0 imp0' AS. destruct (assoc_in _ _ _ AS) as [k' IN]. unfold LPCases in PC. rewrite Forall_forall in PC. exact (PC _ IN). }
      destruct (assoc l (sval o)) as [[ss0 imp0']|] eqn:AS1.
      * injection H as <- <- _. eapply SEL; exact AS1.
      * destruct (assoc l (t "_")) as [[ss0 imp0']|] eqn:AS2.
        -- injection H as <- <- _. eapply SEL; exact AS2.
        -- destruct env_errors; [discriminate|]. injection H as <- <- _. split; [apply LB_nil|apply limp0].
    + (* parse_pory_cases *)
      intros script bs cs start ts acc l ts' base H A N Hacc. rewrite parse_pory_cases_unfold in H.
      destruct (curis RBRACE ts); [injection H as <- _; exact Hacc|].
      destruct (curis EOF ts); [discriminate|].
      destruct (negb (curis IDENT ts) && negb (curis INT ts)); [discriminate|]. cbv zeta in H.
      destruct (curis COLON (adv ts) || curis LBRACE (adv ts)); [|discriminate]. bind H as [[l0 i] t0] eqn E0.
      assert (A0 : advs base (adv (adv ts))) by (apply advs_adv_r, advs_adv_r, A).
      assert (V0 : LBI base l0 i) by (eapply Ipstmts; [exact E0|exact A0|exact N|split; [apply LB_nil|apply limp0]]).
      assert (A1 : advs base t0) by (eapply Apstmts; [exact E0|exact A0]).
      assert (PC : LPCases base ((tlit (cur ts), (l0, i)) :: acc)) by (constructor; [exact V0|exact Hacc]).
      destruct (curis LBRACE (adv ts)).
      * destruct (negb (curis RBRACE t0)); [discriminate|]. eapply Ipcases; [exact H|apply advs_adv_r, A1|exact N|exact PC].
      * eapply Ipcases; [exact H|exact A1|exact N|exact PC].
    + (* parse_pory_stmts *)
      intros script bs cs multi ts acc imp ss imp' ts' base H A N Hacc. rewrite parse_pory_stmts_unfold in H.
      destruct (curis RBRACE ts); [injection H as <- <- _; exact Hacc|]. bind H as [[l imp1] ts1] eqn E1.
      assert (S1 : LBI base l imp1 /\ advs base ts1).
      { destruct (curis PORYSWITCH ts); [split; [eapply Ipory; eassumption|eapply Apory; [exact E1|exact A]]|split; [eapply Istmt; eassumption|eapply Astmt; [exact E1|exact A]]]. }
      destruct S1 as [V1 A1]. cbv zeta in H.
      pose proof (LBI_app _ _ _ _ _ Hacc V1) as GA.
      destruct multi.
      * eapply Ipstmts; [exact H|apply advs_adv_r, A1|exact N|exact GA].
      * injection H as <- <- _. exact GA.
Qed.

(* every line recorded in the statements of an accepted block - command tokens, label tokens, condition leaves, switch
   operands, case values - is the line of a token of the stream that was parsed; so are the tokens of its inline texts and movements *)
Theorem block_lines_from_stream f script bs cs start ts ss imp ts' base :
  parse_block f script bs cs start ts [] imp0 = Ok (ss, imp, ts') -> advs base ts -> base <> [] ->
  LK base (body_constructs ss) /\ limp base imp.
Proof.
  intros H A N. destruct (lw_all f) as (_ & Iblock & _). eapply Iblock; [exact H|exact A|exact N|split; [apply LB_nil|apply limp0]].
Qed.
End WITHCONSTS.

(* ---------- patching the hoisted labels into the commands does not change any recorded line ---------- *)
Lemma LK_lines base K K' : map kline K' = map kline K -> LK base K -> LK base K'.
Proof.
  unfold LK. rewrite !Forall_forall. intros E H k Ik. assert (I2 : In (kline k) (map kline K)) by (rewrite <- E; apply in_map, Ik).
  apply in_map_iff in I2. destruct I2 as (k0 & E0 & I0). rewrite <- E0. apply H, I0.
Qed.

Lemma apply_patches_ctok : forall ps c c', apply_patches ps c = Some c' -> ctok c' = ctok c.
Proof.
  induction ps as [|[[i a] lbl] r IH]; intros c c' H; cbn [apply_patches] in H; [injection H as <-; reflexivity|].
  destruct (Nat.eqb i (Ast.cid c)); [|eapply IH; exact H].
  destruct (set_nth a (cargs c) lbl); [|discriminate]. rewrite (IH _ _ H). reflexivity.
Qed.
Lemma pcmd_ctok ps c : ctok (pcmd ps c) = ctok c.
Proof. unfold pcmd. destruct (apply_patches ps c) as [c'|] eqn:E; [eapply apply_patches_ctok; exact E|reflexivity]. Qed.

Lemma pbexp_lines ps e : map kline (bexp_constructs (pbexp ps e)) = map kline (bexp_constructs e).
Proof.
  unfold bexp_constructs. induction e as [l|o a IHa b IHb]; cbn [pbexp leaves map]; [reflexivity|]. rewrite !map_app, IHa, IHb. reflexivity.
Qed.

Lemma pstmt_lines ps : forall ss, map kline (body_constructs (map (pstmt ps) ss)) = map kline (body_constructs ss).
Proof.
  apply (LabelSim.stmts_ind2 (fun s => map kline (stmt_constructs (pstmt ps s)) = map kline (stmt_constructs s))
                             (fun ss => map kline (body_constructs (map (pstmt ps) ss)) = map kline (body_constructs ss))).
  - reflexivity.
  - intros s r Hs Hr. cbn [map body_constructs]. rewrite !map_app, Hs, Hr. reflexivity.
  - intros c. cbn [pstmt]. rewrite !stmt_constructs_cmd. cbn [map kline]. rewrite pcmd_ctok. reflexivity.
  - intros n g tk. reflexivity.
  - intros conds els Hc He. cbn [pstmt]. rewrite !stmt_constructs_if, !map_app. f_equal.
    + induction Hc as [|cb r Hb _ IH]; [reflexivity|]. cbn [map flat_map]. rewrite !map_app, IH. f_equal.
      unfold cond_constructs. cbn [Datatypes.fst Datatypes.snd]. rewrite !map_app, pbexp_lines, Hb. reflexivity.
    + destruct els as [b|]; [exact He|reflexivity].
  - intros tg c b Hb. cbn [pstmt]. rewrite !stmt_constructs_while, !map_app, Hb. f_equal. destruct c as [e|]; [apply pbexp_lines|reflexivity].
  - intros tg b c Hb. cbn [pstmt]. rewrite !stmt_constructs_dowhile, !map_app, Hb, pbexp_lines. reflexivity.
  - intros tg. reflexivity.
  - intros tg. reflexivity.
  - intros tg o ol cases Hc. cbn [pstmt]. rewrite !stmt_constructs_switch. cbn [map]. f_equal.
    induction Hc as [|c r Hb _ IH]; [reflexivity|]. cbn [map flat_map]. rewrite !map_app, IH. f_equal.
    unfold case_constructs, case_head, sc_def, sc_val, sc_line, sc_body in *. cbn [Datatypes.fst Datatypes.snd]. rewrite !map_app, Hb. reflexivity.
Qed.

(* ---------- hoisting ---------- *)
Definition Lh (base : toks) (h : hst) : Prop :=
  Forall (fun x => srcl base (tline (xtok x))) (htexts h) /\ LK base (flat_map top_constructs (hmovs h)).

Lemma add_texts_L base : forall its h ps h' ps', add_texts its h ps = (h', ps') ->
  Forall (fun it => srcl base (tline (itTok it))) its -> Lh base h -> Lh base h'.
Proof.
  induction its as [|it r IH]; intros h ps h' ps' H F L; cbn [add_texts] in H; [injection H as <- _; exact L|].
  inversion F as [|? ? F1 F2]; subst. destruct (find_text (hset h) (tlit (itTok it)) (itType it)); [eapply IH; eassumption|].
  eapply IH; [exact H|exact F2|]. destruct L as [L1 L2]. split; cbn [htexts hmovs]; [|exact L2].
  apply Forall_app. split; [exact L1|]. constructor; [exact F1|constructor].
Qed.
Lemma add_movs_L base : forall ims h ps h' ps', add_movs ims h ps = (h', ps') ->
  Forall (fun im => In (imCmdTok im) base /\ Forall (fun tk => In tk base) (imToks im)) ims -> Lh base h -> Lh base h'.
Proof.
  induction ims as [|im r IH]; intros h ps h' ps' H F L; cbn [add_movs] in H; [injection H as <- _; exact L|].
  inversion F as [|? ? [F1 F1'] F2]; subst. destruct (assoc (hmset h) (mov_key (imToks im))); [eapply IH; eassumption|].
  eapply IH; [exact H|exact F2|]. destruct L as [L1 L2]. split; cbn [htexts hmovs]; [exact L1|].
  rewrite flat_map_app. apply LK_app. split; [exact L2|]. cbn [flat_map top_constructs]. rewrite app_nil_r.
  constructor; [apply srcl_in, F1|]. unfold LK. rewrite Forall_map. eapply Forall_impl; [|exact F1']. intros tk. apply srcl_in.
Qed.
Lemma add_implicit_L base imp h h' ps : add_implicit imp h = (h', ps) -> limp base imp -> Lh base h -> Lh base h'.
Proof.
  unfold add_implicit. intros H [I1 I2] L. destruct (add_texts (idT imp) h []) as [h1 ps1] eqn:E1.
  eapply add_movs_L; [exact H|exact I2|]. eapply add_texts_L; eassumption.
Qed.

(* ---------- raw blocks: the i-th line of the raw string is recorded with the line of the raw string token plus i ---------- *)
Definition rawline_of (base : toks) (k : construct) : Prop :=
  exists tk s pre post, In tk base /\ is RAWSTRING tk = true /\ tlit tk = pre ++ s ++ post /\ k = KRawLine s (tline tk + LexInv.nl pre)%Z.
(* where the line a construct records comes from: the line of a token of the stream, or (raw lines) the line of the raw
   string token plus the number of newlines of the raw string that precede the line *)
Definition origin (base : toks) (k : construct) : Prop := srcl base (kline k) \/ rawline_of base k.
Lemma LK_origin base K : LK base K -> Forall (origin base) K.
Proof. apply Forall_impl. intros k H. left; exact H. Qed.

Lemma nl_app' a b : LexInv.nl (a ++ b) = (LexInv.nl a + LexInv.nl b)%Z.
Proof. induction a as [|c r IH]; [reflexivity|]. cbn [app LexInv.nl]. rewrite IH. lia. Qed.
Lemma nl_noline x : Forall (fun c => c <> 10%N) x -> LexInv.nl x = 0%Z.
Proof. induction 1 as [|c r H _ IH]; [reflexivity|]. cbn [LexInv.nl]. apply N.eqb_neq in H. rewrite H, IH. reflexivity. Qed.

Lemma raw_constructs_split (v : text) (line0 : Z) : forall s cur prefix,
  v = prefix ++ rev cur ++ s -> Forall (fun c => c <> 10%N) cur ->
  Forall (fun k => exists t0 pre post, v = pre ++ t0 ++ post /\ k = KRawLine t0 (line0 + LexInv.nl pre)%Z)
         (raw_constructs (split_nl s cur) (line0 + LexInv.nl prefix)%Z).
Proof.
  induction s as [|c r IH]; intros cur prefix E F; cbn [split_nl].
  - cbn [raw_constructs]. constructor; [|constructor]. exists (rev cur), prefix, []. split; [rewrite E; reflexivity|reflexivity].
  - destruct (c =? 10)%N eqn:C.
    + cbn [raw_constructs]. constructor.
      * exists (rev cur), prefix, (c :: r). split; [exact E|reflexivity].
      * apply N.eqb_eq in C. subst c.
        replace (line0 + LexInv.nl prefix + 1)%Z with (line0 + LexInv.nl (prefix ++ rev cur ++ [10%N]))%Z.
        -- apply IH; [|constructor]. cbn [rev app]. rewrite E, <- !app_assoc. reflexivity.
        -- rewrite !nl_app'. rewrite (nl_noline (rev cur)) by (apply Forall_rev, F). cbn. lia.
    + apply IH; [|constructor; [apply N.eqb_neq, C|exact F]]. cbn [rev]. rewrite E, <- !app_assoc. reflexivity.
Qed.

Lemma raw_top_origin base tk : In tk base -> is RAWSTRING tk = true -> Forall (origin base) (top_constructs (TRaw (tlit tk) (tline tk))).
Proof.
  intros I0 R. cbn [top_constructs].
  pose proof (raw_constructs_split (tlit tk) (tline tk) (tlit tk) [] [] eq_refl (Forall_nil _)) as H. cbn [LexInv.nl] in H. rewrite Z.add_0_r in H.
  eapply Forall_impl; [|exact H]. intros k (t0 & pre & post & E & ->). right. exists tk, t0, pre, post. auto.
Qed.

(* ---------- mapscripts ---------- *)
Notation parse_block_c c := (parse_block autovars switches env_errors parse_format c).
Notation ms_table_c c := (ms_table autovars switches env_errors parse_format c).
Notation ms_entries_c c := (ms_entries autovars switches env_errors parse_format c).

Ltac adv_ex H := first [eapply parse_block_advs; [exact parse_format_advs|exact H|] | eapply ms_collect_advs; [exact H|]
                       | eapply ms_table_advs; [exact parse_format_advs|exact H|] | eapply ms_entries_advs; [exact parse_format_advs|exact H|]
                       | eapply scope_modifier_advs; [exact H|]].
Ltac advs_now := advs_gox ltac:(fun K => adv_ex K).

Lemma ms_table_L c : forall f mapname tyname ts i acc imp es imp' ts' base,
  ms_table_c c f mapname tyname ts i acc imp = Ok (es, imp', ts') -> advs base ts -> base <> [] ->
  LK base (flat_map entry_constructs acc) -> limp base imp -> LK base (flat_map entry_constructs es) /\ limp base imp'.
Proof.
  induction f as [|f IH]; intros mapname tyname ts i acc imp es imp' ts' base H A N Hacc Himp; [discriminate|].
  cbn [Parser.ms_table] in H. destruct (curis RBRACKET ts); [injection H as <- <- _; split; assumption|]. cbv zeta in H.
  destruct (ms_collect c f (is COMMA) ts []) as [[cond ts1]|] eqn:C1; [|discriminate].
  destruct cond as [|c0 cond]; [discriminate|].
  destruct (ms_collect c f _ (adv ts1) []) as [[cmp ts3]|] eqn:C3; [|discriminate].
  destruct cmp as [|c1 cmp]; [discriminate|].
  assert (A3 : advs base ts3) by advs_now.
  pose proof (cur_in_base _ _ A N) as IC.
  destruct (curis COLON ts3).
  - destruct (expect_peek IDENT ts3) as [ts4|] eqn:P4; [|discriminate].
    eapply IH; [exact H|advs_now|exact N| |exact Himp].
    rewrite flat_map_app. apply LK_app. split; [exact Hacc|]. cbn [flat_map entry_constructs teScript script_opt_constructs app].
    constructor; [|constructor]. cbn [kline teCond]. apply srcl_in, IC.
  - bind H as [[b imp1] ts4] eqn E4.
    destruct (block_lines_from_stream c _ _ _ _ _ _ _ _ _ base E4 ltac:(advs_now) N) as [V W].
    eapply IH; [exact H|advs_now|exact N| |apply limp_add; assumption].
    rewrite flat_map_app. apply LK_app. split; [exact Hacc|]. cbn [flat_map entry_constructs teScript script_opt_constructs]. rewrite app_nil_r.
    constructor; [|exact V]. cbn [kline teCond]. apply srcl_in, IC.
Qed.

Definition ms_constructs (plain : list mapscript) (tables : list tablems) : list construct :=
  flat_map mapscript_constructs plain ++ flat_map table_constructs tables.

Lemma ms_entries_L c : forall f mapname ts plain tables imp plain' tables' imp' ts' base,
  ms_entries_c c f mapname ts plain tables imp = Ok (plain', tables', imp', ts') -> advs base ts -> base <> [] ->
  LK base (ms_constructs plain tables) -> limp base imp -> LK base (ms_constructs plain' tables') /\ limp base imp'.
Proof.
  induction f as [|f IH]; intros mapname ts plain tables imp plain' tables' imp' ts' base H A N Hacc Himp; [discriminate|].
  cbn [Parser.ms_entries] in H. destruct (curis RBRACE ts); [injection H as <- <- <- _; split; assumption|].
  destruct (negb (curis IDENT ts)); [discriminate|]. cbv zeta in H.
  unfold ms_constructs in *. apply LK_app in Hacc. destruct Hacc as [Hp Ht].
  pose proof (cur_in_base _ _ A N) as IC.
  destruct (curis COLON (adv ts)).
  - destruct (expect_peek IDENT (adv ts)) as [ts2|] eqn:P2; [|discriminate].
    eapply IH; [exact H|advs_now|exact N| |exact Himp].
    rewrite flat_map_app. apply LK_app. split; [apply LK_app; split; [exact Hp|]|exact Ht].
    cbn [flat_map mapscript_constructs msScript script_opt_constructs app]. constructor; [|constructor]. cbn [kline msType]. apply srcl_in, IC.
  - destruct (curis LBRACE (adv ts)).
    + bind H as [[b imp1] ts2] eqn E2.
      destruct (block_lines_from_stream c _ _ _ _ _ _ _ _ _ base E2 ltac:(advs_now) N) as [V W].
      eapply IH; [exact H|advs_now|exact N| |apply limp_add; assumption].
      rewrite flat_map_app. apply LK_app. split; [apply LK_app; split; [exact Hp|]|exact Ht].
      cbn [flat_map mapscript_constructs msScript script_opt_constructs]. rewrite app_nil_r. constructor; [|exact V]. cbn [kline msType]. apply srcl_in, IC.
    + destruct (curis LBRACKET (adv ts)); [|discriminate]. bind H as [[es imp1] ts2] eqn E2.
      destruct (ms_table_L c _ _ _ _ _ _ _ _ _ _ base E2 ltac:(advs_now) N (LK_nil _) (limp0 _)) as [V W].
      eapply IH; [exact H|advs_now|exact N| |apply limp_add; assumption].
      apply LK_app. split; [exact Hp|]. rewrite flat_map_app. apply LK_app. split; [exact Ht|].
      cbn [flat_map table_constructs tmType tmName tmEntries]. rewrite app_nil_r. constructor; [|exact V]. cbn [kline]. apply srcl_in, IC.
Qed.

Lemma patched_ms_lines ps plain tables :
  map kline (ms_constructs
    (map (fun m => {| msType := msType m; msName := msName m;
                      msScript := match msScript m with Some b => Some (map (pstmt ps) b) | None => None end |}) plain)
    (map (fun tb => {| tmType := tmType tb; tmName := tmName tb;
                       tmEntries := map (fun e => {| teCond := teCond e; teCondLit := teCondLit e; teCmp := teCmp e; teName := teName e;
                                                     teScript := match teScript e with Some b => Some (map (pstmt ps) b) | None => None end |}) (tmEntries tb) |}) tables))
  = map kline (ms_constructs plain tables).
Proof.
  unfold ms_constructs. rewrite !map_app. f_equal.
  - induction plain as [|m r IH]; [reflexivity|]. cbn [map flat_map]. rewrite !map_app, IH. f_equal.
    unfold mapscript_constructs. cbn [msType msName msScript map kline]. f_equal. destruct (msScript m); [apply pstmt_lines|reflexivity].
  - induction tables as [|tb r IH]; [reflexivity|]. cbn [map flat_map]. rewrite !map_app, IH. f_equal.
    unfold table_constructs. cbn [tmType tmName tmEntries map kline]. f_equal.
    induction (tmEntries tb) as [|e r0 IH0]; [reflexivity|]. cbn [map flat_map]. rewrite !map_app, IH0. f_equal.
    unfold entry_constructs. cbn [teScript teCond map kline]. f_equal. destruct (teScript e); [apply pstmt_lines|reflexivity].
Qed.

(* ---------- ParseProgram ---------- *)
Notation parse_tops := (parse_tops autovars switches env_errors parse_format).
Notation parse_program := (parse_program autovars switches env_errors parse_format).

Definition PInv (base : toks) (st : pstate) : Prop :=
  Forall (origin base) (flat_map top_constructs (ptops st)) /\ Forall (fun x => srcl base (tline (xtok x))) (ptexts st) /\ Lh base (ph st).

Lemma src_ident_in base ts l : advs base ts -> Forall (src_ident ts) l -> Forall (fun tk => In tk base) l.
Proof. intros A. apply Forall_impl. intros tk [I0 _]. eapply in_advs; eassumption. Qed.

Lemma parse_tops_L base : forall f st ts st', parse_tops f st ts = Ok st' -> advs base ts -> eof_ended base -> PInv base st -> PInv base st'.
Proof.
  induction f as [|f IH]; intros st ts st' H A EB (P1 & P2 & P3); [discriminate|].
  assert (N : base <> []) by (destruct EB; assumption).
  assert (EO : eof_ended ts) by (eapply advs_eof; eassumption).
  cbn [Parser.parse_tops] in H. destruct (curis EOF ts); [injection H as <-; split; [|split]; assumption|]. cbv zeta in H.
  pose proof (cur_in_base _ _ A N) as IC.
  destruct (ttype (cur ts)); try discriminate.
  - (* script *)
    bind H as [[[[name g] b] imp] ts1] eqn E. destruct (add_implicit imp (ph st)) as [h' ps] eqn:AI.
    assert (A1 : advs base ts1) by (eapply parse_script_advs; [exact parse_format_advs|exact E|exact A]).
    unfold Parser.parse_script in E. cbv zeta in E. bind E as [g0 ts0] eqn E0.
    destruct (expect_peek IDENT ts0) as [ts2|] eqn:P2'; [|discriminate].
    destruct (expect_peek LBRACE ts2) as [ts3|] eqn:P3'; [|discriminate]. bind E as [[b0 imp1] ts4] eqn E4. injection E as <- <- <- <- <-.
    destruct (block_lines_from_stream _ _ _ _ _ _ _ _ _ _ base E4 ltac:(advs_now) N) as [V W].
    eapply IH; [exact H|apply advs_adv_r, A1|exact EB|]. split; [|split]; cbn [ptops ptexts ph]; [|exact P2|eapply add_implicit_L; eassumption].
    rewrite flat_map_app. apply Forall_app. split; [exact P1|]. cbn [flat_map top_constructs]. rewrite app_nil_r.
    apply LK_origin. eapply LK_lines; [apply pstmt_lines|exact V].
  - (* raw *)
    bind H as [tp ts1] eqn E.
    assert (A1 : advs base ts1) by (eapply parse_raw_advs; [exact E|exact A]).
    eapply IH; [exact H|apply advs_adv_r, A1|exact EB|]. split; [|split]; cbn [ptops ptexts ph]; [|exact P2|exact P3].
    rewrite flat_map_app. apply Forall_app. split; [exact P1|]. cbn [flat_map]. rewrite app_nil_r.
    destruct (raw_marker_site _ _ _ E EO) as (rt & rest & E1 & R & ->).
    apply raw_top_origin; [|exact R]. eapply in_advs; [exact A|]. rewrite E1. right; left; reflexivity.
  - (* text *)
    bind H as [td ts1] eqn E.
    assert (A1 : advs base ts1) by (eapply parse_text_advs; [exact parse_format_advs|exact E|exact A]).
    eapply IH; [exact H|apply advs_adv_r, A1|exact EB|]. split; [|split]; cbn [ptops ptexts ph]; [| |exact P3].
    + rewrite flat_map_app. apply Forall_app. split; [exact P1|]. cbn. constructor.
    + apply Forall_app. split; [exact P2|]. constructor; [|constructor]. rewrite (text_marker_site _ _ _ _ _ _ _ E). apply srcl_in, IC.
  - (* movement *)
    bind H as [tp ts1] eqn E.
    assert (A1 : advs base ts1) by (eapply parse_movement_advs; [exact E|exact A]).
    eapply IH; [exact H|apply advs_adv_r, A1|exact EB|]. split; [|split]; cbn [ptops ptexts ph]; [|exact P2|exact P3].
    rewrite flat_map_app. apply Forall_app. split; [exact P1|]. cbn [flat_map]. rewrite app_nil_r.
    destruct (movement_marker_site _ _ _ _ _ _ E) as (name & g & steps & -> & F). apply LK_origin. cbn [top_constructs].
    constructor; [apply srcl_in, IC|]. unfold LK. rewrite Forall_map. eapply Forall_impl; [|exact (src_ident_in _ _ _ A F)]. intros tk. apply srcl_in.
  - (* mart *)
    bind H as [tp ts1] eqn E.
    assert (A1 : advs base ts1) by (eapply parse_mart_advs; [exact E|exact A]).
    eapply IH; [exact H|apply advs_adv_r, A1|exact EB|]. split; [|split]; cbn [ptops ptexts ph]; [|exact P2|exact P3].
    rewrite flat_map_app. apply Forall_app. split; [exact P1|]. cbn [flat_map]. rewrite app_nil_r.
    destruct (mart_marker_site _ _ _ _ _ _ _ E EO) as (name & g & itoks & -> & F). apply LK_origin. cbn [top_constructs].
    constructor; [apply srcl_in, IC|]. unfold LK. rewrite Forall_map. apply Forall_forall. intros [it tk] Ip. cbn [kline Datatypes.snd].
    apply in_combine_r in Ip. pose proof (src_ident_in _ _ _ A F) as F'. rewrite Forall_forall in F'. apply srcl_in, F', Ip.
  - (* mapscripts *)
    bind H as [[tp imp] ts1] eqn E. destruct (add_implicit imp (ph st)) as [h' ps] eqn:AI.
    assert (A1 : advs base ts1) by (eapply parse_mapscripts_advs; [exact parse_format_advs|exact E|exact A]).
    unfold Parser.parse_mapscripts in E. bind E as [g0 ts0] eqn E0. cbv zeta in E.
    destruct (expect_peek IDENT ts0) as [ts2|] eqn:P2'; [|discriminate].
    destruct (expect_peek LBRACE ts2) as [ts3|] eqn:P3'; [|discriminate]. bind E as [[[plain tables] imp1] ts4] eqn E4. injection E as <- <- <-.
    destruct (ms_entries_L _ _ _ _ _ _ _ _ _ _ _ base E4 ltac:(advs_now) N (LK_nil _) (limp0 _)) as [V W].
    eapply IH; [exact H|apply advs_adv_r, A1|exact EB|]. split; [|split]; cbn [ptops ptexts ph]; [|exact P2|eapply add_implicit_L; eassumption].
    rewrite flat_map_app. apply Forall_app. split; [exact P1|]. cbn [flat_map]. rewrite app_nil_r.
    apply LK_origin. eapply LK_lines; [|exact V]. apply patched_ms_lines.
  - (* const *)
    bind H as [c' ts1] eqn E.
    eapply IH; [exact H|apply advs_adv_r; eapply parse_const_advs; [exact E|exact A]|exact EB|]. split; [|split]; assumption.
Qed.

(* THEOREM C1: every line recorded in the AST of an accepted program comes from the stream: it is the line of a token of
   the stream, or - for the lines of a raw block - the line of the raw string token plus the number of newlines before it *)
Theorem program_lines_from_stream ts p :
  parse_program ts = Ok p -> eof_ended ts -> Forall (origin ts) (program_constructs p).
Proof.
  unfold Parser.parse_program. intros H EO. bind H as st eqn E. cbv zeta in H.
  destruct (dup_text [] _); [discriminate|]. destruct (dup_mov [] _); [discriminate|]. injection H as <-.
  destruct (parse_tops_L ts _ _ _ _ E (advs_refl _) EO) as (P1 & P2 & P3 & P4).
  { split; [constructor|]. split; [constructor|]. split; constructor. }
  unfold program_constructs. cbn [tops texts]. apply Forall_app. split.
  - rewrite flat_map_app. apply Forall_app. split; [exact P1|apply LK_origin, P4].
  - apply LK_origin. unfold LK. rewrite Forall_map. apply Forall_app. split; assumption.
Qed.
End LINES.

(* ---------- the real format() operator returns a token of the stream ---------- *)
Lemma format_token_in_stream fc cli_font cli_maxlen ee ts tk v sty ts' :
  Format.parse_format fc cli_font cli_maxlen ee ts = Ok (tk, v, sty, ts') -> ts <> [] -> In tk ts.
Proof.
  intros H N. unfold Format.parse_format in H.
  destruct (expect_peek LPAREN ts) as [ts1|] eqn:P1; [|discriminate].
  match type of H with (let '(_, _) := ?X in _) = _ => destruct X as [sty0 ts2] eqn:E2 end.
  destruct (expect_peek STRING ts2) as [ts3|] eqn:P3; [|discriminate]. cbv zeta in H.
  assert (A3 : advs ts ts3).
  { eapply advs_k_peek; [exact P3|]. destruct (peekis STRINGTYPE ts1); injection E2 as _ <-; [apply advs_adv_r|]; (eapply advs_k_peek; [exact P1|apply advs_refl]). }
  pose proof (cur_in_base _ _ A3 N) as IC.
  match type of H with (do _ <- ?X ; _) = _ => destruct X as [[p ts4]| | |]; try discriminate end.
  destruct (expect_peek RPAREN ts4) as [ts5|]; [|discriminate]. cbv zeta in H.
  match type of H with match ?X with Some _ => _ | None => _ end = _ => destruct X end.
  - injection H as <- _ _ _. exact IC.
  - destruct ee; [discriminate|]. injection H as <- _ _ _. exact IC.
Qed.

(* ====================================================================================================================== *)
(* the lexer: where a raw string stands in the source                                                                     *)
(* ====================================================================================================================== *)
Section RAWLEX.
Variable is_letter_hi is_digit_hi is_space_hi : N -> bool.
Variable s : list N.
Notation nt_core := (LexLayout.nt_core is_letter_hi is_digit_hi is_space_hi).
Notation next_token_aux := (next_token_aux is_letter_hi is_digit_hi is_space_hi).
Notation lex_all := (lex_all is_letter_hi is_digit_hi is_space_hi).

(* a raw string token: the source is  p0 ++ ` ++ literal ++ rest , and the token's line is that of the back quote *)
Definition raw_located (tk : token) : Prop :=
  ttype tk = RAWSTRING -> exists p0 rest, s = p0 ++ 96%N :: tlit tk ++ rest /\ tline tk = (1 + LexInv.nl p0)%Z.

Lemma trim_right_prefix : forall r, exists dropped, r = dropped ++ trim_right is_space_hi r.
Proof.
  induction r as [|c r IH]; [exists []; reflexivity|]. cbn [trim_right]. destruct (is_space is_space_hi c); [|exists []; reflexivity].
  destruct IH as [d E]. exists (c :: d). cbn [app]. now rewrite <- E.
Qed.

Ltac rtriv := cbn [fst]; repeat (constructor; [intros T; cbn [ttype] in T; discriminate T|]); constructor.

Lemma nt_core_raw l : LexPos.PI s l -> Forall raw_located (fst (fst (nt_core l))).
Proof.
  intros HI. unfold LexLayout.nt_core. cbv zeta. cbn [fst snd].
  destruct (chs l) as [|c rest] eqn:E.
  { cbn [orb fst snd]. rtriv. }
  assert (HP : LexPos.P s l) by (apply LexPos.PI_P; [rewrite E; discriminate|exact HI]). destruct HP as [pre AP].
  pose proof AP as (A1 & A2 & _).
  assert (CH : ch l = c) by (unfold ch; rewrite E; reflexivity). rewrite CH. cbn [orb].
  pose proof (LexPos.at_pre_read_char s pre l c rest E AP) as AP1.
  destruct (c =? 0)%N eqn:C0; [rtriv|]. clear CH.
  repeat match goal with
  | |- Forall raw_located (fst (if (c =? ?k)%N then _ else _)) =>
      destruct (c =? k)%N eqn:?;
      [ first [ solve [unfold single; rtriv] | solve [destruct (peek l =? _)%N; unfold double, single; rtriv] | idtac ] | ]
  end.
  - (* string *)
    unfold read_string_token. destruct (read_string' (fuel_of l) l [] (0, 0, 0)%Z) as [[lit [[el eb] eu]] l1]. rtriv.
  - (* raw string *)
    match goal with K96 : (c =? 96)%N = true |- _ => apply N.eqb_eq in K96; subst c end.
    destruct (LexPos.read_while_spec s (fuel_of (read_char l)) (fun x => negb (x =? 96)%N && negb (x =? 0)%N) (read_char l) [] _ AP1) as (x & X1 & _ & X3).
    destruct (read_while _ _ (read_char l) []) as [body l3]. cbn [fst snd rev app] in *. subst body.
    constructor; [|constructor]. intros _. cbn [tlit tline].
    destruct (trim_right_prefix (rev x)) as [d D]. destruct X3 as (Y1 & _).
    exists pre, (rev d ++ chs l3). split; [|exact A2].
    assert (X : x = rev (trim_right is_space_hi (rev x)) ++ rev d) by (rewrite <- rev_app_distr, <- D, rev_involutive; reflexivity).
    rewrite Y1. rewrite <- !app_assoc. cbn [app]. f_equal. f_equal. rewrite app_assoc. f_equal. exact X.
  - (* 0x.. / 0.. *)
    destruct (peek l =? 120)%N.
    + destruct (read_while _ is_hex (read_char (read_char l)) []) as [h l3]. rtriv.
    + destruct (read_while (fuel_of l) _ l []) as [d l3]. rtriv.
  - (* identifiers, numbers, illegal *)
    destruct (is_letter is_letter_hi c).
    + destruct (read_ident is_letter_hi is_digit_hi l) as [id l3].
      destruct ((ch l3 =? 34)%N && _).
      * unfold read_string_token. destruct (read_string' (fuel_of l3) l3 [] (0, 0, 0)%Z) as [[lit [[el eb] eu]] l4]. rtriv.
      * cbn [fst]. constructor; [|constructor]. intros T. cbn [ttype] in T. destruct (LexPos.kw_plain id) as [KP _]. rewrite T in KP. discriminate KP.
    + destruct (is_digit is_digit_hi c || _).
      * destruct (read_while _ _ _ []) as [d l3]. rtriv.
      * rtriv.
Qed.

Lemma lex_all_raw f : forall l, LexPos.PI s l -> Forall raw_located (lex_all f l).
Proof.
  induction f as [|f IH]; intros l H; cbn [Lexer.lex_all]; [constructor|].
  pose proof (LexPos.next_token_pos is_letter_hi is_digit_hi is_space_hi s l H) as K.
  assert (R : Forall raw_located (fst (fst (next_token_aux l)))) by (rewrite LexLayout.next_token_aux_core; apply nt_core_raw, LexPos.PI_skipall, H).
  destruct (next_token_aux l) as [[ts l'] e]. cbn [fst snd] in K, R.
  destruct K as [_ K2]. destruct e; [exact R|]. apply Forall_app. split; [exact R|apply IH, K2].
Qed.
End RAWLEX.

(* every raw string token of every source stands in the source as  ` literal ... , on the token's line *)
Theorem raw_strings_located is_letter_hi is_digit_hi is_space_hi (s : text) :
  Forall (raw_located s) (lex is_letter_hi is_digit_hi is_space_hi s).
Proof. unfold lex. apply lex_all_raw. right. apply LexPos.P_init. Qed.

(* ====================================================================================================================== *)
(* the whole pipeline: lexer, parser, emitter                                                                             *)
(* ====================================================================================================================== *)
(* The construct [k] was written on the source line it records:
   - either its line is the line of a token of the lexed stream, and that token is located in the source (LexPos.located:
     the source splits as pre ++ post, post begins with the token, the line is 1 + the number of newlines of pre);
   - or it is a line of a raw block: the content of the line stands in the source after [before], and the recorded line is
     1 + the number of newlines of [before]. *)
Definition on_source_line (src : text) (stream : toks) (k : construct) : Prop :=
  (exists tk, In tk stream /\ kline k = tline tk /\ (ttype tk = EOF \/ LexPos.located src tk)) \/
  (exists s l before after, k = KRawLine s l /\ src = before ++ s ++ after /\ l = (1 + LexInv.nl before)%Z).

Lemma origin_on_source hl hd hs src k :
  origin (lex hl hd hs src) k -> on_source_line src (lex hl hd hs src) k /\ (1 <= kline k <= 1 + LexInv.nl src)%Z.
Proof.
  intros [(tk & I0 & E)|(tk & s0 & pre & post & I0 & R & TL & ->)].
  - pose proof (LexPos.tokens_are_located hl hd hs src) as L. pose proof (LexInv.lex_lines_in_range hl hd hs src) as G.
    rewrite Forall_forall in L, G. split; [left; exists tk; split; [exact I0|split; [symmetry; exact E|apply L, I0]]|].
    rewrite <- E. exact (proj1 (G tk I0)).
  - pose proof (raw_strings_located hl hd hs src) as L. rewrite Forall_forall in L.
    destruct (L tk I0 (proj1 (is_spec _ _) R)) as (p0 & rest & ES & EL).
    assert (E2 : src = (p0 ++ 96%N :: pre) ++ s0 ++ (post ++ rest)).
    { rewrite ES, TL. rewrite <- !app_assoc. cbn [app]. reflexivity. }
    assert (NL : (tline tk + LexInv.nl pre = 1 + LexInv.nl (p0 ++ 96%N :: pre))%Z).
    { rewrite EL, nl_app'. change (LexInv.nl (96%N :: pre)) with (0 + LexInv.nl pre)%Z. lia. }
    split.
    + right. exists s0, (tline tk + LexInv.nl pre)%Z, (p0 ++ 96%N :: pre), (post ++ rest). split; [reflexivity|]. split; [exact E2|exact NL].
    + cbn [kline]. rewrite NL. rewrite E2 at 1. rewrite (nl_app' (p0 ++ 96%N :: pre) (s0 ++ post ++ rest)).
      pose proof (LexInv.nl_nonneg (p0 ++ 96%N :: pre)). pose proof (LexInv.nl_nonneg (s0 ++ post ++ rest)). lia.
Qed.

Section PIPELINE.
Variable is_letter_hi is_digit_hi is_space_hi : N -> bool.
Variable autovars : list (text * autovar).
Variable switches : list (text * text).
Variable env_errors : bool.
Variable fc : Format.fontcfg.
Variable cli_font : text.
Variable cli_maxlen : Z.
Notation lexer := (lex is_letter_hi is_digit_hi is_space_hi).
Notation parser := (parse_program autovars switches env_errors (Format.parse_format fc cli_font cli_maxlen env_errors)).

(* THEOREM C2: every construct of an accepted program was written on the source line it records, a line of the source *)
Theorem constructs_on_source_lines src prog :
  parser (lexer src) = Ok prog ->
  Forall (fun k => on_source_line src (lexer src) k /\ (1 <= kline k <= 1 + LexInv.nl src)%Z) (program_constructs prog).
Proof.
  intros H. eapply Forall_impl; [intros k; apply origin_on_source|].
  eapply program_lines_from_stream; [apply ProgSrc.parse_format_advs|apply format_token_in_stream|exact H|apply ProgSrc.lex_eof].
Qed.

(* MAIN THEOREM (C16, second sentence): in the -lm output of the compiler, every marker carries a line number between 1 and
   the number of lines of the source, it is immediately followed by the instruction that renders a construct of the program
   - command, label, condition, switch operand, case, text, movement, step, mart, item, raw line, map script, table entry -
   and that construct was written on the line the marker names. *)
Theorem markers_name_source_lines opt path src prog is :
  parser (lexer src) = Ok prog ->
  emit_program_instrs opt (Some path) prog = Emitter.Ok is ->
  forall pre l post, is = pre ++ IMarker l :: post ->
    (1 <= l <= 1 + LexInv.nl src)%Z /\
    exists k i post', post = i :: post' /\ In k (program_constructs prog) /\ shows k i /\ kline k = l /\
                      on_source_line src (lexer src) k.
Proof.
  intros HP HE pre l post E.
  destruct (marker_names_following_construct _ _ _ _ HE _ _ _ E) as (k & i & post' & E1 & I0 & KL & S).
  pose proof (constructs_on_source_lines _ _ HP) as F. rewrite Forall_forall in F. destruct (F k I0) as [O R].
  split; [rewrite <- KL; exact R|]. exists k, i, post'. auto.
Qed.

(* in particular: every marker of the output names a line of the source *)
Corollary markers_in_range opt path src prog is :
  parser (lexer src) = Ok prog -> emit_program_instrs opt (Some path) prog = Emitter.Ok is ->
  forall l, In (IMarker l) is -> (1 <= l <= 1 + LexInv.nl src)%Z.
Proof.
  intros HP HE l I0. destruct (in_split _ _ I0) as (pre & post & E).
  exact (proj1 (markers_name_source_lines _ _ _ _ _ HP HE _ _ _ E)).
Qed.

(* the same, stated on the compiler's entry point: its output text is the printed form of such an instruction list *)
Theorem compile_markers_name_source_lines opt path src out :
  Compile.compile is_letter_hi is_digit_hi is_space_hi autovars switches env_errors fc cli_font cli_maxlen opt (Some path) src = Compile.OutText out ->
  exists prog is,
    parser (lexer src) = Ok prog /\ emit_program_instrs opt (Some path) prog = Emitter.Ok is /\ out = print_instrs (Some path) is /\
    forall pre l post, is = pre ++ IMarker l :: post ->
      (1 <= l <= 1 + LexInv.nl src)%Z /\
      exists k i post', post = i :: post' /\ In k (program_constructs prog) /\ shows k i /\ kline k = l /\
                        on_source_line src (lexer src) k.
Proof.
  intros H. unfold Compile.compile in H. destruct (parser (lexer src)) as [prog| | |] eqn:HP; try discriminate.
  unfold emit_program in H. destruct (emit_program_instrs opt (Some path) prog) as [is| | | |] eqn:HE; try discriminate.
  injection H as <-. exists prog, is. split; [reflexivity|]. split; [exact HE|]. split; [reflexivity|].
  eapply markers_name_source_lines; eassumption.
Qed.
End PIPELINE.

(* ====================================================================================================================== *)
(* the hypotheses are satisfiable: concrete inputs                                                                         *)
(* ====================================================================================================================== *)
Module MarkerExamples.
Definition nohi : N -> bool := fun _ => false.
Definition lex0 (s : string) : toks := lex nohi nohi nohi (t s).
Definition pf0 : toks -> res (token * text * text * toks) := fun _ => Panic.
Definition fc0 : Format.fontcfg := {| Format.fcDefault := []; Format.fcFonts := [] |}.
Definition av0 : list (text * autovar) := [(t "random", {| avName := t "VAR_RESULT"; avPos := None |})].
Definition marker_lines (is : list instr) : list Z := flat_map (fun i => match i with IMarker l => [l] | _ => [] end) is.

(* a program whose constructs are spread over lines: 29 newlines, 30 lines *)
Definition src0 : text := t "script Main {
  lock
  if (flag(FLAG_A) &&
      var(VAR_B) == 2) {
    msgbox(""Hi"")
  }
  switch (var(
     VAR_X)) {
    case 1:
      foo
    case
      2: bar
  }
lbl:
  applymovement(1, moves(walk_left
    walk_right))
  end
}
raw `
abc
def`
text T { ""x"" }
movement M { walk_up * 2
  walk_down }
mart Mt { ITEM_A
 ITEM_B }
mapscripts Ms { MAP_SCRIPT_ON_LOAD: Main
 MAP_SCRIPT_ON_FRAME_TABLE [ VAR_A, 1: Main
   VAR_B, 2 { end } ] }
".

(* the hypotheses of markers_name_source_lines hold of it; the markers it emits: 2 lock, 5 msgbox, 3 flag(FLAG_A), 4 var(VAR_B),
   14 lbl, 15 applymovement, 8 the switch operand VAR_X, 9 case 1, 12 case 2 (the value stands on the line after 'case'),
   10 foo, 12 bar, 19-21 the three lines of the raw block, 23 movement M and its steps, 25-26 the mart, 27-29 the map scripts,
   15-16 the movement hoisted from moves( ), 5 the text hoisted from msgbox, 22 text T *)
Definition prog0 : program :=
  match parse_program [] [] false (Format.parse_format fc0 [] 0%Z false) (lex nohi nohi nohi src0) with Ok p => p | _ => {| tops := []; texts := [] |} end.
Definition is0 : list instr := match emit_program_instrs false (Some (t "a.pory")) prog0 with Emitter.Ok is => is | _ => [] end.
Example ex_pipeline :
  parse_program [] [] false (Format.parse_format fc0 [] 0%Z false) (lex nohi nohi nohi src0) = Ok prog0 /\
  emit_program_instrs false (Some (t "a.pory")) prog0 = Emitter.Ok is0 /\
  marker_lines is0 = [2; 5; 3; 4; 14; 15; 8; 9; 12; 10; 12; 19; 20; 21; 23; 23; 23; 24; 25; 25; 26; 27; 28; 28; 29; 15; 15; 16; 5; 22]%Z /\
  LexInv.nl src0 = 29%Z.
Proof. split; [vm_compute; reflexivity|]. split; [vm_compute; reflexivity|]. split; vm_compute; reflexivity. Qed.

(* the main theorem applied to this input: every one of these markers names a line between 1 and 30 *)
Example ex_main_applies prog is :
  parse_program [] [] false (Format.parse_format fc0 [] 0%Z false) (lex nohi nohi nohi src0) = Ok prog ->
  emit_program_instrs false (Some (t "a.pory")) prog = Emitter.Ok is ->
  forall pre l post, is = pre ++ IMarker l :: post -> (1 <= l <= 30)%Z.
Proof.
  intros HP HE pre l post E. destruct (markers_name_source_lines _ _ _ _ _ _ _ _ _ _ _ _ _ _ HP HE _ _ _ E) as [R _].
  replace (LexInv.nl src0) with 29%Z in R by (vm_compute; reflexivity). lia.
Qed.

(* sites *)
Example ex_condition_site :
  let ts0 := lex0 "( !
   flag(
     FLAG_X) )" in
  eof_ended ts0 /\
  exists l imp ts', leaf_expr [] [] false pf0 [] 30 (t "S") ts0 = Ok (l, imp, ts') /\ lpre l = None /\ lline l = 3%Z.
Proof.
  intros ts0. split; [split; [vm_compute; discriminate|vm_compute; reflexivity]|].
  eexists _, _, _. split; [vm_compute; reflexivity|]. split; reflexivity.
Qed.
Example ex_condition_autovar_site :
  let ts0 := lex0 "(
   random(4) == 2 )" in
  eof_ended ts0 /\
  exists l imp ts' c, leaf_expr av0 [] false pf0 [] 30 (t "S") ts0 = Ok (l, imp, ts') /\ lpre l = Some c /\ cname c = t "random" /\ lline l = 2%Z.
Proof.
  intros ts0. split; [split; [vm_compute; discriminate|vm_compute; reflexivity]|].
  eexists _, _, _, _. split; [vm_compute; reflexivity|]. split; [reflexivity|]. split; vm_compute; reflexivity.
Qed.
Example ex_switch_site :
  let ts := lex0 "switch (var(
    VAR_X)) { case
   1: foo }" in
  eof_ended ts /\ peekis VAR (adv ts) = true /\
  exists tg b imp ts', parse_switch [] [] false pf0 [] 60 (t "S") [] [] ts = Ok ([SSwitch tg (t "VAR_X") 2%Z [(false, t "1", 3%Z, b)]], imp, ts').
Proof.
  intros ts. split; [split; [vm_compute; discriminate|vm_compute; reflexivity]|]. split; [vm_compute; reflexivity|].
  eexists _, _, _, _. vm_compute. reflexivity.
Qed.
Example ex_switch_autovar_site :
  let ts := lex0 "switch (
    random(3)) { case 1: foo }" in
  eof_ended ts /\ peekis VAR (adv ts) = false /\
  exists c tg cases imp ts', parse_switch av0 [] false pf0 [] 60 (t "S") [] [] ts = Ok ([SCmd c; SSwitch tg (t "VAR_RESULT") 2%Z cases], imp, ts') /\
                             tline (ctok c) = 2%Z.
Proof.
  intros ts. split; [split; [vm_compute; discriminate|vm_compute; reflexivity]|]. split; [vm_compute; reflexivity|].
  eexists _, _, _, _, _. split; vm_compute; reflexivity.
Qed.
Example ex_raw_site :
  let ts := lex0 "raw
  `a
b`" in
  eof_ended ts /\ exists ts', parse_raw ts = Ok (TRaw (t "a
b") 2%Z, ts').
Proof. intros ts. split; [split; [vm_compute; discriminate|vm_compute; reflexivity]|]. eexists. vm_compute. reflexivity. Qed.
End MarkerExamples.
