(* C12 - poryswitch in STATEMENT position, NESTED in control constructs: part (B) of the twin programme (TwinParse.v, TwinProgram.v).

   The twin of a token stream  U ++ z  with a statement poryswitch at z is  U ++ body ++ rest : body = the tokens of the
   statements of the selected case, rest = the tokens behind the closing brace of the poryswitch, every token keeping its
   position.  TwinProgram.twin_compile has the poryswitch directly in the block of a top-level script.  This file:

   MAIN STATEMENTS (all closed under the global context; pf = the format() operator with format_advs / format_local /
   format_lt, theorems for Format.parse_format; the *_compile theorem is about Compile.compile itself)

   (1) THE SCOPE-STACK LEMMA
   scope_all       for all eleven mutually recursive statement parsers (parse_stmt, parse_block, parse_switch_block, parse_cond,
                   parse_if, parse_elifs, parse_switch, parse_cases, parse_pory, parse_pory_cases, parse_pory_stmts), every fuel:
                   with scope stacks bs' cs' of the same emptiness as bs cs (se; se_iff: bs = [] <-> bs' = []) the parser gives
                   the SAME outcome - same error / panic / fuel exit, same tokens consumed, same inline data - and the same
                   statements up to rt_stmt (hd_error bs') (hd_error cs'): the tag of every FREE break / continue is the top
                   of the new stack (rt_stmt leaves everything else alone: bound break / continue carry the tag of their loop).
                   An EQUATION  P bs' cs' x = rmap (..rt..) (P bs cs x), not only an implication between successes.
   stmt_scopes, block_scopes   the readable instances for parse_stmt / parse_block;  srun_scopes for runs (TwinParse.srun).
   (2) ONE ENCLOSING CONSTRUCT, block level (Section TWIN: a poryswitch at z parsed with the stacks bsz csz, the selected case
       given by its tokens body / ra, rest = adv ts2; premise  csz = [] \/ LC ra rest  where a loop encloses the poryswitch)
   G0              THE renaming: shift sh z (body ++ rest) in front of the poryswitch, sh ra rest inside the case body,
                   identity behind;  G0_inj: injective on the ids in use (okid).
   key_all         renaming with g, then retagging the free break / continue, is renaming with G when g and G agree on the
                   bound ids (tags of loops / switches, command ids) of well scoped statements.
   twin_block_base the block at x contains z directly (run b1 in front), ANY scope stacks: parsed with the renamed stacks
                   map G0 bsz / map G0 csz the twin stream gives  map (g_stmt G0) b, g_imp G0 imp  and ends at the same brace (TWb).
   twin_while_step the body of the `while` statement at w has a twin (TWb with the tag of the loop pushed)  ==>  the while
                   statement has a twin (TWs);   twin_do_step  the same for `do { .. } while (..)`;
                   twin_block_step_in   a statement of the block has a twin ==> the block has.
   (3) ANY DEPTH
   nest            the position of z: directly in the block, or in the body of a `while` / `do ... while` of the block, recursively.
   nest_twin       nest bs cs x ==> TWb bs cs x   (induction over the depth).
   twin_nested_block   block of a script ([] []): exists G injective, parse_block .. (swap z (body ++ rest) x) =
                   Ok (map (g_stmt G) b, g_imp G imp, y).
   twin_nested_program  parse_program (U ++ z) = Ok p1 ==> exists p2, parse_program (U ++ body ++ rest) = Ok p2 with the same
                   TagRename.shape_program, the twin strictly shorter (route of TwinProgram.twin_program_at: one injective
                   renaming, add_implicit_g / pstmts_g, tops_run_context, parse_tops_lists, parse_tops_fuel, dup_mov_shape).
   twin_nested_compile  lex src = U ++ z, lex src' = U ++ body ++ rest, src parses ==> Compile.compile src = Compile.compile src'.
   Examples: twin_nested_compile_example (all hypotheses on a program with a 3-case poryswitch in a while body whose selected
   case ends with a FREE break: the theorem gives the equality of the compile outcomes), .._nontrivial (text output, the two
   parsed programs differ), twin_nested_depth2_example (depth 2: colon-form poryswitch with an inline text as the first
   statement of a while body inside a do-while body, statements behind it).

   NOT PROVED: nesting in the other constructs - bodies of if / elif / else, switch cases (nest has the constructors
   nest_here, nest_while, nest_do only; the scope lemma, key_all, rest_block, twin_block_step_in are construct independent, what is
   missing per construct is the analogue of twin_while_step); (4) inline scripts of mapscripts; the case "original does not
   parse".  The premise LC (TwinParse) is stronger than needed: it asks that a '}' behind the case body is followed by a '}'
   behind the poryswitch for every body, although only a body ending in `continue` needs it (TwinParse.continue_counterexample);
   so with a loop around it, a brace-form case needs the poryswitch to be the last statement of its block. *)
From Coq Require Import List String Ascii ZArith NArith Lia Bool.
From Pory Require Import Lexer Ast Parser Consume Independence.
From Pory Require PorySwitchLists FuelOk TagRename ProgSrc TwinParse.
Import ListNotations.
Open Scope list_scope.

(* ------------------------------------------------------------------------------------------------------------ *)
(* Part 1: the scope stacks.  The statement parsers read of the stacks bs (break scopes) and cs (continue scopes)  *)
(* only (a) whether they are empty and (b) their top element, which becomes the tag of a free break / continue.   *)
(* ------------------------------------------------------------------------------------------------------------ *)

(* rt_stmt ob oc s: the statement s with the tag of every FREE break set to ob (if ob = Some t) and the tag of every
   free continue set to oc; break / continue bound by a loop or switch inside s get the tag of that loop / switch. *)
Fixpoint rt_stmt (ob oc : option nat) (s : stmt) : stmt :=
  match s with
  | SCmd c => SCmd c
  | SLabel n gl tk => SLabel n gl tk
  | SIf conds els => SIf (map (fun cb : bexp * list stmt => (fst cb, map (rt_stmt ob oc) (snd cb))) conds)
                         (match els with Some b => Some (map (rt_stmt ob oc) b) | None => None end)
  | SWhile tg c b => SWhile tg c (map (rt_stmt (Some tg) (Some tg)) b)
  | SDoWhile tg b c => SDoWhile tg (map (rt_stmt (Some tg) (Some tg)) b) c
  | SBreak tg => SBreak (match ob with Some t => t | None => tg end)
  | SContinue tg => SContinue (match oc with Some t => t | None => tg end)
  | SSwitch tg o ol cases =>
      SSwitch tg o ol (map (fun c : scase => (fst c, map (rt_stmt (Some tg) oc) (snd c))) cases)
  end.
Definition rt_elifs ob oc (l : list (bexp * list stmt)) : list (bexp * list stmt) :=
  map (fun cb : bexp * list stmt => (fst cb, map (rt_stmt ob oc) (snd cb))) l.
Definition rt_cases ob oc (l : list scase) : list scase :=
  map (fun c : scase => (fst c, map (rt_stmt ob oc) (snd c))) l.
Definition rt_pcase ob oc (p : text * (list stmt * impdata)) : text * (list stmt * impdata) :=
  (fst p, (map (rt_stmt ob oc) (fst (snd p)), snd (snd p))).

Definition rmap {A B} (F : A -> B) (r : res A) : res B :=
  match r with Ok a => Ok (F a) | Err e => Err e | Panic => Panic | Fuel => Fuel end.

Lemma rmap_if {A B} (F : A -> B) (b : bool) x y : rmap F (if b then x else y) = if b then rmap F x else rmap F y.
Proof. destruct b; reflexivity. Qed.

(* two stacks of the same emptiness *)
Definition se (a b : list nat) : Prop :=
  match a, b with [], [] => True | _ :: _, _ :: _ => True | _, _ => False end.
Lemma se_iff a b : se a b <-> (a = [] <-> b = []).
Proof.
  destruct a, b; cbn; split; try tauto; intros H.
  - destruct H as [H1 _]. discriminate (H1 eq_refl).
  - destruct H as [_ H2]. discriminate (H2 eq_refl).
  - split; discriminate.
Qed.
Lemma se_refl a : se a a.
Proof. destruct a; exact I. Qed.
Lemma se_map g a : se a (map g a).
Proof. destruct a; exact I. Qed.
Lemma se_sym a b : se a b -> se b a.
Proof. destruct a, b; auto. Qed.
Lemma se_trans a b c : se a b -> se b c -> se a c.
Proof. destruct a, b, c; cbn; tauto. Qed.

Lemma assoc_rt_pcase ob oc l k :
  assoc (map (rt_pcase ob oc) l) k =
  match assoc l k with Some (ss, imp) => Some (map (rt_stmt ob oc) ss, imp) | None => None end.
Proof.
  induction l as [|[k' [ss imp]] r IH]; [reflexivity|]. cbn [map rt_pcase fst snd assoc].
  destruct (text_eqb k' k); [reflexivity|exact IH].
Qed.

Section SCOPES.
Variable av : list (text * autovar).
Variable sw : list (text * text).
Variable ee : bool.
Variable pf : toks -> res (token * text * text * toks).
Variable c : list (text * text).

Local Notation P_stmt := (parse_stmt av sw ee pf c).
Local Notation P_block := (parse_block av sw ee pf c).
Local Notation P_swb := (parse_switch_block av sw ee pf c).
Local Notation P_cond := (parse_cond av sw ee pf c).
Local Notation P_if := (parse_if av sw ee pf c).
Local Notation P_elifs := (parse_elifs av sw ee pf c).
Local Notation P_switch := (parse_switch av sw ee pf c).
Local Notation P_cases := (parse_cases av sw ee pf c).
Local Notation P_pory := (parse_pory av sw ee pf c).
Local Notation P_pcases := (parse_pory_cases av sw ee pf c).
Local Notation P_pstmts := (parse_pory_stmts av sw ee pf c).

Local Notation R3 ob oc := (fun r : list stmt * impdata * toks => (map (rt_stmt ob oc) (fst (fst r)), snd (fst r), snd r)).

Definition SC (f : nat) : Prop :=
  (forall script bs cs bs' cs' x, se bs bs' -> se cs cs' ->
     P_stmt f script bs' cs' x = rmap (R3 (hd_error bs') (hd_error cs')) (P_stmt f script bs cs x)) /\
  (forall script bs cs bs' cs' start x acc imp, se bs bs' -> se cs cs' ->
     P_block f script bs' cs' start x (map (rt_stmt (hd_error bs') (hd_error cs')) acc) imp =
     rmap (R3 (hd_error bs') (hd_error cs')) (P_block f script bs cs start x acc imp)) /\
  (forall script bs cs bs' cs' start x acc imp, se bs bs' -> se cs cs' ->
     P_swb f script bs' cs' start x (map (rt_stmt (hd_error bs') (hd_error cs')) acc) imp =
     rmap (R3 (hd_error bs') (hd_error cs')) (P_swb f script bs cs start x acc imp)) /\
  (forall req script bs cs bs' cs' x, se bs bs' -> se cs cs' ->
     P_cond f req script bs' cs' x =
     rmap (fun r : option bexp * list stmt * impdata * toks =>
             (fst (fst (fst r)), map (rt_stmt (hd_error bs') (hd_error cs')) (snd (fst (fst r))), snd (fst r), snd r))
          (P_cond f req script bs cs x)) /\
  (forall script bs cs bs' cs' x, se bs bs' -> se cs cs' ->
     P_if f script bs' cs' x = rmap (R3 (hd_error bs') (hd_error cs')) (P_if f script bs cs x)) /\
  (forall script bs cs bs' cs' x acc imp, se bs bs' -> se cs cs' ->
     P_elifs f script bs' cs' x (rt_elifs (hd_error bs') (hd_error cs') acc) imp =
     rmap (fun r : list (bexp * list stmt) * impdata * toks => (rt_elifs (hd_error bs') (hd_error cs') (fst (fst r)), snd (fst r), snd r))
          (P_elifs f script bs cs x acc imp)) /\
  (forall script bs cs bs' cs' x, se bs bs' -> se cs cs' ->
     P_switch f script bs' cs' x = rmap (R3 (hd_error bs') (hd_error cs')) (P_switch f script bs cs x)) /\
  (forall script bs cs bs' cs' brace x acc seen hasdef imp, se bs bs' -> se cs cs' ->
     P_cases f script bs' cs' brace x (rt_cases (hd_error bs') (hd_error cs') acc) seen hasdef imp =
     rmap (fun r : list scase * impdata * toks => (rt_cases (hd_error bs') (hd_error cs') (fst (fst r)), snd (fst r), snd r))
          (P_cases f script bs cs brace x acc seen hasdef imp)) /\
  (forall script bs cs bs' cs' x, se bs bs' -> se cs cs' ->
     P_pory f script bs' cs' x = rmap (R3 (hd_error bs') (hd_error cs')) (P_pory f script bs cs x)) /\
  (forall script bs cs bs' cs' start x acc, se bs bs' -> se cs cs' ->
     P_pcases f script bs' cs' start x (map (rt_pcase (hd_error bs') (hd_error cs')) acc) =
     rmap (fun r : list (text * (list stmt * impdata)) * toks => (map (rt_pcase (hd_error bs') (hd_error cs')) (fst r), snd r))
          (P_pcases f script bs cs start x acc)) /\
  (forall script bs cs bs' cs' multi x acc imp, se bs bs' -> se cs cs' ->
     P_pstmts f script bs' cs' multi x (map (rt_stmt (hd_error bs') (hd_error cs')) acc) imp =
     rmap (R3 (hd_error bs') (hd_error cs')) (P_pstmts f script bs cs multi x acc imp)).

Section STEP.
Variable f : nat.
Hypothesis IH : SC f.
Let Istmt := proj1 IH.
Let Iblock := proj1 (proj2 IH).
Let Iswb := proj1 (proj2 (proj2 IH)).
Let Icond := proj1 (proj2 (proj2 (proj2 IH))).
Let Iif := proj1 (proj2 (proj2 (proj2 (proj2 IH)))).
Let Ielifs := proj1 (proj2 (proj2 (proj2 (proj2 (proj2 IH))))).
Let Iswitch := proj1 (proj2 (proj2 (proj2 (proj2 (proj2 (proj2 IH)))))).
Let Icases := proj1 (proj2 (proj2 (proj2 (proj2 (proj2 (proj2 (proj2 IH))))))).
Let Ipory := proj1 (proj2 (proj2 (proj2 (proj2 (proj2 (proj2 (proj2 (proj2 IH)))))))).
Let Ipcases := proj1 (proj2 (proj2 (proj2 (proj2 (proj2 (proj2 (proj2 (proj2 (proj2 IH))))))))).
Let Ipstmts := proj2 (proj2 (proj2 (proj2 (proj2 (proj2 (proj2 (proj2 (proj2 (proj2 IH))))))))).

Ltac pairs := repeat match goal with p : (_ * _)%type |- _ => destruct p end.
Ltac tw_b b :=
  lazymatch b with
  | ?t :: ?r => let r' := tw_b r in constr:(t :: r')
  | _ => match goal with H : se b ?b' |- _ => b' end
  end.
Ltac se_tac := first [assumption | exact I].
Ltac nrmQ Q :=
  unfold rt_elifs, rt_cases in Q; repeat rewrite map_app in Q; cbn [map hd_error fst snd] in Q.
Ltac use_ih s :=
  let Q := fresh "Q" in
  lazymatch s with
  | parse_stmt _ _ _ _ _ _ ?sc ?bs ?cs ?x =>
      let b2 := tw_b bs in let c2 := tw_b cs in
      pose proof (Istmt sc bs cs b2 c2 x ltac:(se_tac) ltac:(se_tac)) as Q
  | parse_block _ _ _ _ _ _ ?sc ?bs ?cs ?st ?x ?acc ?imp =>
      let b2 := tw_b bs in let c2 := tw_b cs in
      pose proof (Iblock sc bs cs b2 c2 st x acc imp ltac:(se_tac) ltac:(se_tac)) as Q
  | parse_switch_block _ _ _ _ _ _ ?sc ?bs ?cs ?st ?x ?acc ?imp =>
      let b2 := tw_b bs in let c2 := tw_b cs in
      pose proof (Iswb sc bs cs b2 c2 st x acc imp ltac:(se_tac) ltac:(se_tac)) as Q
  | parse_cond _ _ _ _ _ _ ?req ?sc ?bs ?cs ?x =>
      let b2 := tw_b bs in let c2 := tw_b cs in
      pose proof (Icond req sc bs cs b2 c2 x ltac:(se_tac) ltac:(se_tac)) as Q
  | parse_if _ _ _ _ _ _ ?sc ?bs ?cs ?x =>
      let b2 := tw_b bs in let c2 := tw_b cs in
      pose proof (Iif sc bs cs b2 c2 x ltac:(se_tac) ltac:(se_tac)) as Q
  | parse_elifs _ _ _ _ _ _ ?sc ?bs ?cs ?x ?acc ?imp =>
      let b2 := tw_b bs in let c2 := tw_b cs in
      pose proof (Ielifs sc bs cs b2 c2 x acc imp ltac:(se_tac) ltac:(se_tac)) as Q
  | parse_switch _ _ _ _ _ _ ?sc ?bs ?cs ?x =>
      let b2 := tw_b bs in let c2 := tw_b cs in
      pose proof (Iswitch sc bs cs b2 c2 x ltac:(se_tac) ltac:(se_tac)) as Q
  | parse_cases _ _ _ _ _ _ ?sc ?bs ?cs ?br ?x ?acc ?seen ?hdf ?imp =>
      let b2 := tw_b bs in let c2 := tw_b cs in
      pose proof (Icases sc bs cs b2 c2 br x acc seen hdf imp ltac:(se_tac) ltac:(se_tac)) as Q
  | parse_pory _ _ _ _ _ _ ?sc ?bs ?cs ?x =>
      let b2 := tw_b bs in let c2 := tw_b cs in
      pose proof (Ipory sc bs cs b2 c2 x ltac:(se_tac) ltac:(se_tac)) as Q
  | parse_pory_cases _ _ _ _ _ _ ?sc ?bs ?cs ?st ?x ?acc =>
      let b2 := tw_b bs in let c2 := tw_b cs in
      pose proof (Ipcases sc bs cs b2 c2 st x acc ltac:(se_tac) ltac:(se_tac)) as Q
  | parse_pory_stmts _ _ _ _ _ _ ?sc ?bs ?cs ?mu ?x ?acc ?imp =>
      let b2 := tw_b bs in let c2 := tw_b cs in
      pose proof (Ipstmts sc bs cs b2 c2 mu x acc imp ltac:(se_tac) ltac:(se_tac)) as Q
  end;
  nrmQ Q; rewrite Q; clear Q.
Ltac nrmG :=
  unfold err_tok, err_range, rt_elifs, rt_cases; cbn [rmap negb andb orb]; cbv beta iota zeta; cbn [fst snd].
Ltac sstep :=
  nrmG;
  lazymatch goal with
  | |- _ = rmap _ (match ?X with _ => _ end) =>
      let s := scrut X in
      try use_ih s; try (match goal with QC : forall br y, _ = _ |- _ => rewrite QC end); destruct s eqn:?; pairs
  end.
Ltac fin_ih := lazymatch goal with |- _ = rmap _ ?X => use_ih X; unfold rt_elifs, rt_cases; reflexivity end.
Ltac sgo := repeat sstep; nrmG; try (lazymatch goal with |- _ = rmap _ _ => fail | |- _ => reflexivity end).

Lemma sc_stmt script bs cs bs' cs' x : se bs bs' -> se cs cs' ->
  P_stmt (S f) script bs' cs' x = rmap (R3 (hd_error bs') (hd_error cs')) (P_stmt (S f) script bs cs x).
Proof.
  intros Hb Hc. rewrite !parse_stmt_unfold. destruct (ttype (cur x)) eqn:TY; try (nrmG; reflexivity).
  - (* IDENT *)
    destruct (try_label x) as [[l ts1]|] eqn:TL.
    + nrmG. unfold try_label in TL. destruct (peekis COLON x); [inversion TL; reflexivity|].
      destruct (peekis LPAREN x && _ && _ && _); inversion TL; reflexivity.
    + sgo.
  - (* IF *) apply Iif; assumption.
  - (* WHILE *) sgo.
  - (* DO *) sgo.
  - (* BREAK *) destruct bs, bs'; try contradiction; nrmG; reflexivity.
  - (* CONTINUE *) destruct cs, cs'; try contradiction; nrmG; [reflexivity|]. destruct (peekis RBRACE x); reflexivity.
  - apply Iswitch; assumption.
  - apply Ipory; assumption.
Qed.

Lemma sc_block script bs cs bs' cs' start x acc imp : se bs bs' -> se cs cs' ->
  P_block (S f) script bs' cs' start x (map (rt_stmt (hd_error bs') (hd_error cs')) acc) imp =
  rmap (R3 (hd_error bs') (hd_error cs')) (P_block (S f) script bs cs start x acc imp).
Proof. intros Hb Hc. rewrite !parse_block_unfold. sgo. fin_ih. Qed.

Lemma sc_swb script bs cs bs' cs' start x acc imp : se bs bs' -> se cs cs' ->
  P_swb (S f) script bs' cs' start x (map (rt_stmt (hd_error bs') (hd_error cs')) acc) imp =
  rmap (R3 (hd_error bs') (hd_error cs')) (P_swb (S f) script bs cs start x acc imp).
Proof. intros Hb Hc. rewrite !parse_switch_block_unfold. sgo. fin_ih. Qed.

Lemma sc_cond req script bs cs bs' cs' x : se bs bs' -> se cs cs' ->
  P_cond (S f) req script bs' cs' x =
  rmap (fun r : option bexp * list stmt * impdata * toks =>
          (fst (fst (fst r)), map (rt_stmt (hd_error bs') (hd_error cs')) (snd (fst (fst r))), snd (fst r), snd r))
       (P_cond (S f) req script bs cs x).
Proof. intros Hb Hc. rewrite !parse_cond_unfold. sgo. Qed.

Lemma sc_if script bs cs bs' cs' x : se bs bs' -> se cs cs' ->
  P_if (S f) script bs' cs' x = rmap (R3 (hd_error bs') (hd_error cs')) (P_if (S f) script bs cs x).
Proof. intros Hb Hc. rewrite !parse_if_unfold. sgo. Qed.

Lemma sc_elifs script bs cs bs' cs' x acc imp : se bs bs' -> se cs cs' ->
  P_elifs (S f) script bs' cs' x (rt_elifs (hd_error bs') (hd_error cs') acc) imp =
  rmap (fun r : list (bexp * list stmt) * impdata * toks => (rt_elifs (hd_error bs') (hd_error cs') (fst (fst r)), snd (fst r), snd r))
       (P_elifs (S f) script bs cs x acc imp).
Proof. intros Hb Hc. rewrite !parse_elifs_unfold. sgo. fin_ih. Qed.

Lemma sc_switch script bs cs bs' cs' x : se bs bs' -> se cs cs' ->
  P_switch (S f) script bs' cs' x = rmap (R3 (hd_error bs') (hd_error cs')) (P_switch (S f) script bs cs x).
Proof. intros Hb Hc. rewrite !parse_switch_unfold.
  assert (QC : forall br y, P_cases f script (len x :: bs') cs' br y [] [] false imp0 =
     rmap (fun r : list scase * impdata * toks => (rt_cases (Some (len x)) (hd_error cs') (fst (fst r)), snd (fst r), snd r))
          (P_cases f script (len x :: bs) cs br y [] [] false imp0)).
  { intros br y. exact (Icases script (len x :: bs) cs (len x :: bs') cs' br y [] [] false imp0 I Hc). }
  sgo. Qed.

Lemma sc_cases script bs cs bs' cs' brace x acc seen hasdef imp : se bs bs' -> se cs cs' ->
  P_cases (S f) script bs' cs' brace x (rt_cases (hd_error bs') (hd_error cs') acc) seen hasdef imp =
  rmap (fun r : list scase * impdata * toks => (rt_cases (hd_error bs') (hd_error cs') (fst (fst r)), snd (fst r), snd r))
       (P_cases (S f) script bs cs brace x acc seen hasdef imp).
Proof. intros Hb Hc. rewrite !parse_cases_unfold. sgo.
  all: lazymatch goal with |- _ = rmap _ (parse_cases _ _ _ _ _ _ ?s1 ?b1 ?c1 ?br ?y ?a1 ?sn ?h1 ?i1) =>
         pose proof (Icases s1 b1 c1 bs' cs' br y a1 sn h1 i1 Hb Hc) as Q; nrmQ Q; exact Q end.
Qed.

Lemma sc_pory script bs cs bs' cs' x : se bs bs' -> se cs cs' ->
  P_pory (S f) script bs' cs' x = rmap (R3 (hd_error bs') (hd_error cs')) (P_pory (S f) script bs cs x).
Proof.
  intros Hb Hc. rewrite !parse_pory_unfold. cbv zeta.
  destruct (poryswitch_header sw ee x) as [[[sc sv] ts1]| | |]; try reflexivity.
  pose proof (Ipcases script bs cs bs' cs' (cur ts1) ts1 [] Hb Hc) as Q. cbn [map] in Q. rewrite Q. clear Q.
  destruct (P_pcases f script bs cs (cur ts1) ts1 []) as [[cases ts2]| | |]; try reflexivity.
  cbn [rmap fst snd]. rewrite !assoc_rt_pcase.
  destruct (assoc cases (sval sv)) as [[ss imp]|]; [reflexivity|].
  destruct (assoc cases (t "_")) as [[ss imp]|]; [reflexivity|].
  rewrite rmap_if. reflexivity.
Qed.

Lemma sc_pcases script bs cs bs' cs' start x acc : se bs bs' -> se cs cs' ->
  P_pcases (S f) script bs' cs' start x (map (rt_pcase (hd_error bs') (hd_error cs')) acc) =
  rmap (fun r : list (text * (list stmt * impdata)) * toks => (map (rt_pcase (hd_error bs') (hd_error cs')) (fst r), snd r))
       (P_pcases (S f) script bs cs start x acc).
Proof.
  intros Hb Hc. rewrite !parse_pory_cases_unfold. sgo.
  all: lazymatch goal with |- _ = rmap _ (parse_pory_cases _ _ _ _ _ _ ?s1 ?b1 ?c1 ?st ?y ?a1) =>
         pose proof (Ipcases s1 b1 c1 bs' cs' st y a1 Hb Hc) as Q; cbn [map rt_pcase fst snd] in Q; exact Q end.
Qed.

Lemma sc_pstmts script bs cs bs' cs' multi x acc imp : se bs bs' -> se cs cs' ->
  P_pstmts (S f) script bs' cs' multi x (map (rt_stmt (hd_error bs') (hd_error cs')) acc) imp =
  rmap (R3 (hd_error bs') (hd_error cs')) (P_pstmts (S f) script bs cs multi x acc imp).
Proof.
  intros Hb Hc. rewrite !parse_pory_stmts_unfold. sgo.
  all: try (rewrite map_app; reflexivity).
  all: rewrite <- map_app; apply Ipstmts; assumption.
Qed.

End STEP.

(* (1) THE SCOPE-STACK LEMMA, all eleven statement parsers at once *)
Theorem scope_all : forall f, SC f.
Proof.
  induction f as [|f IH].
  - unfold SC. repeat split; intros; reflexivity.
  - unfold SC.
    split; [intros; apply sc_stmt; assumption|]. split; [intros; apply sc_block; assumption|].
    split; [intros; apply sc_swb; assumption|]. split; [intros; apply sc_cond; assumption|].
    split; [intros; apply sc_if; assumption|]. split; [intros; apply sc_elifs; assumption|].
    split; [intros; apply sc_switch; assumption|]. split; [intros; apply sc_cases; assumption|].
    split; [intros; apply sc_pory; assumption|]. split; [intros; apply sc_pcases; assumption|].
    intros; apply sc_pstmts; assumption.
Qed.

(* readable instances: a statement / a block parsed with other scope stacks of the same emptiness: same outcome (also the
   same error), same tokens consumed, same inline data, same statements up to the tags of the free break / continue *)
Theorem stmt_scopes f script bs cs bs' cs' x : (bs = [] <-> bs' = []) -> (cs = [] <-> cs' = []) ->
  P_stmt f script bs' cs' x =
  match P_stmt f script bs cs x with
  | Ok (ss, imp, y) => Ok (map (rt_stmt (hd_error bs') (hd_error cs')) ss, imp, y)
  | Err e => Err e | Panic => Panic | Fuel => Fuel end.
Proof.
  intros Hb Hc. apply se_iff in Hb. apply se_iff in Hc. rewrite (proj1 (scope_all f) script bs cs bs' cs' x Hb Hc).
  destruct (P_stmt f script bs cs x) as [[[ss imp] y]| | |]; reflexivity.
Qed.

Theorem block_scopes f script bs cs bs' cs' start x : (bs = [] <-> bs' = []) -> (cs = [] <-> cs' = []) ->
  P_block f script bs' cs' start x [] imp0 =
  match P_block f script bs cs start x [] imp0 with
  | Ok (ss, imp, y) => Ok (map (rt_stmt (hd_error bs') (hd_error cs')) ss, imp, y)
  | Err e => Err e | Panic => Panic | Fuel => Fuel end.
Proof.
  intros Hb Hc. apply se_iff in Hb. apply se_iff in Hc.
  pose proof (proj1 (proj2 (scope_all f)) script bs cs bs' cs' start x [] imp0 Hb Hc) as Q. cbn [map] in Q. rewrite Q.
  destruct (P_block f script bs cs start x [] imp0) as [[[ss imp] y]| | |]; reflexivity.
Qed.

Lemma stmt_scopes_ok f script bs cs bs' cs' x ss imp y : se bs bs' -> se cs cs' ->
  P_stmt f script bs cs x = Ok (ss, imp, y) ->
  P_stmt f script bs' cs' x = Ok (map (rt_stmt (hd_error bs') (hd_error cs')) ss, imp, y).
Proof. intros Hb Hc H. rewrite (proj1 (scope_all f) script bs cs bs' cs' x Hb Hc), H. reflexivity. Qed.

Lemma block_scopes_ok f script bs cs bs' cs' start x acc i ss imp y : se bs bs' -> se cs cs' ->
  P_block f script bs cs start x acc i = Ok (ss, imp, y) ->
  P_block f script bs' cs' start x (map (rt_stmt (hd_error bs') (hd_error cs')) acc) i =
  Ok (map (rt_stmt (hd_error bs') (hd_error cs')) ss, imp, y).
Proof. intros Hb Hc H. rewrite (proj1 (proj2 (scope_all f)) script bs cs bs' cs' start x acc i Hb Hc), H. reflexivity. Qed.

End SCOPES.


(* ------------------------------------------------------------------------------------------------------------ *)
(* Part 2a: retagging after a renaming.  For well scoped statements (free break / continue carry bt / lt), renaming *)
(* with g and then setting the free tags to G bt / G lt is renaming with G, when g and G agree on the BOUND ids    *)
(* (tags of loops / switches, command ids).                                                                        *)
(* ------------------------------------------------------------------------------------------------------------ *)
From Pory Require Tr Worklist HoistProgram LabelSim.
Section KEY.
Variables g G : nat -> nat.

Lemma g_bexp_ext_cmds e : (forall c, In c (HoistProgram.bexp_cmds e) -> g (cid c) = G (cid c)) -> g_bexp g e = g_bexp G e.
Proof.
  induction e as [l|o a IHa b IHb]; intros H; cbn [g_bexp].
  - f_equal. unfold g_leaf. f_equal. cbn [HoistProgram.bexp_cmds] in H. destruct (lpre l) as [c0|]; [|reflexivity].
    cbn [g_ocmd]. f_equal. unfold g_cmd. f_equal. apply H. left. reflexivity.
  - cbn [HoistProgram.bexp_cmds] in H. rewrite IHa, IHb; [reflexivity| |]; intros c0 Hc; apply H; apply in_or_app; auto.
Qed.

Definition KP (s : stmt) : Prop := forall bt lt, Tr.scoped1 bt lt s ->
  (forall n, In n (Worklist.tags1 s) -> g n = G n) -> (forall c, In c (HoistProgram.stmt_cmds s) -> g (cid c) = G (cid c)) ->
  rt_stmt (option_map G bt) (option_map G lt) (g_stmt g s) = g_stmt G s.
Definition KQ (ss : list stmt) : Prop := forall bt lt, Tr.scoped bt lt ss ->
  (forall n, In n (Worklist.tags ss) -> g n = G n) -> (forall c, In c (HoistProgram.cmds ss) -> g (cid c) = G (cid c)) ->
  map (rt_stmt (option_map G bt) (option_map G lt)) (map (g_stmt g) ss) = map (g_stmt G) ss.

Lemma key_all : forall ss, KQ ss.
Proof.
  apply (LabelSim.stmts_ind2 KP KQ).
  - intros bt lt _ _ _. reflexivity.
  - intros s r Hs Hr bt lt S HT HC. inversion S as [|? ? ? ? Sa Sb]; subst. cbn [map]. cbn [Worklist.tags] in HT.
    rewrite HoistProgram.cmds_cons in HC. f_equal.
    + apply Hs; [exact Sa| |]; intros; [apply HT|apply HC]; apply in_or_app; left; assumption.
    + apply Hr; [exact Sb| |]; intros; [apply HT|apply HC]; apply in_or_app; right; assumption.
  - intros c0 bt lt _ _ HC. cbn [g_stmt rt_stmt]. f_equal. unfold g_cmd. f_equal. apply HC. left. reflexivity.
  - intros n gl tk bt lt _ _ _. reflexivity.
  - intros conds els Hc He bt lt S HT HC. inversion S as [| | | |? ? ? ? SC SO| | |]; subst.
    rewrite Worklist.tags1_if in HT. rewrite HoistProgram.stmt_cmds_if in HC. cbn [g_stmt rt_stmt]. f_equal.
    + assert (HT1 : forall n, In n (Worklist.tags_conds conds) -> g n = G n) by (intros; apply HT; apply in_or_app; left; assumption).
      assert (HC1 : forall c0, In c0 (HoistProgram.conds_cmds conds) -> g (cid c0) = G (cid c0)) by (intros; apply HC; apply in_or_app; left; assumption).
      clear HT HC SO He S. rewrite map_map. cbn [fst snd].
      induction Hc as [|[e b] r Hb _ IH]; [reflexivity|]. inversion SC as [|? ? ? ? ? Sb Sr]; subst. cbn [map fst snd].
      unfold Worklist.tags_conds in HT1. cbn [map List.concat snd] in HT1.
      unfold HoistProgram.conds_cmds in HC1. cbn [flat_map fst snd] in HC1. f_equal.
      * f_equal.
        -- apply g_bexp_ext_cmds. intros c0 Hx. apply HC1. apply in_or_app. left. apply in_or_app. left. exact Hx.
        -- apply Hb; [exact Sb| |]; intros; [apply HT1; apply in_or_app; left; assumption|].
           apply HC1. apply in_or_app. left. apply in_or_app. right. assumption.
      * apply IH; [exact Sr| |]; intros; [apply HT1|apply HC1]; apply in_or_app; right; assumption.
    + destruct els as [b|]; [|reflexivity]. inversion SO; subst. f_equal. apply He; [assumption| |]; intros;
        [apply HT|apply HC]; apply in_or_app; right; assumption.
  - intros tg c0 b Hb bt lt S HT HC. inversion S; subst. rewrite Worklist.tags1_while in HT. cbn [HoistProgram.stmt_cmds] in HC.
    cbn [g_stmt rt_stmt]. rewrite (HT tg (or_introl eq_refl)). f_equal.
    + destruct c0 as [e|]; [|reflexivity]. cbn [g_obexp]. f_equal. apply g_bexp_ext_cmds. intros c1 Hx. apply HC. apply in_or_app. left. exact Hx.
    + apply (Hb (Some tg) (Some tg)); [assumption| |]; intros; [apply HT; right; assumption|apply HC; apply in_or_app; right; assumption].
  - intros tg b c0 Hb bt lt S HT HC. inversion S; subst. rewrite Worklist.tags1_dowhile in HT. cbn [HoistProgram.stmt_cmds] in HC.
    cbn [g_stmt rt_stmt]. rewrite (HT tg (or_introl eq_refl)). f_equal.
    + apply (Hb (Some tg) (Some tg)); [assumption| |]; intros; [apply HT; right; assumption|apply HC; apply in_or_app; left; assumption].
    + apply g_bexp_ext_cmds. intros c1 Hx. apply HC. apply in_or_app. right. exact Hx.
  - intros tg bt lt S _ _. inversion S; subst. reflexivity.
  - intros tg bt lt S _ _. inversion S; subst. reflexivity.
  - intros tg o ol cases Hc bt lt S HT HC. inversion S as [| | | | | | |? ? ? ? ? ? SC]; subst.
    rewrite Worklist.tags1_switch in HT. rewrite HoistProgram.stmt_cmds_switch in HC. cbn [g_stmt rt_stmt].
    rewrite (HT tg (or_introl eq_refl)). f_equal.
    assert (HT1 : forall n, In n (Worklist.tags_cases cases) -> g n = G n) by (intros; apply HT; right; assumption).
    clear HT S. rewrite map_map. cbn [fst snd].
    induction Hc as [|c0 r Hb _ IH]; [reflexivity|]. inversion SC as [|? ? ? ? Sb Sr]; subst. cbn [map].
    unfold Worklist.tags_cases in HT1. cbn [map List.concat] in HT1.
    unfold HoistProgram.cases_cmds in HC. cbn [flat_map] in HC. f_equal.
    + destruct c0 as [[[d v] l] b]. cbn [fst snd]. f_equal. apply (Hb (Some tg) lt); [exact Sb| |]; intros;
        [apply HT1|apply HC]; apply in_or_app; left; assumption.
    + apply IH; [|exact Sr|]; intros; [apply HC|apply HT1]; apply in_or_app; right; assumption.
Qed.
End KEY.

(* ------------------------------------------------------------------------------------------------------------ *)
(* Part 2b: where the BOUND ids (tags of loops / switches, command ids, ids of inline data) of parsed statements   *)
(* lie, for any scope stacks; the free break / continue carry the top of the stacks (ParseWf.wf_all).              *)
(* ------------------------------------------------------------------------------------------------------------ *)
From Pory Require TwinProgram SrcWf ParseWf.

Definition bnd (P : nat -> Prop) (ss : list stmt) (imp : impdata) : Prop :=
  (forall n, In n (Worklist.tags ss) -> P n) /\ (forall c0, In c0 (HoistProgram.cmds ss) -> P (cid c0)) /\
  (forall n, In n (TwinProgram.imp_ids imp) -> P n).

Lemma bnd_nil P : bnd P [] imp0.
Proof. split; [|split]; intros ? []. Qed.
Lemma bnd_app P a i b j : bnd P a i -> bnd P b j -> bnd P (a ++ b) (impadd i j).
Proof.
  intros (A1 & A2 & A3) (B1 & B2 & B3). split; [|split].
  - intros n Hn. rewrite Worklist.tags_app in Hn. apply in_app_or in Hn. destruct Hn; auto.
  - intros c0 Hn. rewrite HoistProgram.cmds_app in Hn. apply in_app_or in Hn. destruct Hn; auto.
  - intros n Hn. apply TwinProgram.imp_ids_add in Hn. destruct Hn; auto.
Qed.
Lemma bnd_weaken (P Q : nat -> Prop) ss imp : (forall n, P n -> Q n) -> bnd P ss imp -> bnd Q ss imp.
Proof. intros H (A1 & A2 & A3). split; [|split]; intros; apply H; auto. Qed.

(* all ids (also the tags of free break / continue) of well scoped statements *)
Lemma ids_of_bnd (P : nat -> Prop) bt lt ss imp : Tr.scoped bt lt ss -> bnd P ss imp ->
  (forall t0, bt = Some t0 -> P t0) -> (forall t0, lt = Some t0 -> P t0) -> forall n, In n (TwinProgram.ids ss) -> P n.
Proof.
  intros S (A1 & A2 & _) Hb Hl n Hn. unfold TwinProgram.ids in Hn. apply in_app_or in Hn. destruct Hn as [Hn|Hn].
  - destruct (TagRename.sub_all ss bt lt S n Hn) as [B|[B|B]]; auto.
  - apply in_map_iff in Hn. destruct Hn as (c0 & <- & Hc). auto.
Qed.

Lemma hd_error_map {A B} (F : A -> B) l : hd_error (map F l) = option_map F (hd_error l).
Proof. destruct l; reflexivity. Qed.

Section IDS.
Variable av : list (text * autovar).
Variable sw : list (text * text).
Variable ee : bool.
Variable pf : toks -> res (token * text * text * toks).
Variable c : list (text * text).
Hypothesis pf_advs : format_advs pf.
Local Notation P_stmt := (parse_stmt av sw ee pf c).
Local Notation P_block := (parse_block av sw ee pf c).
Local Notation srun := (TwinParse.srun av sw ee pf c).

Lemma stmt_bnd f script bs cs x ss imp y : eof_ended x -> P_stmt f script bs cs x = Ok (ss, imp, y) ->
  bnd (fun n => len y <= n <= len x)%nat ss imp /\ Tr.scoped (hd_error bs) (hd_error cs) ss.
Proof.
  intros E H.
  destruct (SrcWf.gw_all av sw pf c pf_advs ee f) as (Gstmt & _).
  destruct (ParseWf.wf_all av sw ee pf c f) as (Wstmt & _).
  destruct (HoistProgram.pi_all av sw ee pf pf_advs x c f) as (Pstmt & _).
  pose proof (Gstmt _ _ _ _ _ _ _ E H) as (_ & GT & _).
  pose proof (Pstmt _ _ _ _ _ _ _ (advs_refl x) H) as SP.
  destruct (TwinProgram.span_ids _ _ _ _ _ _ _ _ _ SP) as [C1 C2].
  split; [|exact (Wstmt _ _ _ _ _ _ _ H)]. split; [|split].
  - intros n Hn. rewrite Forall_forall in GT. specialize (GT n Hn). lia.
  - intros c0 Hc. apply C1. apply in_map. exact Hc.
  - exact C2.
Qed.

Lemma srun_bnd script bs cs x ss imp z : srun script bs cs x ss imp z -> eof_ended x ->
  bnd (fun n => len z < n <= len x)%nat ss imp /\ Tr.scoped (hd_error bs) (hd_error cs) ss.
Proof.
  induction 1 as [x|x f ss imp y ss' imp' z B H L R IH]; intros E.
  - split; [apply bnd_nil|constructor].
  - pose proof (TwinParse.a_stmt2 av sw ee pf c pf_advs _ _ _ _ _ _ _ _ H) as A.
    assert (E' : eof_ended (adv y)) by (eapply advs_eof; [apply advs_adv_r; exact A|exact E]).
    destruct (IH E') as [I1 I2]. destruct (stmt_bnd _ _ _ _ _ _ _ _ E H) as [S1 S2].
    pose proof (advs_len _ _ (TwinParse.srun_advs av sw ee pf c pf_advs _ _ _ _ _ _ _ R)) as Lz.
    pose proof (advs_len _ _ A) as Ly.
    assert (La : (len (adv y) < len y)%nat) by (destruct y as [|a [|b r]]; cbn in L |- *; lia).
    split; [|apply ParseWf.scoped_app; assumption].
    apply bnd_app; [eapply bnd_weaken; [|exact S1]|eapply bnd_weaken; [|exact I1]]; cbv beta; intros; lia.
Qed.

Lemma block_bnd f script bs cs start x b imp y : eof_ended x ->
  P_block f script bs cs start x [] imp0 = Ok (b, imp, y) ->
  bnd (fun n => n <= len x)%nat b imp /\ Tr.scoped (hd_error bs) (hd_error cs) b.
Proof.
  intros E H.
  destruct (SrcWf.gw_all av sw pf c pf_advs ee f) as (_ & Gblock & _).
  destruct (ParseWf.wf_all av sw ee pf c f) as (_ & Wblock & _).
  destruct (HoistProgram.pi_all av sw ee pf pf_advs x c f) as (_ & Pblock & _).
  pose proof (Gblock _ _ _ _ _ _ _ _ _ _ (len x) E H (Nat.le_refl _) (SrcWf.good_nil _ _)) as (_ & GT & _).
  pose proof (Pblock _ _ _ _ _ _ _ _ _ _ (len x) (advs_refl x) H (HoistProgram.pre_nil sw ee pf x script (len x) (len x)) (Nat.le_refl _)) as SP.
  apply HoistProgram.pre_span in SP.
  destruct (TwinProgram.span_ids _ _ _ _ _ _ _ _ _ SP) as [C1 C2].
  split; [|eapply Wblock; [exact H|constructor]]. split; [|split].
  - intros n Hn. rewrite Forall_forall in GT. specialize (GT n Hn). lia.
  - intros c0 Hc. specialize (C1 (cid c0) (in_map _ _ _ Hc)). lia.
  - intros n Hn. specialize (C2 n Hn). lia.
Qed.

(* a run of statements with other scope stacks of the same emptiness *)
Lemma srun_scopes script bs cs bs' cs' x ss imp z : se bs bs' -> se cs cs' -> srun script bs cs x ss imp z ->
  srun script bs' cs' x (map (rt_stmt (hd_error bs') (hd_error cs')) ss) imp z.
Proof.
  intros Hb Hc. induction 1 as [x|x f ss imp y ss' imp' z B H L R IH]; [constructor|].
  rewrite map_app. econstructor; [exact B| |exact L|exact IH].
  apply (stmt_scopes_ok av sw ee pf c f script bs cs bs' cs' x ss imp y Hb Hc H).
Qed.
End IDS.

(* ------------------------------------------------------------------------------------------------------------ *)
(* Part 2c: the twin of a block, any scope stacks.  Context: a statement poryswitch at z, parsed with the scope     *)
(* stacks bsz csz; the selected case given by its tokens body (followed by ra); rest = the tokens behind the        *)
(* closing brace of the poryswitch.  The twin of a stream  u ++ z  is  u ++ body ++ rest.                           *)
(* ------------------------------------------------------------------------------------------------------------ *)
Section TWIN.
Variable av : list (text * autovar).
Variable sw : list (text * text).
Variable ee : bool.
Variable pf : toks -> res (token * text * text * toks).
Variable c : list (text * text).
Hypothesis pf_advs : format_advs pf.
Hypothesis pf_local : format_local pf.
Hypothesis pf_lt : format_lt pf.
Local Notation P_stmt := (parse_stmt av sw ee pf c).
Local Notation P_block := (parse_block av sw ee pf c).
Local Notation P_cond := (parse_cond av sw ee pf c).
Local Notation P_pcases := (parse_pory_cases av sw ee pf c).
Local Notation srun := (TwinParse.srun av sw ee pf c).

Variable script : text.
Variables z body ra rest : toks.
Variables bsz csz : list nat.
Variable scn : text.
Variable sv : option text.
Variables ts1 ts2 : toks.
Variable F : nat.
Variable cases : list (text * (list stmt * impdata)).
Variable ss : list stmt.
Variable imp' : impdata.
Hypothesis Ez : eof_ended z.
Hypothesis CP : curis PORYSWITCH z = true.
Hypothesis HH : poryswitch_header sw ee z = Ok (scn, sv, ts1).
Hypothesis BF : (5 * len z <= F)%nat.
Hypothesis HC : P_pcases F script bsz csz (cur ts1) ts1 [] = Ok (cases, ts2).
Hypothesis SEL : PorySwitchLists.pory_select cases sv = Some (ss, imp').
Hypothesis AB : advs ts1 (body ++ ra).
Hypothesis RR : srun script bsz csz (body ++ ra) ss imp' ra.
Hypothesis AR : advs ra ts2.
Hypothesis RAK : curis RBRACE ra = true \/ curis IDENT ra = true \/ curis INT ra = true.
Hypothesis Drest : rest = adv ts2.
Hypothesis HLC : csz = [] \/ TwinParse.LC ra rest.
Hypothesis Hbz : Forall (fun n => len z < n)%nat bsz.
Hypothesis Hcz : Forall (fun n => len z < n)%nat csz.

Local Notation tw := (body ++ rest).
Local Notation s1 := (sh z (body ++ rest)).
Local Notation s2 := (sh ra rest).
Local Notation swp := (swap z (body ++ rest)).

(* THE renaming: shift s1 in front of the poryswitch, s2 inside the case body, identity behind *)
Definition G0 (n : nat) : nat := if (len z <? n)%nat then s1 n else if (len ra <? n)%nat then s2 n else n.
Definition okid (n : nat) : Prop := (len z < n)%nat \/ (len ra < n <= len body + len ra)%nat \/ (n <= len rest)%nat.

Lemma G0_hi n : (len z < n)%nat -> G0 n = s1 n.
Proof. intros H. unfold G0. destruct (Nat.ltb_spec (len z) n); [reflexivity|lia]. Qed.
Lemma G0_mid n : (len ra < n <= len z)%nat -> G0 n = s2 n.
Proof. intros H. unfold G0. destruct (Nat.ltb_spec (len z) n); [lia|]. destruct (Nat.ltb_spec (len ra) n); [reflexivity|lia]. Qed.

Lemma Az1 : advs z ts1.
Proof. eapply poryswitch_header_advs; [exact HH|apply advs_refl]. Qed.
Lemma Ets1 : eof_ended ts1. Proof. eapply advs_eof; [exact Az1|exact Ez]. Qed.
Lemma Ebody : eof_ended (body ++ ra). Proof. eapply advs_eof; [exact AB|exact Ets1]. Qed.
Lemma ARR : advs (body ++ ra) ra. Proof. eapply TwinParse.srun_advs; [exact pf_advs|exact RR]. Qed.
Lemma Era : eof_ended ra. Proof. eapply advs_eof; [exact ARR|exact Ebody]. Qed.
Lemma Ets2 : eof_ended ts2. Proof. eapply advs_eof; [exact AR|exact Era]. Qed.
Lemma Erest : eof_ended rest. Proof. rewrite Drest. eapply advs_eof; [apply advs_adv_r, advs_refl|exact Ets2]. Qed.
Lemma RB2 : curis RBRACE ts2 = true.
Proof.
  pose proof (FuelOk.poryswitch_header_lt _ _ _ _ _ _ HH Ez) as L1.
  assert (B1 : (5 * len ts1 <= F)%nat) by lia.
  destruct (TwinParse.cases_table_acc av sw ee pf c pf_advs pf_lt _ _ _ _ _ _ _ _ _ Ets1 B1 HC) as (l0 & _ & RB0 & _). exact RB0.
Qed.
Lemma Lr : (len rest < len ra)%nat.
Proof.
  assert (NE2 : ttype (cur ts2) <> EOF) by (apply TwinParse.curis_eof_ne; eapply TwinParse.curis_excl; [exact RB2|discriminate]).
  pose proof (adv_strict ts2 Ets2 NE2) as S2. pose proof (advs_len _ _ AR) as S3. rewrite Drest. lia.
Qed.
Lemma Lb : (len body + len ra < len z)%nat.
Proof.
  pose proof (FuelOk.poryswitch_header_lt _ _ _ _ _ _ HH Ez) as L1.
  pose proof (advs_len _ _ AB) as S1. rewrite app_length in S1. lia.
Qed.
Lemma Etw : eof_ended tw. Proof. apply ProgSrc.eof_ended_app. exact Erest. Qed.
Lemma ZNE : z <> []. Proof. destruct Ez; assumption. Qed.
Lemma TWNE : tw <> []. Proof. destruct Etw; assumption. Qed.
Lemma Ltw : len tw = (len body + len rest)%nat. Proof. apply app_length. Qed.

Lemma s1_eq n : s1 n = (n - (len z - len tw))%nat.
Proof. unfold sh. pose proof Lb. pose proof Lr. pose proof Ltw. destruct (Nat.leb_spec (len z) (len tw)); [lia|reflexivity]. Qed.
Lemma s2_eq n : s2 n = (n - (len ra - len rest))%nat.
Proof. unfold sh. pose proof Lr. destruct (Nat.leb_spec (len ra) (len rest)); [lia|reflexivity]. Qed.
Lemma G0_lo n : (n <= len ra)%nat -> G0 n = n.
Proof. intros H. unfold G0. pose proof Lb. destruct (Nat.ltb_spec (len z) n); [lia|]. destruct (Nat.ltb_spec (len ra) n); [lia|reflexivity]. Qed.

(* G0 is injective on the ids in use *)
Lemma G0_inj a b : okid a -> okid b -> G0 a = G0 b -> a = b.
Proof.
  unfold okid. intros Ha Hb. pose proof Lb. pose proof Lr. pose proof Ltw.
  assert (Ga : G0 a = if (len z <? a)%nat then (a - (len z - len tw))%nat else if (len ra <? a)%nat then (a - (len ra - len rest))%nat else a)
    by (unfold G0; rewrite s1_eq, s2_eq; reflexivity).
  assert (Gb : G0 b = if (len z <? b)%nat then (b - (len z - len tw))%nat else if (len ra <? b)%nat then (b - (len ra - len rest))%nat else b)
    by (unfold G0; rewrite s1_eq, s2_eq; reflexivity).
  rewrite Ga, Gb.
  destruct (Nat.ltb_spec (len z) a); destruct (Nat.ltb_spec (len ra) a);
    destruct (Nat.ltb_spec (len z) b); destruct (Nat.ltb_spec (len ra) b); lia.
Qed.

Lemma map_G0_hi l : Forall (fun n => len z < n)%nat l -> map G0 l = map s1 l.
Proof. intros H. apply map_ext_in. intros n Hn. rewrite Forall_forall in H. apply G0_hi. apply H. exact Hn. Qed.

Definition allok (b : list stmt) (imp : impdata) : Prop :=
  (forall n, In n (TwinProgram.ids b) -> okid n) /\ (forall n, In n (TwinProgram.imp_ids imp) -> okid n).
Lemma allok_app a i b j : allok a i -> allok b j -> allok (a ++ b) (impadd i j).
Proof.
  intros [A1 A2] [B1 B2]. split; intros n Hn.
  - apply TwinProgram.ids_app in Hn. destruct Hn; auto.
  - apply TwinProgram.imp_ids_add in Hn. destruct Hn; auto.
Qed.

(* ids of renamed pieces *)
Lemma piece_ext (P : nat -> Prop) g bt lt b i : Tr.scoped bt lt b -> bnd P b i ->
  (forall t0, bt = Some t0 -> P t0) -> (forall t0, lt = Some t0 -> P t0) -> (forall n, P n -> g n = G0 n) ->
  map (g_stmt g) b = map (g_stmt G0) b /\ g_imp g i = g_imp G0 i.
Proof.
  intros S B Hb Hl HG. split.
  - apply TwinProgram.g_stmts_ext. intros n Hn. apply HG. eapply ids_of_bnd; eassumption.
  - apply TwinProgram.g_imp_ext. intros n Hn. apply HG. destruct B as (_ & _ & B3). apply B3. exact Hn.
Qed.

Lemma hd_hi l t0 : Forall (fun n => len z < n)%nat l -> hd_error l = Some t0 -> (len z < t0)%nat.
Proof. intros H E. destruct l as [|a l]; [discriminate|]. inversion E; subst. inversion H; assumption. Qed.

Lemma block_end : forall f bs cs start x acc i b imp y, eof_ended x -> P_block f script bs cs start x acc i = Ok (b, imp, y) ->
  (2 <= len y)%nat /\ (len y <= len x)%nat.
Proof.
  intros f bs cs start x acc i b imp y E H.
  assert (A : advs x y) by (eapply (proj1 (proj2 (adv_all av sw pf c pf_advs ee _))); [exact H|apply advs_refl]).
  split; [|apply advs_len; exact A].
  assert (RBy : curis RBRACE y = true).
  { revert bs cs start x acc i b imp y E H A. induction f as [|f IH]; intros bs cs start x acc i b imp y E H A; [discriminate H|].
    rewrite parse_block_unfold in H. destruct (curis RBRACE x) eqn:C0; [inversion H; subst; exact C0|].
    destruct (curis EOF x); [unfold err_tok in H; discriminate H|].
    destruct (P_stmt f script bs cs x) as [[[s0 i0] y0]| | |] eqn:ES; try discriminate H.
    pose proof (TwinParse.a_stmt2 av sw ee pf c pf_advs _ _ _ _ _ _ _ _ ES) as A1.
    eapply (IH _ _ _ (adv y0)); [|exact H|].
    - eapply advs_eof; [apply advs_adv_r; exact A1|exact E].
    - eapply (proj1 (proj2 (adv_all av sw pf c pf_advs ee _))); [exact H|apply advs_refl]. }
  pose proof (advs_eof _ _ A E) as Ey. destruct (Nat.lt_ge_cases (len y) 2) as [L|L]; [|exact L]. exfalso.
  destruct (TwinParse.single_eof y Ey L) as [CE _]. rewrite (TwinParse.curis_excl EOF RBRACE y CE) in RBy; [discriminate RBy|discriminate].
Qed.

(* what "the twin of the block at x" means: parsed with the renamed scope stacks, the twin stream gives the renamed result *)
Definition TWb (bs cs : list nat) (x : toks) : Prop :=
  forall f start b imp y, (5 * len x + 3 <= f)%nat -> P_block f script bs cs start x [] imp0 = Ok (b, imp, y) ->
    P_block f script (map G0 bs) (map G0 cs) start (swp x) [] imp0 = Ok (map (g_stmt G0) b, g_imp G0 imp, y) /\ allok b imp /\ TwinParse.LA z tw /\ (2 <= len y)%nat /\ (len y <= len rest)%nat.
Definition TWs (bs cs : list nat) (w : toks) : Prop :=
  forall f b imp y, (5 * len w + 2 <= f)%nat -> P_stmt f script bs cs w = Ok (b, imp, y) ->
    P_stmt f script (map G0 bs) (map G0 cs) (swp w) = Ok (map (g_stmt G0) b, g_imp G0 imp, y) /\ allok b imp /\ TwinParse.LA z tw /\ (len y <= len rest)%nat.

(* BASE: the poryswitch directly in the block *)
Lemma twin_block_base x b1 i1 : eof_ended x -> srun script bsz csz x b1 i1 z -> TWb bsz csz x.
Proof.
  intros E R1 f start b imp y Bf H.
  pose proof (TwinParse.srun_advs av sw ee pf c pf_advs _ _ _ _ _ _ _ R1) as A0. destruct (advs_suffix _ _ A0) as (pre & EX).
  pose proof (advs_len _ _ A0) as Lz. pose proof Lb as Lb'. pose proof Lr as Lr'. pose proof Ltw as Ltw'.
  pose proof Erest as Erest'. pose proof Etw as Etw'. pose proof Era as Era'. pose proof Ebody as Ebody'.
  (* the original *)
  rewrite (TwinParse.block_srun av sw ee pf c pf_advs pf_lt _ _ _ _ _ _ _ R1 E f start [] imp0 Bf) in H. cbn [app] in H.
  rewrite TwinParse.impadd_imp0_l in H.
  rewrite (TwinParse.block_pory_step av sw ee pf c pf_advs pf_lt script bsz csz z scn sv ts1 F cases ts2 Ez CP HH BF HC f start b1 i1) in H by lia.
  rewrite SEL in H. rewrite TwinParse.block_acc in H. rewrite <- Drest in H.
  destruct (P_block f script bsz csz start rest [] imp0) as [[[b3 i3] y3]| | |] eqn:E3; try discriminate H.
  injection H as Hb Hi Hy. subst y3.
  (* look-ahead *)
  assert (Q : is COLON (cur ra) = false /\ is LPAREN (cur ra) = false /\ is ELSE (cur ra) = false /\ is ELSEIF (cur ra) = false).
  { destruct RAK as [K|[K|K]]; repeat split; (eapply is_excl; [exact K|discriminate]). }
  destruct Q as (Q1 & Q2 & Q3 & Q4).
  pose proof (TwinParse.block_ok_start av sw ee pf c _ _ _ _ _ _ _ _ _ E3) as (P1 & P2 & P3 & P4).
  assert (la2 : TwinParse.LA ra rest) by (unfold TwinParse.LA; rewrite Q1, Q2, Q3, Q4, P1, P2, P3, P4; auto).
  assert (RANE : ra <> []) by (destruct Era'; assumption).
  assert (RNE : rest <> []) by (destruct Erest'; assumption).
  assert (GR : Gw ra 0 ra) by (exists []; split; [reflexivity|cbn; lia]).
  pose proof (TwinParse.srun_swap av sw ee pf c pf_advs pf_local pf_lt ra rest script bsz csz _ _ _ _ RANE RNE la2 HLC RR Ebody' GR) as RS2.
  rewrite (swap_app ra rest body) in RS2. rewrite (swap_app ra rest [] : swap ra rest ra = rest) in RS2.
  pose proof (block_scopes_ok av sw ee pf c f script bsz csz (map s2 bsz) (map s2 csz) start rest [] imp0 b3 i3 y (se_map s2 bsz) (se_map s2 csz) E3) as E3s.
  cbn [map] in E3s.
  pose proof (TwinParse.srun_start av sw ee pf c _ _ _ _ _ _ _ _ _ _ _ _ RS2 E3s) as (T1 & T2 & T3 & T4).
  assert (la1 : TwinParse.LA z tw).
  { pose proof (TagRename.BlockStep.curis_type _ _ CP) as TY. unfold TwinParse.LA, is. rewrite TY. unfold is in T1, T2, T3, T4.
    rewrite T1, T2, T3, T4. auto. }
  assert (lc1 : csz = [] \/ TwinParse.LC z tw).
  { right. unfold TwinParse.LC. intros K. pose proof (TwinParse.curis_excl PORYSWITCH RBRACE z CP ltac:(discriminate)) as K2. unfold curis in K2. rewrite K2 in K. discriminate K. }
  assert (GZ : Gw z 0 z) by (exists []; split; [reflexivity|cbn; lia]).
  pose proof (TwinParse.srun_swap av sw ee pf c pf_advs pf_local pf_lt z tw script bsz csz _ _ _ _ ZNE TWNE la1 lc1 R1 E GZ) as RS1.
  rewrite (swap_app z tw [] : swap z tw z = tw) in RS1.
  (* the pieces, renamed by G0 *)
  destruct (srun_bnd av sw ee pf c pf_advs _ _ _ _ _ _ _ R1 E) as [B1 S1].
  destruct (srun_bnd av sw ee pf c pf_advs _ _ _ _ _ _ _ RR Ebody') as [B2 S2].
  destruct (block_bnd av sw ee pf c pf_advs _ _ _ _ _ _ _ _ _ Erest' E3) as [B3 S3].
  destruct (piece_ext (fun n => len z < n)%nat s1 _ _ b1 i1 S1) as [X1 X1i].
  { eapply bnd_weaken; [|exact B1]. cbv beta. intros; lia. }
  { intros t0 Ht. eapply hd_hi; [|exact Ht]; assumption. } { intros t0 Ht. eapply hd_hi; [|exact Ht]; assumption. } { intros n Hn. symmetry. apply G0_hi. exact Hn. }
  rewrite X1, X1i, <- (map_G0_hi bsz Hbz), <- (map_G0_hi csz Hcz) in RS1.
  (* the case body: other scope stacks, then key_all *)
  pose proof (srun_scopes av sw ee pf c script (map s2 bsz) (map s2 csz) (map G0 bsz) (map G0 csz) _ _ _ _
                (se_trans _ _ _ (se_sym _ _ (se_map s2 bsz)) (se_map G0 bsz)) (se_trans _ _ _ (se_sym _ _ (se_map s2 csz)) (se_map G0 csz)) RS2) as RS2'.
  rewrite !hd_error_map in RS2'.
  assert (X2 : map (rt_stmt (option_map G0 (hd_error bsz)) (option_map G0 (hd_error csz))) (map (g_stmt s2) ss) = map (g_stmt G0) ss).
  { apply key_all; [exact S2| |].
    - intros n Hn. destruct B2 as (B2a & _). specialize (B2a n Hn). cbv beta in B2a. rewrite app_length in B2a. symmetry. apply G0_mid. lia.
    - intros c0 Hn. destruct B2 as (_ & B2b & _). specialize (B2b c0 Hn). cbv beta in B2b. rewrite app_length in B2b. symmetry. apply G0_mid. lia. }
  assert (X2i : g_imp s2 imp' = g_imp G0 imp').
  { apply TwinProgram.g_imp_ext. intros n Hn. destruct B2 as (_ & _ & B2c). specialize (B2c n Hn). cbv beta in B2c. rewrite app_length in B2c.
    symmetry. apply G0_mid. lia. }
  rewrite X2, X2i in RS2'.
  (* the rest of the block *)
  pose proof (block_scopes_ok av sw ee pf c f script bsz csz (map G0 bsz) (map G0 csz) start rest [] imp0 b3 i3 y (se_map G0 bsz) (se_map G0 csz) E3) as E3'.
  cbn [map] in E3'. rewrite !hd_error_map in E3'.
  assert (X3 : map (rt_stmt (option_map G0 (hd_error bsz)) (option_map G0 (hd_error csz))) b3 = map (g_stmt G0) b3).
  { rewrite <- (TwinProgram.g_stmts_id b3) at 1. apply key_all; [exact S3| |].
    - intros n Hn. destruct B3 as (B3a & _). specialize (B3a n Hn). cbv beta in B3a. symmetry. apply G0_lo. lia.
    - intros c0 Hn. destruct B3 as (_ & B3b & _). specialize (B3b c0 Hn). cbv beta in B3b. symmetry. apply G0_lo. lia. }
  assert (X3i : i3 = g_imp G0 i3).
  { rewrite <- (TwinProgram.g_imp_id i3) at 1. apply TwinProgram.g_imp_ext. intros n Hn. destruct B3 as (_ & _ & B3c). specialize (B3c n Hn).
    cbv beta in B3c. symmetry. apply G0_lo. lia. }
  rewrite X3 in E3'.
  (* the twin *)
  split; [|split; [|split; [exact la1|exact (block_end _ _ _ _ _ _ _ _ _ _ Erest' E3)]]].
  - rewrite EX, swap_app.
    assert (Etwin : eof_ended (pre ++ tw)) by (apply ProgSrc.eof_ended_app; exact Etw').
    assert (Ltwin : (len (pre ++ tw) <= len x)%nat) by (rewrite EX, !app_length; lia).
    rewrite EX, swap_app in RS1.
    rewrite (TwinParse.block_srun av sw ee pf c pf_advs pf_lt _ _ _ _ _ _ _ RS1 Etwin f start [] imp0) by lia. cbn [app].
    rewrite TwinParse.impadd_imp0_l.
    rewrite (TwinParse.block_srun av sw ee pf c pf_advs pf_lt _ _ _ _ _ _ _ RS2' Etw' f start) by (rewrite !app_length in *; lia).
    rewrite TwinParse.block_acc, E3'. rewrite <- Hb, <- Hi. rewrite !map_app, !TwinParse.g_imp_add, <- X3i.
    rewrite <- app_assoc, TwinParse.impadd_assoc. reflexivity.
  - rewrite <- Hb, <- Hi. rewrite <- app_assoc, TwinParse.impadd_assoc.
    apply allok_app; [|apply allok_app].
    + split; [|intros n Hn; destruct B1 as (_ & _ & B1c); specialize (B1c n Hn); left; cbv beta in B1c; lia].
      intros n Hn. left. eapply (ids_of_bnd (fun n => len z < n)%nat); [exact S1| | | |exact Hn].
      * eapply bnd_weaken; [|exact B1]. cbv beta. intros; lia.
      * intros t0 Ht. eapply hd_hi; [|exact Ht]; assumption.
      * intros t0 Ht. eapply hd_hi; [|exact Ht]; assumption.
    + split; [|intros n Hn; destruct B2 as (_ & _ & B2c); specialize (B2c n Hn); right; left; cbv beta in B2c; rewrite app_length in B2c; lia].
      intros n Hn. eapply (ids_of_bnd okid); [exact S2| | | |exact Hn].
      * eapply bnd_weaken; [|exact B2]. cbv beta. intros n0 Hn0. right. left. rewrite app_length in Hn0. lia.
      * intros t0 Ht. left. eapply hd_hi; [|exact Ht]; assumption.
      * intros t0 Ht. left. eapply hd_hi; [|exact Ht]; assumption.
    + split; [|intros n Hn; destruct B3 as (_ & _ & B3c); specialize (B3c n Hn); right; right; exact B3c].
      intros n Hn. eapply (ids_of_bnd okid); [exact S3| | | |exact Hn].
      * eapply bnd_weaken; [|exact B3]. cbv beta. intros n0 Hn0. right. right. exact Hn0.
      * intros t0 Ht. left. eapply hd_hi; [|exact Ht]; assumption.
      * intros t0 Ht. left. eapply hd_hi; [|exact Ht]; assumption.
Qed.

(* the part of a block behind the poryswitch: same tokens in the twin, other scope stacks *)
Lemma rest_block f bs cs start r b3 i3 y : eof_ended r -> (len r <= len rest)%nat ->
  Forall (fun n => len z < n)%nat bs -> Forall (fun n => len z < n)%nat cs ->
  P_block f script bs cs start r [] imp0 = Ok (b3, i3, y) ->
  P_block f script (map G0 bs) (map G0 cs) start r [] imp0 = Ok (map (g_stmt G0) b3, g_imp G0 i3, y) /\ allok b3 i3.
Proof.
  intros E L Hb Hc E3. pose proof Lr as Lr'.
  destruct (block_bnd av sw ee pf c pf_advs _ _ _ _ _ _ _ _ _ E E3) as [B3 S3].
  pose proof (block_scopes_ok av sw ee pf c f script bs cs (map G0 bs) (map G0 cs) start r [] imp0 b3 i3 y (se_map G0 bs) (se_map G0 cs) E3) as E3'.
  cbn [map] in E3'. rewrite !hd_error_map in E3'.
  assert (X3 : map (rt_stmt (option_map G0 (hd_error bs)) (option_map G0 (hd_error cs))) b3 = map (g_stmt G0) b3).
  { rewrite <- (TwinProgram.g_stmts_id b3) at 1. apply key_all; [exact S3| |].
    - intros n Hn. destruct B3 as (B3a & _). specialize (B3a n Hn). cbv beta in B3a. symmetry. apply G0_lo. lia.
    - intros c0 Hn. destruct B3 as (_ & B3b & _). specialize (B3b c0 Hn). cbv beta in B3b. symmetry. apply G0_lo. lia. }
  assert (X3i : i3 = g_imp G0 i3).
  { rewrite <- (TwinProgram.g_imp_id i3) at 1. apply TwinProgram.g_imp_ext. intros n Hn. destruct B3 as (_ & _ & B3c). specialize (B3c n Hn).
    cbv beta in B3c. symmetry. apply G0_lo. lia. }
  rewrite X3 in E3'. rewrite <- X3i. split; [exact E3'|].
  split; [|intros n Hn; destruct B3 as (_ & _ & B3c); specialize (B3c n Hn); right; right; cbv beta in B3c; lia].
  intros n Hn. eapply (ids_of_bnd okid); [exact S3| | | |exact Hn].
  - eapply bnd_weaken; [|exact B3]. cbv beta. intros n0 Hn0. right. right. lia.
  - intros t0 Ht. left. eapply hd_hi; [|exact Ht]; assumption.
  - intros t0 Ht. left. eapply hd_hi; [|exact Ht]; assumption.
Qed.

Lemma CEz : curis EOF z = false.
Proof. eapply TwinParse.curis_excl; [exact CP|discriminate]. Qed.

(* STEP (block): the statement at w contains the poryswitch, w is reached in the block at x by a run of statements *)
Lemma twin_block_step_in x b1 i1 w bs cs : eof_ended x -> srun script bs cs x b1 i1 w -> Gw z 1 w ->
  curis RBRACE w = false -> curis EOF w = false ->
  Forall (fun n => len z < n)%nat bs -> Forall (fun n => len z < n)%nat cs ->
  TWs bs cs w -> TWb bs cs x.
Proof.
  intros E R1 GW NR NE Hb Hc IHw f start b imp y Bf H.
  pose proof (TwinParse.srun_advs av sw ee pf c pf_advs _ _ _ _ _ _ _ R1) as A0. pose proof (advs_len _ _ A0) as Lw.
  pose proof (advs_eof _ _ A0 E) as Ew.
  assert (GW0 : Gw z 0 w) by (eapply G_le; [|exact GW]; lia).
  assert (GX : Gw z 0 x) by (eapply G_advs; [exact A0|exact GW0]).
  assert (Lzw : (len z < len w)%nat) by (destruct GW as (uw & EWu & Ku); rewrite EWu, app_length; lia).
  (* the original *)
  rewrite (TwinParse.block_srun av sw ee pf c pf_advs pf_lt _ _ _ _ _ _ _ R1 E f start [] imp0 Bf) in H. cbn [app] in H.
  rewrite TwinParse.impadd_imp0_l in H.
  destruct f as [|f1]; [lia|]. rewrite parse_block_unfold in H. rewrite NR, NE in H.
  destruct (P_stmt f1 script bs cs w) as [[[sw1 iw] yw]| | |] eqn:EW; try discriminate H.
  destruct (IHw f1 sw1 iw yw ltac:(lia) EW) as (TW & OKW & la1 & Lyr).
  rewrite TwinParse.block_acc in H.
  destruct (P_block f1 script bs cs start (adv yw) [] imp0) as [[[b3 i3] y3]| | |] eqn:E3; try discriminate H.
  injection H as Hb' Hi' Hy. subst y3.
  pose proof (TwinParse.a_stmt2 av sw ee pf c pf_advs _ _ _ _ _ _ _ _ EW) as Aw.
  assert (Eyw : eof_ended (adv yw)) by (eapply advs_eof; [apply advs_adv_r; exact Aw|exact Ew]).
  pose proof (adv_len yw) as Lay.
  destruct (rest_block f1 bs cs start (adv yw) b3 i3 y Eyw ltac:(lia) Hb Hc E3) as [E3' OK3].
  (* the run in front of w *)
  assert (lc1 : cs = [] \/ TwinParse.LC z tw).
  { right. unfold TwinParse.LC. intros K. pose proof (TwinParse.curis_excl PORYSWITCH RBRACE z CP ltac:(discriminate)) as K2.
    unfold curis in K2. rewrite K2 in K. discriminate K. }
  pose proof (TwinParse.srun_swap av sw ee pf c pf_advs pf_local pf_lt z tw script bs cs _ _ _ _ ZNE TWNE la1 lc1 R1 E GW0) as RS1.
  destruct (srun_bnd av sw ee pf c pf_advs _ _ _ _ _ _ _ R1 E) as [B1 S1].
  destruct (piece_ext (fun n => len z < n)%nat s1 _ _ b1 i1 S1) as [X1 X1i].
  { eapply bnd_weaken; [|exact B1]. cbv beta. intros; lia. }
  { intros t0 Ht. eapply hd_hi; [|exact Ht]; assumption. } { intros t0 Ht. eapply hd_hi; [|exact Ht]; assumption. }
  { intros n Hn. symmetry. apply G0_hi. exact Hn. }
  rewrite X1, X1i, <- (map_G0_hi bs Hb), <- (map_G0_hi cs Hc) in RS1.
  split; [|split; [|split; [exact la1|]]].
  3:{ destruct (block_end _ _ _ _ _ _ _ _ _ _ Eyw E3) as [Q1 Q2]. split; [exact Q1|lia]. }
  - destruct (G_swap z tw 0 x GX) as (u & EXu & SXu & _).
    assert (Etwin : eof_ended (swp x)) by (rewrite SXu; apply ProgSrc.eof_ended_app; exact Etw).
    assert (Ltwin : (len (swp x) <= len x)%nat).
    { rewrite SXu, EXu, !app_length. pose proof Lb. pose proof Lr. pose proof Ltw. lia. }
    rewrite (TwinParse.block_srun av sw ee pf c pf_advs pf_lt _ _ _ _ _ _ _ RS1 Etwin (S f1) start [] imp0) by lia. cbn [app].
    rewrite TwinParse.impadd_imp0_l. rewrite parse_block_unfold.
    rewrite (swap_curis z tw RBRACE w GW), (swap_curis z tw EOF w GW), NR, NE, TW.
    rewrite TwinParse.block_acc, E3'. rewrite <- Hb', <- Hi'. rewrite !map_app, !TwinParse.g_imp_add.
    rewrite <- app_assoc, TwinParse.impadd_assoc. reflexivity.
  - rewrite <- Hb', <- Hi'. rewrite <- app_assoc, TwinParse.impadd_assoc.
    apply allok_app; [|apply allok_app; [exact OKW|exact OK3]].
    split; [|intros n Hn; destruct B1 as (_ & _ & B1c); specialize (B1c n Hn); left; cbv beta in B1c; lia].
    intros n Hn. left. eapply (ids_of_bnd (fun n => len z < n)%nat); [exact S1| | | |exact Hn].
    + eapply bnd_weaken; [|exact B1]. cbv beta. intros; lia.
    + intros t0 Ht. eapply hd_hi; [|exact Ht]; assumption.
    + intros t0 Ht. eapply hd_hi; [|exact Ht]; assumption.
Qed.

(* ---------- the head of a condition (if / elif / while): the optional '(' boolean expression ')' ---------- *)
Definition cond_head (f : nat) (req : bool) (ts : toks) : res (option bexp * impdata * toks) :=
  if req || negb (peekis LBRACE ts) then
    match expect_peek LPAREN ts with
    | None => err_range (cur ts) (pk 1 ts) "missing '(' to start boolean expression"
    | Some tsa => do (e, imp, tsb) <- bool_expr av sw ee pf c f false false script tsa; Ok (Some e, imp, tsb)
    end
  else Ok (None, imp0, ts).

Lemma parse_cond_head f req bs cs ts : P_cond (S f) req script bs cs ts =
  do (e, imp, ts1) <- cond_head f req ts;
  match expect_peek LBRACE ts1 with
  | None => err_tok (pk 1 ts1) "expected next token to be '{'"
  | Some ts2 => do (b, imp', ts3) <- P_block f script bs cs (cur ts2) (adv ts2) [] imp0; Ok (e, b, impadd imp imp', ts3)
  end.
Proof. rewrite parse_cond_unfold. unfold cond_head. reflexivity. Qed.

Lemma cond_head_advs f req ts e ie tq : cond_head f req ts = Ok (e, ie, tq) -> advs ts tq.
Proof.
  unfold cond_head. intros H. destruct (req || negb (peekis LBRACE ts)); [|injection H as <- <- <-; apply advs_refl].
  destruct (expect_peek LPAREN ts) as [tsa|] eqn:EP; [|unfold err_range in H; discriminate H].
  destruct (bool_expr av sw ee pf c f false false script tsa) as [[[e0 i0] tsb]| | |] eqn:EB; try discriminate H.
  injection H as <- <- <-. rewrite (expect_peek_some _ _ _ EP) in EB.
  eapply (proj1 (bexp_advs av sw pf c pf_advs ee f)); [exact EB|]. apply advs_adv_r, advs_refl.
Qed.

Lemma cond_head_fuel req ts f g0 : eof_ended ts -> (5 * len ts <= f)%nat -> (5 * len ts <= g0)%nat ->
  cond_head f req ts = cond_head g0 req ts.
Proof.
  intros E Lf Lg. unfold cond_head. destruct (req || negb (peekis LBRACE ts)); [|reflexivity].
  destruct (expect_peek LPAREN ts) as [tsa|] eqn:EP; [|reflexivity].
  rewrite (expect_peek_some _ _ _ EP). pose proof (adv_len ts) as La.
  assert (Ea : eof_ended (adv ts)) by (eapply advs_eof; [apply advs_adv_r, advs_refl|exact E]).
  rewrite (TwinParse.fuel_up (fun k => bool_expr av sw ee pf c k false false script (adv ts)) (5 * len (adv ts) + 2)%nat) with (g := g0); [reflexivity| | |].
  - intros k K. apply (FuelOk.bool_expr_st av sw ee pf c pf_advs pf_lt); assumption.
  - unfold expect_peek in EP. destruct (peekis LPAREN ts) eqn:PL; [|discriminate EP].
    pose proof (peek_strict LPAREN ts E ltac:(discriminate) PL). lia.
  - unfold expect_peek in EP. destruct (peekis LPAREN ts) eqn:PL; [|discriminate EP].
    pose proof (peek_strict LPAREN ts E ltac:(discriminate) PL). lia.
Qed.

Lemma cond_head_swap f req ts e ie tq : cond_head f req ts = Ok (e, ie, tq) -> Gw z 2 tq ->
  cond_head f req (swp ts) = Ok (g_obexp s1 e, g_imp s1 ie, swp tq).
Proof.
  intros H G1. pose proof (cond_head_advs _ _ _ _ _ _ H) as A.
  assert (G2 : Gw z 2 ts) by (eapply G_advs; [exact A|exact G1]).
  unfold cond_head in H |- *. rewrite (swap_peekis z tw LBRACE ts G2).
  destruct (req || negb (peekis LBRACE ts)); [|injection H as <- <- <-; reflexivity].
  rewrite (swap_expect_peek z tw ZNE TWNE LPAREN ts G2).
  destruct (expect_peek LPAREN ts) as [tsa|] eqn:EP; [|unfold err_range in H; discriminate H].
  destruct (bool_expr av sw ee pf c f false false script tsa) as [[[e0 i0] tsb]| | |] eqn:EB; try discriminate H.
  injection H as <- <- <-.
  rewrite (bool_expr_swap z tw ZNE TWNE av pf pf_advs (pf_local z tw ZNE TWNE) sw ee c f false false script tsa e0 i0 tsb EB
             ltac:(eapply G_le; [|exact G1]; lia)).
  reflexivity.
Qed.

(* the command ids of the condition lie in front of its end *)
Lemma cond_head_ids f req ts e ie tq : cond_head f req ts = Ok (e, ie, tq) ->
  (forall c0, In c0 (HoistProgram.obexp_cmds e) -> (len tq <= cid c0)%nat) /\ (forall n, In n (TwinProgram.imp_ids ie) -> (len tq <= n)%nat).
Proof.
  unfold cond_head. intros H. destruct (req || negb (peekis LBRACE ts)); [|injection H as <- <- <-; split; intros ? []].
  destruct (expect_peek LPAREN ts) as [tsa|] eqn:EP; [|unfold err_range in H; discriminate H].
  destruct (bool_expr av sw ee pf c f false false script tsa) as [[[e0 i0] tsb]| | |] eqn:EB; try discriminate H.
  injection H as <- <- <-.
  pose proof (proj1 (HoistProgram.bexp_span av sw ee pf pf_advs tsa c f) _ _ _ _ _ _ _ (advs_refl tsa) EB) as (HT & HM & HCm).
  cbn [HoistProgram.obexp_cmds]. split.
  - intros c0 Hc. destruct (HCm (script, c0)) as [B _]; [apply in_map; exact Hc|]. cbn [snd] in B. lia.
  - intros n Hn. unfold TwinProgram.imp_ids in Hn. apply in_app_or in Hn. destruct Hn as [Hn|Hn]; apply in_map_iff in Hn; destruct Hn as (it & <- & Hit).
    + specialize (HT it Hit). lia.
    + specialize (HM it Hit). lia.
Qed.

(* STEP (while): the poryswitch lies in the body of the while statement at w *)
Lemma twin_while_step w bs cs f0 e ie t1 t2 : eof_ended w -> ttype (cur w) = WHILE ->
  (5 * len w <= f0)%nat -> cond_head f0 false w = Ok (e, ie, t1) -> expect_peek LBRACE t1 = Some t2 -> Gw z 0 (adv t2) ->
  Forall (fun n => len z < n)%nat bs -> Forall (fun n => len z < n)%nat cs ->
  TWb (len w :: bs) (len w :: cs) (adv t2) -> TWs bs cs w.
Proof.
  intros E TY Lf0 CH EP GX2 Hb Hc IHb f b imp y Bf H.
  pose proof (cond_head_advs _ _ _ _ _ _ CH) as A1. pose proof (advs_eof _ _ A1 E) as Et1.
  pose proof (expect_peek_some _ _ _ EP) as Q2.
  assert (Et2 : eof_ended t2) by (rewrite Q2; eapply advs_eof; [apply advs_adv_r, advs_refl|exact Et1]).
  assert (Gt2 : Gw z 1 t2) by (apply TwinProgram.Gw_step_back; [exact Et2|exact ZNE|exact CEz|exact GX2]).
  assert (Gt1 : Gw z 2 t1) by (apply (G_adv_inv z ZNE); [lia|rewrite <- Q2; exact Gt2]).
  assert (Gw2 : Gw z 2 w) by (eapply G_advs; [exact A1|exact Gt1]).
  assert (Gw1 : Gw z 1 w) by (eapply G_le; [|exact Gw2]; lia).
  assert (Gw0 : Gw z 0 w) by (eapply G_le; [|exact Gw2]; lia).
  assert (Lzt1 : (len z < len t1)%nat) by (destruct Gt1 as (u1 & EU & KU); rewrite EU, app_length; lia).
  assert (Lzw : (len z < len w)%nat) by (pose proof (advs_len _ _ A1); lia).
  destruct f as [|[|f2]]; [lia|lia|].
  rewrite parse_stmt_unfold, TY in H. cbv zeta in H. rewrite parse_cond_head in H.
  rewrite (cond_head_fuel false w f2 f0 E ltac:(lia) Lf0), CH in H. cbv beta iota in H. rewrite EP in H.
  destruct (P_block f2 script (len w :: bs) (len w :: cs) (cur t2) (adv t2) [] imp0) as [[[bd ibd] y3]| | |] eqn:EB; try discriminate H.
  injection H as <- <- <-.
  pose proof (adv_len t2) as La2. pose proof (advs_len _ _ A1) as L1. assert (L12 : (len t2 < len t1)%nat).
  { rewrite Q2. unfold expect_peek in EP. destruct (peekis LBRACE t1) eqn:PL; [|discriminate EP]. apply (peek_strict LBRACE t1 Et1 ltac:(discriminate) PL). }
  destruct (IHb f2 (cur t2) bd ibd y3 ltac:(lia) EB) as (TB & OKB & la1 & L2 & Lyr).
  destruct (cond_head_ids _ _ _ _ _ _ CH) as [CI1 CI2].
  assert (XE : g_obexp s1 e = g_obexp G0 e).
  { destruct e as [e0|]; [|reflexivity]. cbn [g_obexp]. f_equal. apply g_bexp_ext_cmds. intros c0 Hc0. symmetry. apply G0_hi.
    specialize (CI1 c0 Hc0). lia. }
  assert (XI : g_imp s1 ie = g_imp G0 ie).
  { apply TwinProgram.g_imp_ext. intros n Hn. symmetry. apply G0_hi. specialize (CI2 n Hn). lia. }
  split; [|split; [|split; [exact la1|exact Lyr]]].
  - rewrite parse_stmt_unfold, (swap_cur z tw w Gw1), TY. cbv zeta. rewrite parse_cond_head.
    rewrite (cond_head_fuel false (swp w) f2 f0).
    2:{ destruct (G_swap z tw 0 w Gw0) as (u & _ & -> & _). apply ProgSrc.eof_ended_app. exact Etw. }
    2:{ rewrite (s_len z tw w Gw0), s1_eq. lia. }
    2:{ rewrite (s_len z tw w Gw0), s1_eq. lia. }
    rewrite (cond_head_swap _ _ _ _ _ _ CH Gt1). cbv beta iota.
    rewrite (swap_expect_peek z tw ZNE TWNE LBRACE t1 Gt1), EP.
    rewrite (swap_cur z tw t2 Gt2), (swap_adv z tw ZNE TWNE t2 Gt2).
    rewrite (s_len z tw w Gw0), <- (G0_hi (len w) Lzw).
    change (G0 (len w) :: map G0 bs) with (map G0 (len w :: bs)). change (G0 (len w) :: map G0 cs) with (map G0 (len w :: cs)).
    rewrite TB. cbn [map g_stmt]. rewrite XE, XI, TwinParse.g_imp_add. reflexivity.
  - destruct OKB as [OB1 OB2]. split.
    + intros n Hn. unfold TwinProgram.ids, TagRename.atags, HoistProgram.cmds in Hn.
      cbn [flat_map TagRename.atags1 HoistProgram.stmt_cmds] in Hn. rewrite !app_nil_r in Hn.
      apply in_app_or in Hn. destruct Hn as [[<-|Hn]|Hn].
      * left. exact Lzw.
      * apply OB1. unfold TwinProgram.ids. apply in_or_app. left. exact Hn.
      * rewrite map_app in Hn. apply in_app_or in Hn. destruct Hn as [Hn|Hn].
        -- apply in_map_iff in Hn. destruct Hn as (c0 & <- & Hc0). left. specialize (CI1 c0 Hc0). lia.
        -- apply OB1. unfold TwinProgram.ids. apply in_or_app. right. exact Hn.
    + intros n Hn. apply TwinProgram.imp_ids_add in Hn. destruct Hn as [Hn|Hn]; [left; specialize (CI2 n Hn); lia|apply OB2; exact Hn].
Qed.

Lemma g_bexp_id e : g_bexp (fun n => n) e = e.
Proof.
  induction e as [l|o a IHa b IHb]; cbn [g_bexp]; [|rewrite IHa, IHb; reflexivity].
  f_equal. destruct l as [k op li o v st pre]. unfold g_leaf. cbn. f_equal. destruct pre as [c0|]; [|reflexivity].
  cbn [g_ocmd]. f_equal. destruct c0; reflexivity.
Qed.

(* STEP (do-while): the poryswitch lies in the body of the do ... while statement at w *)
Lemma twin_do_step w bs cs t1 : eof_ended w -> ttype (cur w) = DO ->
  expect_peek LBRACE w = Some t1 -> Gw z 0 (adv t1) ->
  Forall (fun n => len z < n)%nat bs -> Forall (fun n => len z < n)%nat cs ->
  TWb (len w :: bs) (len w :: cs) (adv t1) -> TWs bs cs w.
Proof.
  intros E TY EP GX2 Hb Hc IHb f b imp y Bf H.
  pose proof (expect_peek_some _ _ _ EP) as Q1.
  assert (Et1 : eof_ended t1) by (rewrite Q1; eapply advs_eof; [apply advs_adv_r, advs_refl|exact E]).
  assert (Gt1 : Gw z 1 t1) by (apply TwinProgram.Gw_step_back; [exact Et1|exact ZNE|exact CEz|exact GX2]).
  assert (Gw2 : Gw z 2 w) by (apply (G_adv_inv z ZNE); [lia|rewrite <- Q1; exact Gt1]).
  assert (Gw1 : Gw z 1 w) by (eapply G_le; [|exact Gw2]; lia).
  assert (Gw0 : Gw z 0 w) by (eapply G_le; [|exact Gw2]; lia).
  assert (Lzw : (len z < len w)%nat) by (destruct Gw2 as (u1 & EU & KU); rewrite EU, app_length; lia).
  assert (L01 : (len t1 < len w)%nat).
  { rewrite Q1. unfold expect_peek in EP. destruct (peekis LBRACE w) eqn:PL; [|discriminate EP]. apply (peek_strict LBRACE w E ltac:(discriminate) PL). }
  pose proof (adv_len t1) as La1.
  destruct f as [|f1]; [lia|].
  rewrite parse_stmt_unfold, TY in H. cbv zeta in H. rewrite EP in H.
  destruct (P_block f1 script (len w :: bs) (len w :: cs) (cur t1) (adv t1) [] imp0) as [[[bd ibd] y2]| | |] eqn:EB; try discriminate H.
  destruct (IHb f1 (cur t1) bd ibd y2 ltac:(lia) EB) as (TB & OKB & la1 & L2 & Lyr).
  destruct (expect_peek WHILE y2) as [y3|] eqn:EP3; [|unfold err_range in H; discriminate H].
  destruct (expect_peek LPAREN y3) as [y4|] eqn:EP4; [|unfold err_range in H; discriminate H].
  destruct (bool_expr av sw ee pf c f1 false false script y4) as [[[e ie] y5]| | |] eqn:EE; try discriminate H.
  injection H as <- <- <-.
  pose proof (proj1 (HoistProgram.bexp_span av sw ee pf pf_advs y4 c f1) _ _ _ _ _ _ _ (advs_refl y4) EE) as (HT & HM & HCm).
  assert (A5 : advs y4 y5) by (eapply (proj1 (bexp_advs av sw pf c pf_advs ee f1)); [exact EE|apply advs_refl]).
  pose proof (advs_len _ _ A5) as L45. pose proof (adv_len y4) as La4.
  assert (L34 : (len y4 <= len y3)%nat) by (rewrite (expect_peek_some _ _ _ EP4); apply adv_len).
  assert (L23 : (len y3 <= len y2)%nat) by (rewrite (expect_peek_some _ _ _ EP3); apply adv_len).
  pose proof Lr as Lr'.
  assert (CI1 : forall c0, In c0 (HoistProgram.bexp_cmds e) -> (cid c0 <= len ra)%nat).
  { intros c0 Hc0. destruct (HCm (script, c0)) as [B _]; [apply in_map; exact Hc0|]. cbn [snd] in B. lia. }
  assert (CI2 : forall n, In n (TwinProgram.imp_ids ie) -> (n <= len rest)%nat).
  { intros n Hn. unfold TwinProgram.imp_ids in Hn. apply in_app_or in Hn. destruct Hn as [Hn|Hn]; apply in_map_iff in Hn; destruct Hn as (it & <- & Hit).
    - specialize (HT it Hit). lia.
    - specialize (HM it Hit). lia. }
  assert (XE : e = g_bexp G0 e).
  { rewrite <- (g_bexp_id e) at 1. apply g_bexp_ext_cmds. intros c0 Hc0. symmetry. apply G0_lo. apply CI1. exact Hc0. }
  assert (XI : ie = g_imp G0 ie).
  { rewrite <- (TwinProgram.g_imp_id ie) at 1. apply TwinProgram.g_imp_ext. intros n Hn. symmetry. apply G0_lo. specialize (CI2 n Hn). lia. }
  split; [|split; [|split; [exact la1|lia]]].
  - rewrite parse_stmt_unfold, (swap_cur z tw w Gw1), TY. cbv zeta.
    rewrite (swap_expect_peek z tw ZNE TWNE LBRACE w Gw2), EP.
    rewrite (swap_cur z tw t1 Gt1), (swap_adv z tw ZNE TWNE t1 Gt1).
    rewrite (s_len z tw w Gw0), <- (G0_hi (len w) Lzw).
    change (G0 (len w) :: map G0 bs) with (map G0 (len w :: bs)). change (G0 (len w) :: map G0 cs) with (map G0 (len w :: cs)).
    rewrite TB. rewrite EP3, EP4, EE. cbn [map g_stmt]. rewrite <- XE, TwinParse.g_imp_add, <- XI. reflexivity.
  - destruct OKB as [OB1 OB2]. split.
    + intros n Hn. unfold TwinProgram.ids, TagRename.atags, HoistProgram.cmds in Hn.
      cbn [flat_map TagRename.atags1 HoistProgram.stmt_cmds] in Hn. rewrite !app_nil_r in Hn.
      apply in_app_or in Hn. destruct Hn as [[<-|Hn]|Hn].
      * left. exact Lzw.
      * apply OB1. unfold TwinProgram.ids. apply in_or_app. left. exact Hn.
      * rewrite map_app in Hn. apply in_app_or in Hn. destruct Hn as [Hn|Hn].
        -- apply OB1. unfold TwinProgram.ids. apply in_or_app. right. exact Hn.
        -- apply in_map_iff in Hn. destruct Hn as (c0 & <- & Hc0). right. right.
           destruct (HCm (script, c0)) as [B _]; [apply in_map; exact Hc0|]. cbn [snd] in B. lia.
    + intros n Hn. apply TwinProgram.imp_ids_add in Hn. destruct Hn as [Hn|Hn]; [apply OB2; exact Hn|right; right; apply CI2; exact Hn].
Qed.

(* ---------- (3) any nesting depth ---------- *)
(* nest bs cs x: the block whose contents start at x (parsed with the scope stacks bs cs) contains the poryswitch z
   - directly: behind a run of statements of this block (then bs cs are the stacks bsz csz of the context), or
   - in the body of a `while` statement of this block (reached by a run of statements), at any depth. *)
Inductive nest : list nat -> list nat -> toks -> Prop :=
| nest_here x b1 i1 : eof_ended x -> srun script bsz csz x b1 i1 z -> nest bsz csz x
| nest_while bs cs x b1 i1 w f0 e ie t1 t2 :
    eof_ended x -> srun script bs cs x b1 i1 w -> ttype (cur w) = WHILE ->
    (5 * len w <= f0)%nat -> cond_head f0 false w = Ok (e, ie, t1) -> expect_peek LBRACE t1 = Some t2 ->
    nest (len w :: bs) (len w :: cs) (adv t2) -> nest bs cs x
| nest_do bs cs x b1 i1 w t1 :
    eof_ended x -> srun script bs cs x b1 i1 w -> ttype (cur w) = DO -> expect_peek LBRACE w = Some t1 ->
    nest (len w :: bs) (len w :: cs) (adv t1) -> nest bs cs x.

Lemma nest_Gw bs cs x : nest bs cs x -> Gw z 0 x /\ eof_ended x.
Proof.
  induction 1 as [x b1 i1 E R|bs cs x b1 i1 w f0 e ie t1 t2 E R TY Lf CH EP N [IH _]|bs cs x b1 i1 w t1 E R TY EP N [IH _]].
  - split; [|exact E]. pose proof (TwinParse.srun_advs av sw ee pf c pf_advs _ _ _ _ _ _ _ R) as A.
    destruct (advs_suffix _ _ A) as (u & ->). exists u. split; [reflexivity|apply Nat.le_0_l].
  - split; [|exact E]. eapply G_advs; [|exact IH].
    eapply advs_trans; [eapply TwinParse.srun_advs; [exact pf_advs|exact R]|].
    eapply advs_trans; [eapply cond_head_advs; exact CH|]. rewrite (expect_peek_some _ _ _ EP). apply advs_adv_r, advs_adv_r, advs_refl.
  - split; [|exact E]. eapply G_advs; [|exact IH].
    eapply advs_trans; [eapply TwinParse.srun_advs; [exact pf_advs|exact R]|].
    rewrite (expect_peek_some _ _ _ EP). apply advs_adv_r, advs_adv_r, advs_refl.
Qed.

Lemma curis_of_ty ty x : ttype (cur x) = ty -> curis ty x = true.
Proof. intros E. unfold curis, is. rewrite E. unfold tt_eqb. destruct (toktype_eq_dec ty ty); congruence. Qed.

Theorem nest_twin bs cs x : nest bs cs x ->
  Forall (fun n => len z < n)%nat bs -> Forall (fun n => len z < n)%nat cs -> TWb bs cs x.
Proof.
  induction 1 as [x b1 i1 E R|bs cs x b1 i1 w f0 e ie t1 t2 E R TY Lf CH EP N IH|bs cs x b1 i1 w t1 E R TY EP N IH]; intros Hb Hc.
  3:{ destruct (nest_Gw _ _ _ N) as [GX2 _].
    pose proof (TwinParse.srun_advs av sw ee pf c pf_advs _ _ _ _ _ _ _ R) as A0. pose proof (advs_eof _ _ A0 E) as Ew.
    pose proof (expect_peek_some _ _ _ EP) as Q1.
    assert (Et1 : eof_ended t1) by (rewrite Q1; eapply advs_eof; [apply advs_adv_r, advs_refl|exact Ew]).
    assert (Gt1 : Gw z 1 t1) by (apply TwinProgram.Gw_step_back; [exact Et1|exact ZNE|exact CEz|exact GX2]).
    assert (Gw2 : Gw z 2 w) by (apply (G_adv_inv z ZNE); [lia|rewrite <- Q1; exact Gt1]).
    assert (Lzw : (len z < len w)%nat) by (destruct Gw2 as (u1 & EU & KU); rewrite EU, app_length; lia).
    pose proof (curis_of_ty _ _ TY) as CW.
    eapply (twin_block_step_in x b1 i1 w); [exact E|exact R|eapply G_le; [|exact Gw2]; lia| | |exact Hb|exact Hc|].
    + eapply TwinParse.curis_excl; [exact CW|discriminate].
    + eapply TwinParse.curis_excl; [exact CW|discriminate].
    + eapply (twin_do_step w bs cs t1); try eassumption.
      apply IH; constructor; assumption. }
  - eapply twin_block_base; eassumption.
  - destruct (nest_Gw _ _ _ N) as [GX2 _].
    pose proof (TwinParse.srun_advs av sw ee pf c pf_advs _ _ _ _ _ _ _ R) as A0. pose proof (advs_eof _ _ A0 E) as Ew.
    pose proof (cond_head_advs _ _ _ _ _ _ CH) as A1. pose proof (advs_eof _ _ A1 Ew) as Et1.
    pose proof (expect_peek_some _ _ _ EP) as Q2.
    assert (Et2 : eof_ended t2) by (rewrite Q2; eapply advs_eof; [apply advs_adv_r, advs_refl|exact Et1]).
    assert (Gt2 : Gw z 1 t2) by (apply TwinProgram.Gw_step_back; [exact Et2|exact ZNE|exact CEz|exact GX2]).
    assert (Gt1 : Gw z 2 t1) by (apply (G_adv_inv z ZNE); [lia|rewrite <- Q2; exact Gt2]).
    assert (Gw2 : Gw z 2 w) by (eapply G_advs; [exact A1|exact Gt1]).
    assert (Lzw : (len z < len w)%nat) by (destruct Gw2 as (u1 & EU & KU); rewrite EU, app_length; lia).
    pose proof (curis_of_ty _ _ TY) as CW.
    eapply (twin_block_step_in x b1 i1 w); [exact E|exact R|eapply G_le; [|exact Gw2]; lia| | |exact Hb|exact Hc|].
    + eapply TwinParse.curis_excl; [exact CW|discriminate].
    + eapply TwinParse.curis_excl; [exact CW|discriminate].
    + eapply (twin_while_step w bs cs f0 e ie t1 t2); try eassumption.
      apply IH; constructor; assumption.
Qed.

(* the block of a script (both stacks empty): ONE injective renaming *)
Theorem twin_nested_block x f start b imp y : nest [] [] x -> (5 * len x + 3 <= f)%nat ->
  P_block f script [] [] start x [] imp0 = Ok (b, imp, y) ->
  exists G : nat -> nat, (forall a b0, G a = G b0 -> a = b0) /\
    P_block f script [] [] start (swp x) [] imp0 = Ok (map (g_stmt G) b, g_imp G imp, y).
Proof.
  intros N Bf H. destruct (nest_twin _ _ _ N (Forall_nil _) (Forall_nil _) f start b imp y Bf H) as (TB & [O1 O2] & _).
  cbn [map] in TB.
  set (T := TwinProgram.ids b ++ TwinProgram.imp_ids imp).
  assert (INJ : TagRename.inj_on G0 T).
  { intros a b0 Ha Hb0 EQ. apply G0_inj; [| |exact EQ].
    - unfold T in Ha. apply in_app_or in Ha. destruct Ha; auto.
    - unfold T in Hb0. apply in_app_or in Hb0. destruct Hb0; auto. }
  exists (TagRename.extend G0 T). split; [apply TagRename.extend_inj; exact INJ|].
  assert (AG : forall n, In n T -> G0 n = TagRename.extend G0 T n) by (intros n Hn; symmetry; apply TagRename.extend_agree; exact Hn).
  rewrite TB.
  assert (Q1 : map (g_stmt G0) b = map (g_stmt (TagRename.extend G0 T)) b); [|assert (Q2 : g_imp G0 imp = g_imp (TagRename.extend G0 T) imp); [|rewrite Q1, Q2; reflexivity]].
  - apply TwinProgram.g_stmts_ext. intros n Hn. apply AG. unfold T. apply in_or_app. left. exact Hn.
  - apply TwinProgram.g_imp_ext. intros n Hn. apply AG. unfold T. apply in_or_app. right. exact Hn.
Qed.

Lemma nest_advs bs cs x : nest bs cs x -> advs x z.
Proof.
  induction 1 as [x b1 i1 E R|bs cs x b1 i1 w f0 e ie t1 t2 E R TY Lf CH EP N IH|bs cs x b1 i1 w t1 E R TY EP N IH].
  - eapply TwinParse.srun_advs; [exact pf_advs|exact R].
  - eapply advs_trans; [eapply TwinParse.srun_advs; [exact pf_advs|exact R]|].
    eapply advs_trans; [eapply cond_head_advs; exact CH|].
    eapply advs_trans; [|exact IH]. rewrite (expect_peek_some _ _ _ EP). apply advs_adv_r, advs_adv_r, advs_refl.
  - eapply advs_trans; [eapply TwinParse.srun_advs; [exact pf_advs|exact R]|].
    eapply advs_trans; [|exact IH]. rewrite (expect_peek_some _ _ _ EP). apply advs_adv_r, advs_adv_r, advs_refl.
Qed.

(* the scope stacks at the poryswitch are the tags of the enclosing loops: streams that contain z *)
Lemma nest_scopes bs cs x : nest bs cs x -> z <> [] -> curis EOF z = false ->
  Forall (fun n => len z < n)%nat bs -> Forall (fun n => len z < n)%nat cs ->
  Forall (fun n => len z < n)%nat bsz /\ Forall (fun n => len z < n)%nat csz.
Proof.
  intros N NZ CE. induction N as [x b1 i1 E R|bs cs x b1 i1 w f0 e ie t1 t2 E R TY Lf CH EP N IH|bs cs x b1 i1 w t1 E R TY EP N IH]; intros Hb Hc; [split; assumption| |].
  2:{ pose proof (nest_advs _ _ _ N) as AZ.
    pose proof (TwinParse.srun_advs av sw ee pf c pf_advs _ _ _ _ _ _ _ R) as A0. pose proof (advs_eof _ _ A0 E) as Ew.
    pose proof (expect_peek_some _ _ _ EP) as Q1.
    assert (L01 : (len t1 < len w)%nat).
    { rewrite Q1. unfold expect_peek in EP. destruct (peekis LBRACE w) eqn:PL; [|discriminate EP]. apply (peek_strict LBRACE w Ew ltac:(discriminate) PL). }
    pose proof (advs_len _ _ AZ) as L3. pose proof (adv_len t1) as L4.
    apply IH; constructor; try assumption; lia. }
  pose proof (nest_advs _ _ _ N) as AZ.
  pose proof (TwinParse.srun_advs av sw ee pf c pf_advs _ _ _ _ _ _ _ R) as A0. pose proof (advs_eof _ _ A0 E) as Ew.
  pose proof (cond_head_advs _ _ _ _ _ _ CH) as A1. pose proof (advs_eof _ _ A1 Ew) as Et1.
  pose proof (expect_peek_some _ _ _ EP) as Q2.
  assert (L12 : (len t2 < len t1)%nat).
  { rewrite Q2. unfold expect_peek in EP. destruct (peekis LBRACE t1) eqn:PL; [|discriminate EP]. apply (peek_strict LBRACE t1 Et1 ltac:(discriminate) PL). }
  pose proof (advs_len _ _ AZ) as L3. pose proof (adv_len t2) as L4. pose proof (advs_len _ _ A1) as L5.
  apply IH; constructor; try assumption; lia.
Qed.

End TWIN.

(* ------------------------------------------------------------------------------------------------------------ *)
(* Part 3: from the block to the PROGRAM and to the compile outcome: a poryswitch nested (at any depth, in `while`   *)
(* bodies) in the block of a TOP-LEVEL script.  Same route as TwinProgram.twin_program_at.                          *)
(* ------------------------------------------------------------------------------------------------------------ *)
Section PROGRAM.
Variable av : list (text * autovar).
Variable sw : list (text * text).
Variable ee : bool.
Variable pf : toks -> res (token * text * text * toks).
Hypothesis pf_advs : format_advs pf.
Hypothesis pf_local : format_local pf.
Hypothesis pf_lt : format_lt pf.

Theorem twin_nested_program T f1 st1 xs g t1 t2 t3 z body ra bsz csz scn sv ts1 ts2 F cases ss imp' p1 :
  let c := pconsts st1 in let name := tlit (cur t2) in
  eof_ended T ->
  tops_run av sw ee pf (5 * len T + 4) TwinProgram.st0 T f1 st1 xs ->
  ttype (cur xs) = SCRIPT ->
  scope_modifier true xs = Ok (g, t1) -> expect_peek IDENT t1 = Some t2 -> expect_peek LBRACE t2 = Some t3 ->
  nest av sw ee pf c name z bsz csz [] [] (adv t3) ->
  curis PORYSWITCH z = true -> poryswitch_header sw ee z = Ok (scn, sv, ts1) -> (5 * len z <= F)%nat ->
  parse_pory_cases av sw ee pf c F name bsz csz (cur ts1) ts1 [] = Ok (cases, ts2) ->
  PorySwitchLists.pory_select cases sv = Some (ss, imp') ->
  advs ts1 (body ++ ra) -> TwinParse.srun av sw ee pf c name bsz csz (body ++ ra) ss imp' ra -> advs ra ts2 ->
  (curis RBRACE ra = true \/ curis IDENT ra = true \/ curis INT ra = true) ->
  (csz = [] \/ TwinParse.LC ra (adv ts2)) ->
  parse_program av sw ee pf T = Ok p1 ->
  exists U p2,
    T = U ++ z /\
    (len (U ++ body ++ adv ts2) < len T)%nat /\
    parse_program av sw ee pf (U ++ body ++ adv ts2) = Ok p2 /\
    TagRename.shape_program p1 = TagRename.shape_program p2.
Proof.
  intros c name E RUN TY SM EP1 EP2 NEST CP HH BF HC SEL AB RR AR RAK HLC HP.
  (* the original *)
  unfold parse_program in HP.
  destruct (parse_tops av sw ee pf (5 * len T + 4) {| pconsts := []; ph := hst0; ptops := []; ptexts := [] |} T) as [stf| | |] eqn:PT; try discriminate HP.
  destruct (dup_text [] (checked_texts ee stf)) as [xd|] eqn:DT; [unfold err_tok in HP; discriminate HP|].
  destruct (dup_mov [] (checked_tops ee stf)) as [tkd|] eqn:DM; [unfold err_tok in HP; discriminate HP|].
  injection HP as <-.
  fold TwinProgram.st0 in PT. rewrite (tops_run_parse_tops _ _ _ _ _ _ _ _ _ _ RUN) in PT.
  destruct (tops_run_eof av sw ee pf pf_advs _ _ _ _ _ _ RUN E (Nat.le_refl _)) as [Exs Bf1].
  destruct f1 as [|f]; [lia|].
  rewrite parse_tops_step in PT.
  assert (NE : curis EOF xs = false) by (apply (TwinParse.curis_excl SCRIPT EOF); [apply TwinProgram.curis_of_type; exact TY|discriminate]).
  rewrite NE in PT. rewrite (TwinProgram.top_step_script _ _ _ _ _ _ _ _ TY) in PT. rewrite (TwinProgram.parse_script_eq _ _ _ _ _ _ _ _ _ _ _ SM EP1 EP2) in PT.
  fold c name in PT.
  destruct (parse_block av sw ee pf c f name [] [] (cur t3) (adv t3) [] imp0) as [[[b imp] y]| | |] eqn:PB; try discriminate PT.
  destruct (add_implicit imp (ph st1)) as [h' ps] eqn:AI. cbv beta iota in PT.
  (* stream facts *)
  pose proof (expect_peek_some _ _ _ EP1) as Q2. pose proof (expect_peek_some _ _ _ EP2) as Q3.
  assert (A1 : advs xs t1) by (eapply scope_modifier_advs; [exact SM|apply advs_refl]).
  assert (A3 : advs xs (adv t3)) by (apply advs_adv_r; rewrite Q3; apply advs_adv_r; rewrite Q2; apply advs_adv_r; exact A1).
  assert (Et1 : eof_ended t1) by (eapply advs_eof; eassumption).
  assert (Et3 : eof_ended t3) by (rewrite Q3, Q2; eapply advs_eof; [apply advs_adv_r, advs_adv_r, advs_refl|exact Et1]).
  remember (adv t3) as x eqn:Dx.
  assert (Ex : eof_ended x) by (eapply advs_eof; eassumption).
  pose proof (advs_len _ _ A3) as Lx.
  assert (A0 : advs x z) by (eapply nest_advs; eassumption).
  pose proof (advs_eof _ _ A0 Ex) as Ez.
  assert (NEz : z <> []) by (destruct Ez; assumption).
  assert (CEz' : curis EOF z = false) by (eapply TwinParse.curis_excl; [exact CP|discriminate]).
  assert (HS : Forall (fun n => len z < n)%nat bsz /\ Forall (fun n => len z < n)%nat csz).
  { eapply nest_scopes; try eassumption; try exact (Forall_nil _). }
  destruct HS as [Hbz Hcz].
  remember (adv ts2) as rest eqn:Drest. remember (body ++ rest) as tw eqn:Dtw.
  destruct (twin_nested_block av sw ee pf c pf_advs pf_local pf_lt name z body ra rest bsz csz scn sv ts1 ts2 F cases ss imp'
              Ez CP HH BF HC SEL AB RR AR RAK Drest HLC Hbz Hcz x f (cur t3) b imp y NEST ltac:(lia) PB) as (G & Ginj & PBT).
  rewrite <- Dtw in PBT.
  destruct (advs_suffix _ _ A0) as (pre & EX).
  (* lengths *)
  pose proof (Lr av sw ee pf c pf_advs pf_lt name z body ra rest bsz csz scn sv ts1 ts2 F cases ss imp' Ez HH BF HC AB RR AR Drest) as LR.
  pose proof (Lb sw ee z body ra scn sv ts1 F Ez HH BF AB) as Lb'.
  assert (Ltwl : len tw = (len body + len rest)%nat) by (rewrite Dtw; apply app_length).
  pose proof (Erest av sw ee pf c pf_advs name z body ra rest bsz csz scn sv ts1 ts2 ss imp' Ez HH AB RR AR Drest) as Erest'.
  (* the whole streams *)
  pose proof (tops_run_advs av sw ee pf pf_advs _ _ _ _ _ _ RUN) as AT.
  assert (ATz : advs T z) by (eapply advs_trans; [exact AT|]; eapply advs_trans; [exact A3|exact A0]).
  destruct (advs_suffix _ _ ATz) as (U & ET).
  assert (Etw : eof_ended tw) by (rewrite Dtw; apply ProgSrc.eof_ended_app; exact Erest').
  assert (TWNE : tw <> []) by (destruct Etw; assumption).
  assert (GZx : Gw z 0 x) by (exists pre; split; [exact EX|lia]).
  assert (Gt3 : Gw z 1 t3) by (apply TwinProgram.Gw_step_back; [exact Et3|exact NEz|exact CEz'|rewrite <- Dx; exact GZx]).
  assert (Gt2 : Gw z 2 t2) by (apply (G_adv_inv z NEz); [lia|rewrite <- Q3; exact Gt3]).
  assert (Gt1 : Gw z 3 t1) by (apply (G_adv_inv z NEz); [lia|rewrite <- Q2; exact Gt2]).
  assert (Gxs : Gw z 3 xs) by (eapply G_advs; [exact A1|exact Gt1]).
  (* the statements in front of the script, in the twin *)
  assert (CK : class_ok z tw) by (unfold class_ok; rewrite (TagRename.BlockStep.curis_type _ _ CP); discriminate).
  assert (Gxs0 : Gw z 0 xs) by (eapply G_le; [|exact Gxs]; lia).
  destruct (tops_run_context av sw ee pf pf_advs pf_local z tw Ez TWNE CK _ _ _ _ _ _ RUN Gxs0 TwinProgram.st0 eq_refl eq_refl)
    as (d & d' & e & P1 & P2 & SH & RUN').
  cbn [ptops ptexts TwinProgram.st0 app] in P1, P2, RUN'.
  assert (SWT : swap z tw T = U ++ tw) by (rewrite ET; apply swap_app).
  rewrite SWT in RUN'.
  remember {| pconsts := pconsts st1; ph := ph st1; ptops := d'; ptexts := e |} as st1' eqn:Dst1'.
  (* the script statement, in the twin *)
  remember (st_add st1' c h' [TScript name g (map (g_stmt G) (map (pstmt ps) b))] []) as st2' eqn:Dst2'.
  assert (STEP : parse_tops av sw ee pf (S f) st1' (swap z tw xs) = parse_tops av sw ee pf f st2' (adv y)).
  { rewrite parse_tops_step. rewrite (swap_curis z tw EOF xs) by (eapply G_le; [|exact Gxs]; lia). rewrite NE.
    rewrite TwinProgram.top_step_script by (rewrite (swap_cur z tw xs) by (eapply G_le; [|exact Gxs]; lia); exact TY).
    rewrite (TwinProgram.parse_script_eq _ _ _ _ _ _ _ g (swap z tw t1) (swap z tw t2) (swap z tw t3)).
    2:{ apply (scope_modifier_swap z tw NEz TWNE _ _ _ _ SM). eapply G_le; [|exact Gt1]; lia. }
    2:{ rewrite (swap_expect_peek z tw NEz TWNE IDENT t1) by (eapply G_le; [|exact Gt1]; lia). rewrite EP1. reflexivity. }
    2:{ rewrite (swap_expect_peek z tw NEz TWNE LBRACE t2) by exact Gt2. rewrite EP2. reflexivity. }
    rewrite (swap_cur z tw t2) by (eapply G_le; [|exact Gt2]; lia).
    rewrite (swap_cur z tw t3 Gt3). rewrite (swap_adv z tw NEz TWNE t3 Gt3). rewrite <- Dx.
    rewrite Dst1'. cbn [pconsts ph]. fold c name. rewrite PBT. rewrite add_implicit_g, AI. cbn [fst snd].
    rewrite (pstmts_g G Ginj). rewrite Dst2', Dst1'. reflexivity. }
  (* the rest of the loop *)
  assert (Ec2 : pconsts st2' = pconsts (st_add st1 c h' [TScript name g (map (pstmt ps) b)] [])) by (rewrite Dst2', Dst1'; reflexivity).
  assert (Eh2 : ph st2' = ph (st_add st1 c h' [TScript name g (map (pstmt ps) b)] [])) by (rewrite Dst2', Dst1'; reflexivity).
  destruct (TwinProgram.parse_tops_lists av sw ee pf f _ st2' _ _ Ec2 Eh2 PT) as (d2 & e2 & Q1 & Q2' & PT').
  cbn [st_add ptops ptexts] in Q1, Q2'. rewrite P1 in Q1. rewrite P2, app_nil_r in Q2'.
  assert (TX2 : ptexts st2' = e) by (rewrite Dst2', Dst1'; cbn [st_add ptexts]; apply app_nil_r).
  assert (TP2 : ptops st2' = d' ++ [TScript name g (map (g_stmt G) (map (pstmt ps) b))]) by (rewrite Dst2', Dst1'; reflexivity).
  rewrite TX2, TP2 in PT'.
  remember {| pconsts := pconsts stf; ph := ph stf; ptops := (d' ++ [TScript name g (map (g_stmt G) (map (pstmt ps) b))]) ++ d2; ptexts := e ++ e2 |} as stf' eqn:Dstf'.
  assert (SHP : map TagRename.shape_top (ptops stf') = map TagRename.shape_top (ptops stf)).
  { rewrite Dstf', Q1. cbn [ptops]. rewrite !map_app. rewrite (TwinProgram.shifted_shape _ _ _ _ SH). cbn [map TagRename.shape_top].
    rewrite TwinParse.shape_g_stmts. reflexivity. }
  (* the twin program *)
  assert (LT : (len (U ++ tw) < len T)%nat) by (rewrite ET, !app_length, Ltwl; lia).
  assert (ETw : eof_ended (U ++ tw)) by (apply ProgSrc.eof_ended_app; exact Etw).
  assert (PP : parse_tops av sw ee pf (5 * len (U ++ tw) + 4) TwinProgram.st0 (U ++ tw) = Ok stf').
  { rewrite (TwinProgram.parse_tops_fuel av sw ee pf pf_advs pf_lt TwinProgram.st0 (U ++ tw) _ (5 * len T + 4) ETw) by lia.
    rewrite (tops_run_parse_tops _ _ _ _ _ _ _ _ _ _ RUN'). rewrite STEP. exact PT'. }
  exists U.
  exists {| tops := ptops stf' ++ hmovs (ph stf'); texts := htexts (ph stf') ++ ptexts stf' |}.
  split; [exact ET|]. split; [exact LT|].
  assert (PHE : ph stf' = ph stf) by (rewrite Dstf'; reflexivity).
  assert (TXE : ptexts stf' = ptexts stf) by (rewrite Dstf', Q2'; reflexivity).
  split.
  - unfold parse_program. fold TwinProgram.st0. rewrite PP.
    assert (CT : checked_texts ee stf' = checked_texts ee stf) by (unfold checked_texts; rewrite PHE, TXE; reflexivity).
    rewrite CT, DT.
    assert (CM : dup_mov [] (checked_tops ee stf') = dup_mov [] (checked_tops ee stf)).
    { apply TwinProgram.dup_mov_shape. unfold checked_tops. rewrite PHE. destruct ee; [rewrite !map_app, SHP; reflexivity|exact SHP]. }
    rewrite CM, DM. reflexivity.
  - unfold TagRename.shape_program. cbn [tops texts]. rewrite PHE, TXE. f_equal. rewrite !map_app, SHP. reflexivity.
Qed.
End PROGRAM.

Definition twin_nested_program_real av sw ee fc font ml :=
  twin_nested_program av sw ee (Format.parse_format fc font ml ee)
    (real_format_advs fc font ml ee) (real_format_local fc font ml ee) (real_format_lt fc font ml ee).

(* C12 for a poryswitch nested in `while` / `do-while` bodies (any depth) of a top-level script, from source text to output text.
   src: a source whose token stream is U ++ z with a statement poryswitch at z (nest: the position of z in the block of the
   script at xs); body: the tokens of the statements of the selected case, ra: the stream behind them; src': ANY source whose
   token stream is U ++ body ++ (what follows the closing brace of the poryswitch).  If src parses and - a loop encloses the
   poryswitch - LC holds, both compile to the same outcome (the same text, or the same emitter error). *)
Theorem twin_nested_compile hl hd hs av sw ee fc font ml optimize mpath src f1 st1 xs g t1 t2 t3 z body ra bsz csz scn sv ts1 ts2 F cases ss imp' p1 :
  let pf := Format.parse_format fc font ml ee in
  let T := lex hl hd hs src in
  let c := pconsts st1 in let name := tlit (cur t2) in
  tops_run av sw ee pf (5 * len T + 4) TwinProgram.st0 T f1 st1 xs ->
  ttype (cur xs) = SCRIPT ->
  scope_modifier true xs = Ok (g, t1) -> expect_peek IDENT t1 = Some t2 -> expect_peek LBRACE t2 = Some t3 ->
  nest av sw ee pf c name z bsz csz [] [] (adv t3) ->
  curis PORYSWITCH z = true -> poryswitch_header sw ee z = Ok (scn, sv, ts1) -> (5 * len z <= F)%nat ->
  parse_pory_cases av sw ee pf c F name bsz csz (cur ts1) ts1 [] = Ok (cases, ts2) ->
  PorySwitchLists.pory_select cases sv = Some (ss, imp') ->
  advs ts1 (body ++ ra) -> TwinParse.srun av sw ee pf c name bsz csz (body ++ ra) ss imp' ra -> advs ra ts2 ->
  (curis RBRACE ra = true \/ curis IDENT ra = true \/ curis INT ra = true) ->
  (csz = [] \/ TwinParse.LC ra (adv ts2)) ->
  parse_program av sw ee pf T = Ok p1 ->
  forall U src', T = U ++ z -> lex hl hd hs src' = U ++ body ++ adv ts2 ->
    Compile.compile hl hd hs av sw ee fc font ml optimize mpath src =
    Compile.compile hl hd hs av sw ee fc font ml optimize mpath src'.
Proof.
  intros pf T c name RUN TY SM EP1 EP2 NEST CP HH BF HC SEL AB RR AR RAK HLC HP U src' ET Hl.
  destruct (twin_nested_program_real av sw ee fc font ml T f1 st1 xs g t1 t2 t3 z body ra bsz csz scn sv ts1 ts2 F cases ss imp' p1
              (ProgSrc.lex_eof hl hd hs src) RUN TY SM EP1 EP2 NEST CP HH BF HC SEL AB RR AR RAK HLC HP)
    as (U0 & p2 & ET0 & LT & HP2 & SHP).
  assert (EU : U0 = U) by (rewrite ET in ET0; apply app_inv_tail in ET0; symmetry; exact ET0).
  subst U0. rewrite <- Hl in HP2.
  exact (TagRename.compile_same_shape hl hd hs av av sw sw ee ee fc fc font font ml ml optimize mpath src src' p1 p2 HP HP2 SHP).
Qed.

(* ---------- the hypotheses of twin_nested_compile hold on a concrete program: a poryswitch (3 cases, RUBY selected, its body
   ends with a free `break`) as the last statement of a while body ---------- *)
Open Scope string_scope.
Definition nx_src : string :=
  "script A { lock while (flag(F)) { faceplayer poryswitch(GAME) { SAPPHIRE: release RUBY { msgbox(""hi"") break } _ { end } } } release }".
Definition nx_twin : string :=
  "script A { lock while (flag(F)) { faceplayer                                             msgbox(""hi"") break               } release }".
Close Scope string_scope.
Definition nxf := TagRename.nf.
Definition nx_T : toks := Eval vm_compute in lex nxf nxf nxf (t nx_src).
Lemma nx_T_eq : lex nxf nxf nxf (t nx_src) = nx_T. Proof. vm_compute. reflexivity. Qed.
Definition nx_pf := Format.parse_format TagRename.fc0 [] 0%Z true.

Example twin_nested_compile_example :
  Compile.compile nxf nxf nxf [] TagRename.sw0 true TagRename.fc0 [] 0%Z false None (t nx_src) =
  Compile.compile nxf nxf nxf [] TagRename.sw0 true TagRename.fc0 [] 0%Z false None (t nx_twin).
Proof.
  eapply (twin_nested_compile nxf nxf nxf [] TagRename.sw0 true TagRename.fc0 [] 0%Z false None (t nx_src))
    with (xs := nx_T) (z := skipn 13 nx_T) (body := firstn 5 (skipn 23 nx_T)) (ra := skipn 28 nx_T) (U := firstn 13 nx_T)
         (bsz := [len (skipn 4 nx_T)]) (csz := [len (skipn 4 nx_T)]).
  all: rewrite ?nx_T_eq.
  - apply run_refl.
  - vm_compute; reflexivity.
  - vm_compute; reflexivity.
  - vm_compute; reflexivity.
  - vm_compute; reflexivity.
  - (* the position: `lock`, then the while statement; in its body `faceplayer`, then the poryswitch *)
    eapply (nest_while _ _ _ _ _ _ _ _ _ [] [] _ _ _ (skipn 4 nx_T) (5 * len (skipn 4 nx_T))).
    + vm_compute. split; [congruence|reflexivity].
    + eapply TwinProgram.srun_one; [apply Nat.le_refl|vm_compute; reflexivity|vm_compute; lia|vm_compute; reflexivity].
    + vm_compute; reflexivity.
    + apply Nat.le_refl.
    + vm_compute; reflexivity.
    + vm_compute; reflexivity.
    + eapply nest_here.
      * vm_compute. split; [congruence|reflexivity].
      * eapply TwinProgram.srun_one; [apply Nat.le_refl|vm_compute; reflexivity|vm_compute; lia|vm_compute; reflexivity].
  - vm_compute; reflexivity.
  - vm_compute; reflexivity.
  - apply Nat.le_refl.
  - vm_compute; reflexivity.
  - vm_compute; reflexivity.
  - match goal with |- advs ?a _ => let n := eval vm_compute in (len a - len (skipn 23 nx_T))%nat in apply (TwinProgram.advs_at n) end;
      [vm_compute; lia|vm_compute; reflexivity].
  - (* the body of the RUBY case: msgbox("hi") and a free break *)
    eapply TwinProgram.srun_eq; [TwinProgram.srun_build|vm_compute; reflexivity|vm_compute; reflexivity].
  - match goal with |- advs _ ?b => let n := eval vm_compute in (len (skipn 28 nx_T) - len b)%nat in apply (TwinProgram.advs_at n) end;
      [vm_compute; lia|vm_compute; reflexivity].
  - left. vm_compute. reflexivity.
  - right. unfold TwinParse.LC. intros _. vm_compute. reflexivity.
  - vm_compute. reflexivity.
  - symmetry. apply firstn_skipn.
  - vm_compute. reflexivity.
Qed.
Example twin_nested_compile_example_nontrivial :
  (exists out, Compile.compile nxf nxf nxf [] TagRename.sw0 true TagRename.fc0 [] 0%Z false None (t nx_src) = Compile.OutText out) /\
  (exists p1 p2, parse_program [] TagRename.sw0 true nx_pf (lex nxf nxf nxf (t nx_src)) = Ok p1 /\
                 parse_program [] TagRename.sw0 true nx_pf (lex nxf nxf nxf (t nx_twin)) = Ok p2 /\ tops p1 <> tops p2).
Proof.
  split; [eexists; vm_compute; reflexivity|]. eexists. eexists. split; [vm_compute; reflexivity|]. split; [vm_compute; reflexivity|].
  intros H. vm_compute in H. discriminate H.
Qed.

(* ---------- depth 2: the poryswitch (colon form, RUBY selected, a case label follows: LC holds trivially) is the first
   statement of a while body inside a do-while body; statements follow it in the while body ---------- *)
Open Scope string_scope.
Definition n2_src : string :=
  "script B { do { faceplayer while (flag(F)) { poryswitch(GAME) { RUBY: msgbox(""hi"") SAPPHIRE: release } lock } } while (flag(G)) end }".
Definition n2_twin : string :=
  "script B { do { faceplayer while (flag(F)) {                          msgbox(""hi"")                     lock } } while (flag(G)) end }".
Close Scope string_scope.
Definition n2_T : toks := Eval vm_compute in lex nxf nxf nxf (t n2_src).
Lemma n2_T_eq : lex nxf nxf nxf (t n2_src) = n2_T. Proof. vm_compute. reflexivity. Qed.

Example twin_nested_depth2_example :
  Compile.compile nxf nxf nxf [] TagRename.sw0 true TagRename.fc0 [] 0%Z false None (t n2_src) =
  Compile.compile nxf nxf nxf [] TagRename.sw0 true TagRename.fc0 [] 0%Z false None (t n2_twin).
Proof.
  eapply (twin_nested_compile nxf nxf nxf [] TagRename.sw0 true TagRename.fc0 [] 0%Z false None (t n2_src))
    with (xs := n2_T) (z := skipn 14 n2_T) (body := firstn 4 (skipn 21 n2_T)) (ra := skipn 25 n2_T) (U := firstn 14 n2_T)
         (bsz := [len (skipn 6 n2_T); len (skipn 3 n2_T)]) (csz := [len (skipn 6 n2_T); len (skipn 3 n2_T)]).
  all: rewrite ?n2_T_eq.
  - apply run_refl.
  - vm_compute; reflexivity.
  - vm_compute; reflexivity.
  - vm_compute; reflexivity.
  - vm_compute; reflexivity.
  - eapply (nest_do _ _ _ _ _ _ _ _ _ [] [] _ [] imp0 (skipn 3 n2_T)).
    + vm_compute. split; [congruence|reflexivity].
    + apply TwinParse.srun_nil.
    + vm_compute; reflexivity.
    + vm_compute; reflexivity.
    + eapply (nest_while _ _ _ _ _ _ _ _ _ _ _ _ _ _ (skipn 6 n2_T) (5 * len (skipn 6 n2_T))).
      * vm_compute. split; [congruence|reflexivity].
      * eapply TwinProgram.srun_one; [apply Nat.le_refl|vm_compute; reflexivity|vm_compute; lia|vm_compute; reflexivity].
      * vm_compute; reflexivity.
      * apply Nat.le_refl.
      * vm_compute; reflexivity.
      * vm_compute; reflexivity.
      * eapply (nest_here _ _ _ _ _ _ _ _ _ _ [] imp0).
        -- vm_compute. split; [congruence|reflexivity].
        -- apply TwinParse.srun_nil.
  - vm_compute; reflexivity.
  - vm_compute; reflexivity.
  - apply Nat.le_refl.
  - vm_compute; reflexivity.
  - vm_compute; reflexivity.
  - match goal with |- advs ?a _ => let n := eval vm_compute in (len a - len (skipn 21 n2_T))%nat in apply (TwinProgram.advs_at n) end;
      [vm_compute; lia|vm_compute; reflexivity].
  - eapply TwinProgram.srun_eq; [TwinProgram.srun_build|vm_compute; reflexivity|vm_compute; reflexivity].
  - match goal with |- advs _ ?b => let n := eval vm_compute in (len (skipn 25 n2_T) - len b)%nat in apply (TwinProgram.advs_at n) end;
      [vm_compute; lia|vm_compute; reflexivity].
  - right. left. vm_compute. reflexivity.
  - right. unfold TwinParse.LC. intros K. vm_compute in K. discriminate K.
  - vm_compute. reflexivity.
  - symmetry. apply firstn_skipn.
  - vm_compute. reflexivity.
Qed.
