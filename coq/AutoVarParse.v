(* C11, parser side: a condition leaf or a switch written on an AutoVar command.

   Properties_C11.v has the semantic half (a leaf with [lpre l = Some p] runs p once, then compares; short circuit).  This
   file proves what the PARSER puts into the leaf / in front of the switch.  Model functions: Parser.var_or_autovar
   (expectPeekVarOrAutoVar), Parser.leaf_expr (parseLeafBooleanExpression), Parser.parse_switch, Parser.command_stmt.

   [compared_var av c]  the result variable the configuration entry [av] gives for the parsed command [c]: the fixed name, or
                        the argument at the configured position (None = no such argument)   (compared_var_spec / _none)

   A. Every token stream (no grammar, no premise on the input):
     var_or_autovar_command / _unconfigured     expectPeekVarOrAutoVar = command_stmt on the same tokens + compared_var
     autovar_leaf_equation                      complete behaviour of leaf_expr on a leaf that starts with a configured identifier
     unconfigured_command_leaf_rejected         identifier not in the configuration: the leaf is rejected
     leaf_parse_cases, autovar_leaf_parse, leaf_preamble_origin
                                                reading of [leaf_expr .. = Ok (l, imp, rest)]: lpre l is the command command_stmt returns at
                                                that position (same name, arguments, token, id, inline data), compared variable =
                                                compared_var, comparison = cond_var_operator on the tokens after the command
                                                ("== 0" under '!'); a leaf has a preamble ONLY in this case
     autovar_leaf_position_out_of_range         configured position beyond the written arguments: error on the command
     var_leaf_comparison                        a var(...) leaf reads its comparison with the same function at the same place
     autovar_leaf_default_comparison / _written_comparison      no operator: "!= 0"; '!': "== 0"; else what cond_var_operator reads
     autovar_leaf_preamble_is_the_statement     parse_stmt started on the command name returns exactly [SCmd c], imp, same end
     autovar_switch_equation / _parse / unconfigured_command_switch_rejected / autovar_switch_position_out_of_range /
     autovar_switch_preamble_is_the_statement / autovar_switch_statement        the same for  switch ( cmd(...) )
     command_stmt_mono                          more fuel never changes a successful command parse
     every_preamble_in_a_condition (+ _if_or_while_, _do_while_)   EVERY leaf with a preamble in EVERY condition the parser accepts
                                                (any position, any nesting, after any negation push-down) is such a command

   B. Written forms (token grammar of CmdArgs / BexpParse):
     autovar_leaf_head / _head_not / _head_bare     NAME ( args ) R,  ! NAME ( args ) R,  NAME R
     cond_var_operator_values / _nothing            OP value-tokens / nothing before '&&' '||' ')'
     parser_builds_tree_at                          BexpParse.parser_builds_tree with the leaf requirement made relative to the
                                                    tokens that follow the leaf (an AutoVar command carries its position)
     autovar_leaf_plain / _negated / _compared / _bare_name     the AutoVar leaf forms meet that requirement
     condition_with_autovar_leaves_parses_to_its_meaning       conditions mixing AutoVar leaves and var/flag/defeated leaves:
                                                    the returned tree evaluates like the written expression (sev_expr)
     autovar_leaf_meaning                           the leaf: the command is the only event, then the variable is compared
     autovar_switch_with_arguments                  switch ( NAME ( args ) ) { ...
     preamble_rendered_as_statement                 emitter: the preamble is printed by the instruction of a command statement
   Examples: premises_hold, model_run, compiled_condition, compiled_switch, rejected_forms. *)
From Coq Require Import List String Ascii ZArith NArith Lia Bool.
From Pory Require Import Lexer Ast Emitter Parser Consume CmdArgs BexpParse.
From Pory Require Format Compile.
Import ListNotations.
Open Scope list_scope.

(* ---------- the configured result variable of a command ---------- *)
(* fixed var name, or the argument at the configured position; None = position out of range *)
Definition compared_var (av : autovar) (c : cmd) : option text :=
  match avPos av with
  | None => Some (avName av)
  | Some p => if (p <? 0)%Z || (p >? Z.of_nat (List.length (cargs c)) - 1)%Z then None
              else Some (nth (Z.to_nat p) (cargs c) [])
  end.

Lemma compared_var_fixed av c : avPos av = None -> compared_var av c = Some (avName av).
Proof. intros H. unfold compared_var. rewrite H. reflexivity. Qed.

Lemma compared_var_position av c k v :
  avPos av = Some (Z.of_nat k) -> nth_error (cargs c) k = Some v -> compared_var av c = Some v.
Proof.
  intros H N. unfold compared_var. rewrite H.
  assert (L : (k < List.length (cargs c))%nat) by (apply nth_error_Some; congruence).
  destruct (Z.ltb_spec (Z.of_nat k) 0); [lia|]. destruct (Z.gtb_spec (Z.of_nat k) (Z.of_nat (List.length (cargs c)) - 1)); [lia|].
  cbn [orb]. rewrite Nat2Z.id. rewrite (nth_error_nth _ _ _ N). reflexivity.
Qed.

Lemma compared_var_out_of_range av c p :
  avPos av = Some p -> (p < 0 \/ Z.of_nat (List.length (cargs c)) <= p)%Z -> compared_var av c = None.
Proof.
  intros H R. unfold compared_var. rewrite H.
  destruct (Z.ltb_spec p 0); [reflexivity|]. destruct (Z.gtb_spec p (Z.of_nat (List.length (cargs c)) - 1)); [reflexivity|lia].
Qed.

(* the complete reading of [compared_var] *)
Lemma compared_var_spec av c v :
  compared_var av c = Some v <->
  (avPos av = None /\ v = avName av) \/ (exists k, avPos av = Some (Z.of_nat k) /\ nth_error (cargs c) k = Some v).
Proof.
  split.
  - unfold compared_var. destruct (avPos av) as [p|] eqn:E.
    + destruct (Z.ltb_spec p 0) as [L1|L1]; [discriminate|].
      destruct (Z.gtb_spec p (Z.of_nat (List.length (cargs c)) - 1)) as [L2|L2]; [discriminate|].
      cbn [orb]. intros H. injection H as <-. right. exists (Z.to_nat p). rewrite Z2Nat.id by lia. split; [reflexivity|].
      apply nth_error_nth'. lia.
    + intros H. injection H as <-. left. split; reflexivity.
  - intros [[H ->]|(k & H & N)]; [apply compared_var_fixed; exact H|eapply compared_var_position; eassumption].
Qed.

Lemma compared_var_none av c :
  compared_var av c = None <-> exists p, avPos av = Some p /\ (p < 0 \/ Z.of_nat (List.length (cargs c)) <= p)%Z.
Proof.
  split.
  - unfold compared_var. destruct (avPos av) as [p|]; [|discriminate].
    destruct (Z.ltb_spec p 0); [intros _; exists p; split; [reflexivity|lia]|].
    destruct (Z.gtb_spec p (Z.of_nat (List.length (cargs c)) - 1)); [intros _; exists p; split; [reflexivity|lia]|discriminate].
  - intros (p & H & R). eapply compared_var_out_of_range; eassumption.
Qed.

(* the leaf the parser builds for an AutoVar command *)
Definition autovar_leaf (c : cmd) (v : text) (o : cmpop) (val : text) (strict : bool) : leaf :=
  {| lk := KVar; loperand := v; lline := tline (ctok c); lop := o; lvalue := val; lstrict := strict; lpre := Some c |}.

Definition res_leaf_pre {B C : Type} (r : res (leaf * B * C)) : option (option cmd) :=
  match r with Ok (l, _, _) => Some (lpre l) | _ => None end.
Ltac pre_none H :=
  apply (f_equal res_leaf_pre) in H; cbn [res_leaf_pre lpre] in H; injection H as H; symmetry; exact H.

(* ---------- small facts about the token window ---------- *)
Lemma cur_adv ts : cur (adv ts) = pk 1 ts.
Proof. destruct ts as [|x [|y r]]; reflexivity. Qed.

Lemma is_eq ty x : is ty x = true -> ttype x = ty.
Proof. unfold is, tt_eqb. destruct (toktype_eq_dec (ttype x) ty); [auto|discriminate]. Qed.
Lemma is_other a b x : is a x = true -> a <> b -> is b x = false.
Proof. intros H N. apply BexpParse.is_false. rewrite (is_eq _ _ H). exact N. Qed.

Section AV.
Variable autovars : list (text * autovar).
Variable switches : list (text * text).
Variable env_errors : bool.
Variable parse_format : toks -> res (token * text * text * toks).
Variable consts : list (text * text).

Notation command_stmt := (command_stmt switches env_errors parse_format consts).
Notation var_or_autovar := (var_or_autovar autovars switches env_errors parse_format consts).
Notation cond_var_operator := (cond_var_operator consts).
Notation leaf_expr := (leaf_expr autovars switches env_errors parse_format consts).
Notation bool_expr := (bool_expr autovars switches env_errors parse_format consts).
Notation right_side := (right_side autovars switches env_errors parse_format consts).
Notation parse_stmt := (parse_stmt autovars switches env_errors parse_format consts).
Notation parse_switch := (parse_switch autovars switches env_errors parse_format consts).
Notation parse_cases := (parse_cases autovars switches env_errors parse_format consts).
Notation peek_is_autovar := (peek_is_autovar autovars).

(* ================= expectPeekVarOrAutoVar ================= *)

(* the next token is not 'var' and is listed in the command configuration: the command statement parser runs on the
   stream positioned on that token; the result variable is the configured one *)
Theorem var_or_autovar_command f script ts av :
  peekis VAR ts = false -> assoc autovars (tlit (pk 1 ts)) = Some av ->
  var_or_autovar f script ts =
    (do (c, imp, ts2) <- command_stmt f script (adv ts);
     match compared_var av c with
     | Some v => Ok (Some (v, c), imp, ts2)
     | None => err_range (cur (adv ts)) (cur ts2) "auto-var command has an arg position out of range"
     end).
Proof.
  intros HV HA. unfold Parser.var_or_autovar. rewrite HV, HA.
  destruct (command_stmt f script (adv ts)) as [[[c imp] ts2]|e| |]; try reflexivity.
  unfold compared_var. destruct (avPos av) as [p|]; [|reflexivity].
  destruct ((p <? 0)%Z || (p >? Z.of_nat (List.length (cargs c)) - 1)%Z); reflexivity.
Qed.

(* ... and is not listed: rejected *)
Theorem var_or_autovar_unconfigured f script ts :
  peekis VAR ts = false -> assoc autovars (tlit (pk 1 ts)) = None ->
  var_or_autovar f script ts = err_tok (pk 1 ts) "expected next token to be 'VAR' or auto-var command".
Proof. intros HV HA. unfold Parser.var_or_autovar. rewrite HV, HA. reflexivity. Qed.

(* ================= parseLeafBooleanExpression ================= *)

(* [ts0]: the stream on entry (the leaf starts at the next token); [leaf_start ts0]: the stream after the optional '!' *)
Definition leaf_start (ts0 : toks) : toks := if peekis NOT ts0 then adv ts0 else ts0.

Lemma peek_ident_kinds ts : peekis IDENT ts = true ->
  peekis VAR ts = false /\ peekis FLAG ts = false /\ peekis DEFEATED ts = false.
Proof. unfold peekis. intros H. repeat split; eapply is_other; try exact H; discriminate. Qed.

(* The complete behaviour of the leaf parser on a leaf whose first token is an identifier listed in the configuration. *)
Theorem autovar_leaf_equation f script ts0 av :
  let ts := leaf_start ts0 in
  peekis IDENT ts = true -> assoc autovars (tlit (pk 1 ts)) = Some av ->
  leaf_expr f script ts0 =
    (do (c, imp, ts2) <- command_stmt f script (adv ts);
     match compared_var av c with
     | None => err_range (cur (adv ts)) (cur ts2) "auto-var command has an arg position out of range"
     | Some v =>
         if peekis NOT ts0 then Ok (autovar_leaf c v OEq (t "0") false, imp, adv ts2)
         else do (o, val, strict, ts5) <- cond_var_operator f (adv ts2);
              Ok (autovar_leaf c v o val strict, imp, ts5)
     end).
Proof.
  intros ts HI HA. destruct (peek_ident_kinds ts HI) as (HV & HF & HD).
  unfold Parser.leaf_expr. fold (leaf_start ts0). fold ts.
  assert (E : (if peekis NOT ts0 then (true, adv ts0) else (false, ts0)) = (peekis NOT ts0, ts)).
  { unfold ts, leaf_start. destruct (peekis NOT ts0); reflexivity. }
  rewrite E. cbn beta iota zeta.
  assert (PA : peek_is_autovar ts = true) by (unfold Parser.peek_is_autovar; rewrite HI, HA; reflexivity).
  rewrite PA, HV. cbn [negb andb].
  rewrite (var_or_autovar_command f script ts av HV HA).
  destruct (command_stmt f script (adv ts)) as [[[c imp] ts2]|e| |]; try reflexivity.
  destruct (compared_var av c) as [v|]; [|reflexivity]. cbn beta iota zeta.
  destruct (peekis NOT ts0); [reflexivity|].
  destruct (cond_var_operator f (adv ts2)) as [[[[o val] strict] ts5]|e| |]; reflexivity.
Qed.

(* the identifier is not listed in the configuration: the leaf is rejected *)
Theorem unconfigured_command_leaf_rejected f script ts0 :
  let ts := leaf_start ts0 in
  peekis IDENT ts = true -> assoc autovars (tlit (pk 1 ts)) = None ->
  leaf_expr f script ts0 =
    err_tok (pk 1 ts) "left side of binary expression must be var(), flag(), defeated(), or autovar command".
Proof.
  intros ts HI HA. destruct (peek_ident_kinds ts HI) as (HV & HF & HD).
  unfold Parser.leaf_expr. fold (leaf_start ts0). fold ts.
  assert (E : (if peekis NOT ts0 then (true, adv ts0) else (false, ts0)) = (peekis NOT ts0, ts)).
  { unfold ts, leaf_start. destruct (peekis NOT ts0); reflexivity. }
  rewrite E. cbn beta iota zeta.
  assert (PA : peek_is_autovar ts = false) by (unfold Parser.peek_is_autovar; rewrite HI, HA; reflexivity).
  rewrite PA, HV, HF, HD. reflexivity.
Qed.

(* Reading of a successful leaf parse, for ALL token streams.  Either the leaf started with a configured identifier - then
   its preamble is the command the statement parser returns at that position, the inline data is that command's, the
   compared variable is the configured one, and the comparison comes from [cond_var_operator] (or is "== 0" after '!') -
   or it did not, and the leaf has no preamble. *)
Theorem leaf_parse_cases f script ts0 l imp rest :
  let ts := leaf_start ts0 in
  leaf_expr f script ts0 = Ok (l, imp, rest) ->
  (peek_is_autovar ts = true /\
   exists av c ts2,
     peekis IDENT ts = true /\ assoc autovars (tlit (pk 1 ts)) = Some av /\
     command_stmt f script (adv ts) = Ok (c, imp, ts2) /\
     lpre l = Some c /\ lk l = KVar /\ lline l = tline (ctok c) /\
     compared_var av c = Some (loperand l) /\
     (if peekis NOT ts0 then lop l = OEq /\ lvalue l = t "0" /\ lstrict l = false /\ rest = adv ts2
      else cond_var_operator f (adv ts2) = Ok (lop l, lvalue l, lstrict l, rest)))
  \/ (peek_is_autovar ts = false /\ lpre l = None).
Proof.
  intros ts H. destruct (peek_is_autovar ts) eqn:PA.
  - left. split; [reflexivity|]. unfold Parser.peek_is_autovar in PA. apply andb_prop in PA. destruct PA as [HI HA].
    destruct (assoc autovars (tlit (pk 1 ts))) as [av|] eqn:EA; [|discriminate].
    rewrite (autovar_leaf_equation f script ts0 av HI EA) in H. fold ts in H.
    destruct (command_stmt f script (adv ts)) as [[[c imp1] ts2]|e| |]; try discriminate.
    destruct (compared_var av c) as [v|] eqn:CV; [|discriminate].
    exists av, c, ts2. destruct (peekis NOT ts0).
    + injection H as <- <- <-. cbn [lpre lk lline loperand lop lvalue lstrict autovar_leaf]. repeat split; auto.
    + destruct (cond_var_operator f (adv ts2)) as [[[[o val] strict] ts5]|e| |]; try discriminate.
      injection H as <- <- <-. cbn [lpre lk lline loperand lop lvalue lstrict autovar_leaf]. repeat split; auto.
  - right. split; [reflexivity|]. unfold Parser.leaf_expr in H. fold (leaf_start ts0) in H. fold ts in H.
    assert (E : (if peekis NOT ts0 then (true, adv ts0) else (false, ts0)) = (peekis NOT ts0, ts)).
    { unfold ts, leaf_start. destruct (peekis NOT ts0); reflexivity. }
    rewrite E in H. cbn beta iota zeta in H. rewrite PA in H. cbn [negb] in H.
    destruct (negb (peekis VAR ts) && true && negb (peekis FLAG ts) && negb (peekis DEFEATED ts)); [discriminate|].
    destruct (expect_peek LPAREN (adv ts)) as [ts2|]; [|discriminate].
    destruct (peekis RPAREN ts2); [discriminate|].
    destruct (collect_until consts f (is RPAREN) (adv ts2) []) as [[parts ts4]|]; [|discriminate].
    cbn beta iota zeta in H. destruct (peekis NOT ts0).
    + pre_none H.
    + destruct (if is VAR (cur (adv ts)) then KVar else if is FLAG (cur (adv ts)) then KFlag else KDefeated).
      * destruct (cond_flag_operator (adv ts4) "flag") as [[[o v] ts5]|e| |]; try discriminate. pre_none H.
      * destruct (cond_var_operator f (adv ts4)) as [[[[o v] st] ts5]|e| |]; try discriminate. pre_none H.
      * destruct (cond_flag_operator (adv ts4) "defeated") as [[[o v] ts5]|e| |]; try discriminate. pre_none H.
Qed.

(* the leaf's first token is an identifier and the parse succeeds: the identifier is configured, and ... *)
Theorem autovar_leaf_parse f script ts0 l imp rest :
  let ts := leaf_start ts0 in
  leaf_expr f script ts0 = Ok (l, imp, rest) -> peekis IDENT ts = true ->
  exists av c ts2,
    assoc autovars (tlit (pk 1 ts)) = Some av /\
    command_stmt f script (adv ts) = Ok (c, imp, ts2) /\
    lpre l = Some c /\ lk l = KVar /\ lline l = tline (ctok c) /\
    compared_var av c = Some (loperand l) /\
    (if peekis NOT ts0 then lop l = OEq /\ lvalue l = t "0" /\ lstrict l = false /\ rest = adv ts2
     else cond_var_operator f (adv ts2) = Ok (lop l, lvalue l, lstrict l, rest)).
Proof.
  intros ts H HI. destruct (leaf_parse_cases f script ts0 l imp rest H) as [[_ (av & c & ts2 & _ & R)]|[PA _]].
  - exists av, c, ts2. exact R.
  - exfalso. fold ts in PA. unfold Parser.peek_is_autovar in PA. rewrite HI in PA. cbn [andb] in PA.
    destruct (assoc autovars (tlit (pk 1 ts))) as [av|] eqn:EA; [discriminate|].
    rewrite (unconfigured_command_leaf_rejected f script ts0 HI EA) in H. discriminate.
Qed.

(* a leaf has a preamble only when it was written on a configured command *)
Theorem leaf_preamble_origin f script ts0 l imp rest c :
  let ts := leaf_start ts0 in
  leaf_expr f script ts0 = Ok (l, imp, rest) -> lpre l = Some c ->
  exists av ts2,
    peekis IDENT ts = true /\ assoc autovars (tlit (pk 1 ts)) = Some av /\
    command_stmt f script (adv ts) = Ok (c, imp, ts2) /\
    lk l = KVar /\ lline l = tline (ctok c) /\ compared_var av c = Some (loperand l).
Proof.
  intros ts H HP. destruct (leaf_parse_cases f script ts0 l imp rest H) as [[_ (av & c' & ts2 & HI & HA & HC & HL & HK & HLi & HV & _)]|[_ N]].
  - rewrite HP in HL. injection HL as <-. exists av, ts2. auto 10.
  - congruence.
Qed.

(* the position configured for the result variable does not exist among the arguments written: error on the command *)
Theorem autovar_leaf_position_out_of_range f script ts0 av p c imp ts2 :
  let ts := leaf_start ts0 in
  peekis IDENT ts = true -> assoc autovars (tlit (pk 1 ts)) = Some av -> avPos av = Some p ->
  command_stmt f script (adv ts) = Ok (c, imp, ts2) -> (p < 0 \/ Z.of_nat (List.length (cargs c)) <= p)%Z ->
  leaf_expr f script ts0 = err_range (pk 1 ts) (cur ts2) "auto-var command has an arg position out of range".
Proof.
  intros ts HI HA HP HC HR. rewrite (autovar_leaf_equation f script ts0 av HI HA). fold ts. rewrite HC.
  rewrite (compared_var_out_of_range av c p HP HR). rewrite cur_adv. reflexivity.
Qed.

(* ---------- the comparison: read by the function that reads it for var(...) ---------- *)
Lemma cond_var_operator_default f ts : is_cmp_tok (cur ts) = None -> cond_var_operator f ts = Ok (ONe, t "0", false, ts).
Proof. intros H. unfold Parser.cond_var_operator. rewrite H. reflexivity. Qed.

Lemma no_cmp_after_leaf ts : ttype (cur ts) = AND \/ ttype (cur ts) = OR \/ ttype (cur ts) = RPAREN -> is_cmp_tok (cur ts) = None.
Proof. unfold is_cmp_tok. intros [H|[H|H]]; rewrite H; reflexivity. Qed.

(* a var(...) leaf: [ts4] is the stream positioned on the ')' that closes the operand *)
Theorem var_leaf_comparison f script ts0 l imp rest :
  let ts := leaf_start ts0 in
  leaf_expr f script ts0 = Ok (l, imp, rest) -> peekis VAR ts = true ->
  lpre l = None /\ lk l = KVar /\
  exists ts4,
    (if peekis NOT ts0 then lop l = OEq /\ lvalue l = t "0" /\ lstrict l = false /\ rest = adv ts4
     else cond_var_operator f (adv ts4) = Ok (lop l, lvalue l, lstrict l, rest)).
Proof.
  intros ts H HV.
  assert (PA : peek_is_autovar ts = false).
  { unfold Parser.peek_is_autovar. unfold peekis in *. rewrite (is_other VAR IDENT _ HV) by discriminate. reflexivity. }
  unfold Parser.leaf_expr in H. fold (leaf_start ts0) in H. fold ts in H.
  assert (E : (if peekis NOT ts0 then (true, adv ts0) else (false, ts0)) = (peekis NOT ts0, ts)).
  { unfold ts, leaf_start. destruct (peekis NOT ts0); reflexivity. }
  rewrite E in H. cbn beta iota zeta in H. rewrite PA, HV in H. cbn [negb andb] in H.
  destruct (expect_peek LPAREN (adv ts)) as [ts2|]; [|discriminate].
  destruct (peekis RPAREN ts2); [discriminate|].
  destruct (collect_until consts f (is RPAREN) (adv ts2) []) as [[parts ts4]|]; [|discriminate].
  cbn beta iota zeta in H. rewrite cur_adv in H. unfold peekis in HV. rewrite HV in H.
  destruct (peekis NOT ts0).
  - injection H as <- _ <-. repeat split. exists ts4. repeat split.
  - destruct (cond_var_operator f (adv ts4)) as [[[[o v] st] ts5]|e| |] eqn:EO; try discriminate. injection H as <- _ <-.
    repeat split. exists ts4. exact EO.
Qed.

(* no comparison written: "!= 0"; under '!': "== 0" *)
Theorem autovar_leaf_default_comparison f script ts0 av c imp ts2 v :
  let ts := leaf_start ts0 in
  peekis IDENT ts = true -> assoc autovars (tlit (pk 1 ts)) = Some av ->
  command_stmt f script (adv ts) = Ok (c, imp, ts2) -> compared_var av c = Some v ->
  peekis NOT ts0 = true \/ is_cmp_tok (cur (adv ts2)) = None ->
  leaf_expr f script ts0 =
    Ok (autovar_leaf c v (if peekis NOT ts0 then OEq else ONe) (t "0") false, imp, adv ts2).
Proof.
  intros ts HI HA HC HV HD. rewrite (autovar_leaf_equation f script ts0 av HI HA). fold ts. rewrite HC, HV.
  destruct (peekis NOT ts0); [reflexivity|]. destruct HD as [HD|HD]; [discriminate|].
  rewrite (cond_var_operator_default f _ HD). reflexivity.
Qed.

(* a comparison written after the command: whatever [cond_var_operator] reads there *)
Theorem autovar_leaf_written_comparison f script ts0 av c imp ts2 v o val strict rest :
  let ts := leaf_start ts0 in
  peekis IDENT ts = true -> assoc autovars (tlit (pk 1 ts)) = Some av ->
  command_stmt f script (adv ts) = Ok (c, imp, ts2) -> compared_var av c = Some v ->
  peekis NOT ts0 = false -> cond_var_operator f (adv ts2) = Ok (o, val, strict, rest) ->
  leaf_expr f script ts0 = Ok (autovar_leaf c v o val strict, imp, rest).
Proof.
  intros ts HI HA HC HV HN HO. rewrite (autovar_leaf_equation f script ts0 av HI HA). fold ts. rewrite HC, HV, HN, HO. reflexivity.
Qed.

(* ---------- the preamble is the statement ---------- *)
(* the statement parser, started on the command name, returns exactly the leaf's preamble (as a one-command statement list),
   the same inline data and stops on the same token *)
Theorem autovar_leaf_preamble_is_the_statement f script bs cs ts0 l imp rest :
  let ts := leaf_start ts0 in
  leaf_expr f script ts0 = Ok (l, imp, rest) -> peekis IDENT ts = true -> try_label (adv ts) = None ->
  exists c ts2, lpre l = Some c /\ parse_stmt (S f) script bs cs (adv ts) = Ok ([SCmd c], imp, ts2) /\
    (if peekis NOT ts0 then rest = adv ts2 else exists o v st, cond_var_operator f (adv ts2) = Ok (o, v, st, rest)).
Proof.
  intros ts H HI HT. destruct (autovar_leaf_parse f script ts0 l imp rest H HI) as (av & c & ts2 & _ & HC & HL & _ & _ & _ & HR).
  exists c, ts2. split; [exact HL|]. split.
  - fold ts in HC. rewrite CmdArgs.parse_stmt_eq; [rewrite HC; reflexivity| |exact HT]. rewrite cur_adv. apply is_eq. exact HI.
  - destruct (peekis NOT ts0); [tauto|]. eexists _, _, _. exact HR.
Qed.

(* ================= switch ( cmd(...) ) ================= *)

(* The complete behaviour of the switch parser when the token after "switch (" is not 'var' and is configured:
   the statement list is the command statement followed by the switch on the configured variable. *)
Theorem autovar_switch_equation f script bs cs ts av :
  peekis LPAREN ts = true -> peekis VAR (adv ts) = false -> assoc autovars (tlit (pk 1 (adv ts))) = Some av ->
  parse_switch (S f) script bs cs ts =
    (do (c, imp, ts2) <- command_stmt f script (adv (adv ts));
     match compared_var av c with
     | None => err_range (cur (adv (adv ts))) (cur ts2) "auto-var command has an arg position out of range"
     | Some v =>
         if negb (peekis RPAREN ts2) then err_tok (cur ts) "missing closing parenthesis of switch statement value" else
         let ts3 := adv ts2 in
         if negb (peekis LBRACE ts3) then err_range (cur ts3) (pk 1 ts3) "missing opening curly brace of switch statement" else
         let ts4 := adv ts3 in
         do (cases, imp', ts5) <- parse_cases f script (List.length ts :: bs) cs (cur ts4) (adv ts4) [] [] false imp0;
         match cases with
         | [] => err_range (cur ts) (cur ts5) "switch statement has no cases or default case"
         | _ => Ok ([SCmd c; SSwitch (List.length ts) v (tline (ctok c)) cases], impadd imp imp', ts5)
         end
     end).
Proof.
  intros HL HV HA. rewrite parse_switch_unfold. cbn zeta. unfold expect_peek at 1. rewrite HL.
  rewrite (var_or_autovar_command f script (adv ts) av HV HA).
  destruct (command_stmt f script (adv (adv ts))) as [[[c imp] ts2]|e| |]; try reflexivity.
  destruct (compared_var av c) as [v|]; [|reflexivity]. cbn beta iota zeta.
  unfold expect_peek. destruct (peekis RPAREN ts2); [|reflexivity]. cbn beta iota zeta.
  destruct (peekis LBRACE (adv ts2)); [|reflexivity]. cbn [negb].
  destruct (parse_cases f script (List.length ts :: bs) cs (cur (adv (adv ts2))) (adv (adv (adv ts2))) [] [] false imp0)
    as [[[cases imp'] ts5]|e| |]; try reflexivity.
Qed.

(* the token after "switch (" is neither 'var' nor configured: rejected *)
Theorem unconfigured_command_switch_rejected f script bs cs ts :
  peekis LPAREN ts = true -> peekis VAR (adv ts) = false -> assoc autovars (tlit (pk 1 (adv ts))) = None ->
  parse_switch (S f) script bs cs ts = err_tok (pk 1 (adv ts)) "expected next token to be 'VAR' or auto-var command".
Proof.
  intros HL HV HA. rewrite parse_switch_unfold. cbn zeta. unfold expect_peek at 1. rewrite HL.
  rewrite (var_or_autovar_unconfigured f script (adv ts) HV HA). reflexivity.
Qed.

(* the configured position does not exist among the arguments written *)
Theorem autovar_switch_position_out_of_range f script bs cs ts av p c imp ts2 :
  peekis LPAREN ts = true -> peekis VAR (adv ts) = false -> assoc autovars (tlit (pk 1 (adv ts))) = Some av ->
  avPos av = Some p -> command_stmt f script (adv (adv ts)) = Ok (c, imp, ts2) ->
  (p < 0 \/ Z.of_nat (List.length (cargs c)) <= p)%Z ->
  parse_switch (S f) script bs cs ts =
    err_range (pk 1 (adv ts)) (cur ts2) "auto-var command has an arg position out of range".
Proof.
  intros HL HV HA HP HC HR. rewrite (autovar_switch_equation f script bs cs ts av HL HV HA), HC.
  rewrite (compared_var_out_of_range av c p HP HR), cur_adv. reflexivity.
Qed.

(* Reading of a successful switch parse whose operand does not start with 'var', for ALL token streams. *)
Theorem autovar_switch_parse f script bs cs ts ss imp rest :
  parse_switch (S f) script bs cs ts = Ok (ss, imp, rest) -> peekis VAR (adv ts) = false ->
  exists av c impc ts2 cases impb,
    peekis LPAREN ts = true /\ assoc autovars (tlit (pk 1 (adv ts))) = Some av /\
    command_stmt f script (adv (adv ts)) = Ok (c, impc, ts2) /\
    peekis RPAREN ts2 = true /\ peekis LBRACE (adv ts2) = true /\
    parse_cases f script (List.length ts :: bs) cs (pk 1 (adv ts2)) (adv (adv (adv ts2))) [] [] false imp0 = Ok (cases, impb, rest) /\
    cases <> [] /\ imp = impadd impc impb /\
    exists v, compared_var av c = Some v /\ ss = [SCmd c; SSwitch (List.length ts) v (tline (ctok c)) cases].
Proof.
  intros H HV. destruct (peekis LPAREN ts) eqn:HL.
  2:{ rewrite parse_switch_unfold in H. cbn zeta in H. unfold expect_peek at 1 in H. rewrite HL in H. discriminate. }
  destruct (assoc autovars (tlit (pk 1 (adv ts)))) as [av|] eqn:HA.
  2:{ rewrite (unconfigured_command_switch_rejected f script bs cs ts HL HV HA) in H. discriminate. }
  rewrite (autovar_switch_equation f script bs cs ts av HL HV HA) in H.
  destruct (command_stmt f script (adv (adv ts))) as [[[c impc] ts2]|e| |]; try discriminate.
  destruct (compared_var av c) as [v|] eqn:CV; [|discriminate].
  destruct (peekis RPAREN ts2) eqn:HR; [|discriminate]. cbn [negb] in H. cbn zeta in H.
  destruct (peekis LBRACE (adv ts2)) eqn:HB; [|discriminate]. cbn [negb] in H. rewrite cur_adv in H.
  destruct (parse_cases f script (List.length ts :: bs) cs (pk 1 (adv ts2)) (adv (adv (adv ts2))) [] [] false imp0)
    as [[[cases impb] ts5]|e| |] eqn:PC; try discriminate.
  destruct cases as [|c1 cases]; [discriminate|]. injection H as <- <- <-.
  exists av, c, impc, ts2, (c1 :: cases), impb. split; [reflexivity|]. split; [reflexivity|]. split; [reflexivity|].
  split; [exact HR|]. split; [exact HB|]. split; [exact PC|]. split; [discriminate|]. split; [reflexivity|].
  exists v. split; [exact CV|reflexivity].
Qed.

(* the preamble statement of the switch is what the statement parser returns when started on the command name *)
Theorem autovar_switch_preamble_is_the_statement f script bs cs bs' cs' ts ss imp rest :
  parse_switch (S f) script bs cs ts = Ok (ss, imp, rest) -> peekis VAR (adv ts) = false ->
  ttype (pk 1 (adv ts)) = IDENT -> try_label (adv (adv ts)) = None ->
  exists c impc ts2 sw impb, parse_stmt (S f) script bs' cs' (adv (adv ts)) = Ok ([SCmd c], impc, ts2) /\
    ss = [SCmd c; sw] /\ imp = impadd impc impb.
Proof.
  intros H HV HI HT.
  destruct (autovar_switch_parse f script bs cs ts ss imp rest H HV) as (av & c & impc & ts2 & cases & impb & _ & _ & HC & _ & _ & _ & _ & Himp & v & _ & Hss).
  exists c, impc, ts2, (SSwitch (List.length ts) v (tline (ctok c)) cases), impb. split; [|split; assumption].
  rewrite CmdArgs.parse_stmt_eq; [rewrite HC; reflexivity| |exact HT]. rewrite cur_adv. exact HI.
Qed.

(* the same through the statement parser *)
Corollary autovar_switch_statement f script bs cs ts ss imp rest :
  ttype (cur ts) = SWITCH -> parse_stmt (S (S f)) script bs cs ts = Ok (ss, imp, rest) -> peekis VAR (adv ts) = false ->
  exists av c v cases, assoc autovars (tlit (pk 1 (adv ts))) = Some av /\ compared_var av c = Some v /\
    ss = [SCmd c; SSwitch (List.length ts) v (tline (ctok c)) cases] /\
    exists impc ts2, command_stmt f script (adv (adv ts)) = Ok (c, impc, ts2).
Proof.
  intros HS H HV. rewrite parse_stmt_unfold, HS in H.
  destruct (autovar_switch_parse f script bs cs ts ss imp rest H HV) as (av & c & impc & ts2 & cases & impb & _ & HA & HC & _ & _ & _ & _ & _ & v & HCV & Hss).
  exists av, c, v, cases. repeat (split; [assumption|]). exists impc, ts2. exact HC.
Qed.
End AV.

(* ================= fuel: more fuel never changes a successful command parse ================= *)
Section MONO.
Variable switches : list (text * text).
Variable env_errors : bool.
Variable parse_format : toks -> res (token * text * text * toks).
Variable consts : list (text * text).
Notation list_value := (list_value switches env_errors).
Notation list_cases := (list_cases switches env_errors).
Notation command_args := (command_args switches env_errors parse_format consts).
Notation command_stmt := (command_stmt switches env_errors parse_format consts).

Ltac mono_with IHa IHb H :=
  repeat (first [ exact H | reflexivity
                | ok_step H; try (erewrite IHa by eassumption); try (erewrite IHb by eassumption); cbv beta iota zeta ]).

Lemma list_mono : forall f,
  (forall k multi ts acc r, list_value f k multi ts acc = Ok r -> list_value (S f) k multi ts acc = Ok r) /\
  (forall k start ts acc r, list_cases f k start ts acc = Ok r -> list_cases (S f) k start ts acc = Ok r).
Proof.
  induction f as [|f [IH1 IH2]]; [split; intros; discriminate|]. split.
  - intros k multi ts acc r H. rewrite list_value_unfold in H. rewrite list_value_unfold. cbv beta iota zeta in H |- *.
    mono_with IH1 IH2 H.
  - intros k start ts acc r H. rewrite list_cases_unfold in H. rewrite list_cases_unfold. cbv beta iota zeta in H |- *.
    mono_with IH1 IH2 H.
Qed.

Lemma moves_operator_mono f ts r : moves_operator switches env_errors f ts = Ok r -> moves_operator switches env_errors (S f) ts = Ok r.
Proof.
  unfold moves_operator, movement_value. destruct (expect_peek LPAREN ts); [|discriminate]. apply (proj1 (list_mono f)).
Qed.

Lemma command_args_mono : forall f script cmdtok cidv ts depth parts args imp r,
  command_args f script cmdtok cidv ts depth parts args imp = Ok r ->
  command_args (S f) script cmdtok cidv ts depth parts args imp = Ok r.
Proof.
  induction f as [|f IH]; intros script cmdtok cidv ts depth parts args imp r H; [discriminate|].
  rewrite command_args_unfold in H. rewrite command_args_unfold. cbv beta iota zeta in H |- *.
  mono_with IH moves_operator_mono H.
Qed.

Lemma command_stmt_mono_S f script ts r : command_stmt f script ts = Ok r -> command_stmt (S f) script ts = Ok r.
Proof.
  unfold Parser.command_stmt. destruct (peekis LPAREN ts); [|auto].
  destruct (command_args f script (cur ts) (List.length ts) (adv (adv ts)) 0 [] [] imp0) as [[[a i] t1]|e| |] eqn:E; try discriminate.
  rewrite (command_args_mono _ _ _ _ _ _ _ _ _ _ E). auto.
Qed.

(* more fuel never changes a successful command parse *)
Lemma command_stmt_mono f g script ts r : (f <= g)%nat -> command_stmt f script ts = Ok r -> command_stmt g script ts = Ok r.
Proof. induction 1 as [|g _ IH]; [auto|]. intros H. apply command_stmt_mono_S, IH, H. Qed.
End MONO.

(* ================= every leaf of every parsed condition ================= *)
Fixpoint leaves (e : bexp) : list leaf :=
  match e with BLeaf l => [l] | BBin _ a b => leaves a ++ leaves b end.

Section COND.
Variable autovars : list (text * autovar).
Variable switches : list (text * text).
Variable env_errors : bool.
Variable parse_format : toks -> res (token * text * text * toks).
Variable consts : list (text * text).
(* the format() parser only moves forward in the token stream (true of Format.parse_format: ProgSrc.parse_format_advs) *)
Hypothesis parse_format_advs : forall ts tk v sty ts', parse_format ts = Ok (tk, v, sty, ts') -> forall a, advs a ts -> advs a ts'.

Notation command_stmt := (command_stmt switches env_errors parse_format consts).
Notation leaf_expr := (leaf_expr autovars switches env_errors parse_format consts).
Notation bool_expr := (bool_expr autovars switches env_errors parse_format consts).
Notation right_side := (right_side autovars switches env_errors parse_format consts).

(* [l] is, up to the negation pushed down from an enclosing '!( )', what the leaf parser returned at a position [ts0]
   reached from [ts] by advancing *)
Definition leaf_from (f : nat) (script : text) (ts : toks) (l : leaf) : Prop :=
  exists f' ts0 l0 impl rest, (f' <= f)%nat /\ advs ts ts0 /\
    leaf_expr f' script ts0 = Ok (l0, impl, rest) /\ (l = l0 \/ l = neg_leaf l0).

Lemma leaf_from_weaken f g script a b l : (f <= g)%nat -> advs a b -> leaf_from f script b l -> leaf_from g script a l.
Proof.
  intros Hf Ha (f' & ts0 & l0 & impl & rest & H1 & H2 & H3 & H4). exists f', ts0, l0, impl, rest.
  split; [lia|]. split; [eapply advs_trans; eassumption|]. split; assumption.
Qed.

Lemma condition_leaves : forall f,
  (forall single neg script ts e imp ts', bool_expr f single neg script ts = Ok (e, imp, ts') ->
     forall l, In l (leaves e) -> leaf_from f script ts l) /\
  (forall left single neg script ts e imp ts', right_side f left single neg script ts = Ok (e, imp, ts') ->
     forall l, In l (leaves e) -> In l (leaves left) \/ leaf_from f script ts l).
Proof.
  induction f as [|f [IH1 IH2]]; [split; intros; discriminate|]. split.
  - intros single neg script ts e imp ts' H l HIn. rewrite bool_expr_unfold in H. cbn zeta in H.
    destruct (peekis LPAREN ts || peekis NOT ts && is LPAREN (pk 2 ts)) eqn:G.
    + set (p := if peekis LPAREN ts then (adv ts, neg) else (adv (adv ts), negb neg)) in H.
      assert (Hp : advs ts (Datatypes.fst p)).
      { unfold p. destruct (peekis LPAREN ts); cbn [Datatypes.fst]; [apply advs_step, advs_refl|apply advs_step, advs_step, advs_refl]. }
      destruct p as [ts2 nn]. cbn [Datatypes.fst] in Hp.
      destruct (bool_expr f false nn script ts2) as [[[e1 imp1] ts3]|e0| |] eqn:E1; try discriminate.
      cbn beta iota in H. destruct (negb (curis RPAREN ts3)); [discriminate|].
      assert (A3 : advs ts ts3) by (eapply bool_expr_advs; [exact parse_format_advs|exact E1|exact Hp]).
      destruct (negb single && (peekis AND ts3 || peekis OR ts3)).
      * destruct (right_side f e1 single neg script (adv ts3)) as [[[e2 imp2] ts4]|e0| |] eqn:E2; try discriminate.
        cbn beta iota in H. assert (e2 = e) by congruence. subst e2.
        destruct (IH2 _ _ _ _ _ _ _ _ E2 l HIn) as [HL|HL].
        -- eapply leaf_from_weaken; [|exact Hp|exact (IH1 _ _ _ _ _ _ _ E1 l HL)]. lia.
        -- eapply leaf_from_weaken; [|apply advs_adv_r; exact A3|exact HL]. lia.
      * assert (e1 = e) by congruence. subst e1.
        eapply leaf_from_weaken; [|exact Hp|exact (IH1 _ _ _ _ _ _ _ E1 l HIn)]. lia.
    + destruct (leaf_expr f script ts) as [[[l0 impl] ts1]|e0| |] eqn:EL; try discriminate. cbn beta iota zeta in H.
      assert (Hl0 : leaf_from (S f) script ts (if neg then neg_leaf l0 else l0)).
      { exists f, ts, l0, impl, ts1. split; [lia|]. split; [apply advs_refl|]. split; [exact EL|]. destruct neg; auto. }
      destruct single.
      * assert (BLeaf (if neg then neg_leaf l0 else l0) = e) by congruence. subst e. cbn [leaves In] in HIn.
        destruct HIn as [<-|[]]. exact Hl0.
      * destruct (right_side f (BLeaf (if neg then neg_leaf l0 else l0)) false neg script ts1) as [[[e2 imp2] ts4]|e0| |] eqn:E2; try discriminate.
        cbn beta iota in H. assert (e2 = e) by congruence. subst e2.
        destruct (IH2 _ _ _ _ _ _ _ _ E2 l HIn) as [HL|HL].
        -- cbn [leaves In] in HL. destruct HL as [<-|[]]. exact Hl0.
        -- eapply leaf_from_weaken; [|eapply leaf_expr_advs; [exact parse_format_advs|exact EL|apply advs_refl]|exact HL]. lia.
  - intros left single neg script ts e imp ts' H l HIn. rewrite right_side_unfold in H.
    destruct (curis AND ts).
    + destruct (bool_expr f true neg script ts) as [[[r imp1] ts1]|e0| |] eqn:E1; try discriminate. cbn beta iota zeta in H.
      destruct (right_side f (BBin (if neg then BOr else BAnd) left r) single neg script ts1) as [[[e2 imp2] ts2]|e0| |] eqn:E2; try discriminate.
      cbn beta iota in H. assert (e2 = e) by congruence. subst e2.
      destruct (IH2 _ _ _ _ _ _ _ _ E2 l HIn) as [HL|HL].
      * cbn [leaves] in HL. apply in_app_or in HL. destruct HL as [HL|HL]; [left; exact HL|right].
        eapply leaf_from_weaken; [|apply advs_refl|exact (IH1 _ _ _ _ _ _ _ E1 l HL)]. lia.
      * right. eapply leaf_from_weaken; [|eapply bool_expr_advs; [exact parse_format_advs|exact E1|apply advs_refl]|exact HL]. lia.
    + destruct (curis OR ts).
      * destruct (bool_expr f false neg script ts) as [[[r imp1] ts1]|e0| |] eqn:E1; try discriminate. cbn beta iota in H.
        assert (BBin (if neg then BAnd else BOr) left r = e) by congruence. subst e. cbn [leaves] in HIn.
        apply in_app_or in HIn. destruct HIn as [HL|HL]; [left; exact HL|right].
        eapply leaf_from_weaken; [|apply advs_refl|exact (IH1 _ _ _ _ _ _ _ E1 l HL)]. lia.
      * assert (left = e) by congruence. subst e. left. exact HIn.
Qed.

Lemma neg_leaf_fields l : lpre (neg_leaf l) = lpre l /\ lk (neg_leaf l) = lk l /\ lline (neg_leaf l) = lline l /\ loperand (neg_leaf l) = loperand l.
Proof. repeat split. Qed.

(* Every leaf of every condition the parser accepts: a leaf with a preamble was written on a configured command, at a
   position [tsc] inside the condition; the preamble is the command statement parsed at that position (so the statement
   parser started there returns exactly that command, its inline data and the same end position) and the compared
   variable is the configured one. *)
Theorem every_preamble_in_a_condition f single neg script ts e imp ts' l c :
  bool_expr f single neg script ts = Ok (e, imp, ts') -> In l (leaves e) -> lpre l = Some c ->
  exists tsc av impc ts2, advs ts tsc /\
    ttype (cur tsc) = IDENT /\ assoc autovars (tlit (cur tsc)) = Some av /\
    command_stmt f script tsc = Ok (c, impc, ts2) /\
    (forall bs cs, try_label tsc = None ->
       parse_stmt autovars switches env_errors parse_format consts (S f) script bs cs tsc = Ok ([SCmd c], impc, ts2)) /\
    lk l = KVar /\ lline l = tline (ctok c) /\ compared_var av c = Some (loperand l).
Proof.
  intros H HIn HP.
  destruct (proj1 (condition_leaves f) _ _ _ _ _ _ _ H l HIn) as (f' & ts0 & l0 & impl & rest & Hf & Ha & HL & Hl).
  destruct (neg_leaf_fields l0) as (N1 & N2 & N3 & N4).
  assert (HP0 : lpre l0 = Some c) by (destruct Hl as [->| ->]; [exact HP|rewrite <- N1; exact HP]).
  destruct (leaf_preamble_origin autovars switches env_errors parse_format consts f' script ts0 l0 impl rest c HL HP0)
    as (av & ts2 & HI & HA & HC & HK & HLi & HV).
  apply (command_stmt_mono switches env_errors parse_format consts f' f _ _ _ Hf) in HC.
  assert (HT : ttype (cur (adv (leaf_start ts0))) = IDENT) by (rewrite cur_adv; apply is_eq; exact HI).
  exists (adv (leaf_start ts0)), av, impl, ts2. split.
  { eapply advs_trans; [exact Ha|]. apply advs_adv_r. unfold leaf_start. destruct (peekis NOT ts0); [apply advs_step|]; apply advs_refl. }
  split; [exact HT|]. rewrite cur_adv. split; [exact HA|]. split; [exact HC|]. split.
  { intros bs cs HTL. rewrite CmdArgs.parse_stmt_eq; [rewrite HC; reflexivity|exact HT|exact HTL]. }
  destruct Hl as [->| ->]; [auto|]. rewrite N2, N3, N4. auto.
Qed.

(* the command returned by the statement parser: named by the token it starts on, identified by its position *)
Lemma command_stmt_head f script ts c imp ts' :
  command_stmt f script ts = Ok (c, imp, ts') -> cname c = tlit (cur ts) /\ ctok c = cur ts /\ Ast.cid c = List.length ts.
Proof.
  unfold Parser.command_stmt. destruct (peekis LPAREN ts).
  - destruct (command_args switches env_errors parse_format consts f script (cur ts) (List.length ts) (adv (adv ts)) 0 [] [] imp0)
      as [[[args i] ts1]|e| |]; try discriminate. intros H. injection H as <- _ _. repeat split.
  - intros H. injection H as <- _ _. repeat split.
Qed.

(* the same for the condition of if / elif / while ... *)
Theorem every_preamble_in_an_if_or_while_condition f require script bs cs ts e b imp ts' l c :
  parse_cond autovars switches env_errors parse_format consts (S f) require script bs cs ts = Ok (Some e, b, imp, ts') ->
  In l (leaves e) -> lpre l = Some c ->
  exists tsc av impc ts2, advs ts tsc /\
    ttype (cur tsc) = IDENT /\ assoc autovars (tlit (cur tsc)) = Some av /\
    command_stmt f script tsc = Ok (c, impc, ts2) /\
    lk l = KVar /\ lline l = tline (ctok c) /\ compared_var av c = Some (loperand l).
Proof.
  intros H HIn HP. rewrite parse_cond_unfold in H.
  destruct (require || negb (peekis LBRACE ts)).
  - destruct (expect_peek LPAREN ts) as [tsa|] eqn:EP; [|discriminate].
    destruct (bool_expr f false false script tsa) as [[[e1 imp1] tsb]|e0| |] eqn:EB; try discriminate. cbn beta iota in H.
    destruct (expect_peek LBRACE tsb) as [ts2|]; [|discriminate].
    destruct (parse_block autovars switches env_errors parse_format consts f script bs cs (cur ts2) (adv ts2) [] imp0) as [[[b1 imp2] ts3]|e0| |]; try discriminate.
    cbn beta iota in H. assert (e1 = e) by congruence. subst e1.
    destruct (every_preamble_in_a_condition f false false script tsa e imp1 tsb l c EB HIn HP) as (tsc & av & impc & tsd & Ha & R1 & R2 & R3 & _ & R).
    exists tsc, av, impc, tsd. split; [|auto].
    rewrite (expect_peek_some _ _ _ EP) in Ha. apply advs_step. exact Ha.
  - cbn beta iota in H. destruct (expect_peek LBRACE ts) as [ts2|]; [|discriminate].
    destruct (parse_block autovars switches env_errors parse_format consts f script bs cs (cur ts2) (adv ts2) [] imp0) as [[[b1 imp2] ts3]|e0| |]; discriminate.
Qed.

(* ... and of do ... while *)
Theorem every_preamble_in_a_do_while_condition f script bs cs ts tg b e imp ts' l c :
  ttype (cur ts) = DO ->
  parse_stmt autovars switches env_errors parse_format consts (S f) script bs cs ts = Ok ([SDoWhile tg b e], imp, ts') ->
  In l (leaves e) -> lpre l = Some c ->
  exists tsc av impc ts2,
    ttype (cur tsc) = IDENT /\ assoc autovars (tlit (cur tsc)) = Some av /\
    command_stmt f script tsc = Ok (c, impc, ts2) /\
    lk l = KVar /\ lline l = tline (ctok c) /\ compared_var av c = Some (loperand l).
Proof.
  intros HD H HIn HP. rewrite parse_stmt_unfold, HD in H. cbn zeta in H.
  destruct (expect_peek LBRACE ts) as [ts1|]; [|discriminate].
  destruct (parse_block autovars switches env_errors parse_format consts f script (List.length ts :: bs) (List.length ts :: cs) (cur ts1) (adv ts1) [] imp0)
    as [[[b1 imp1] ts2]|e0| |]; try discriminate. cbn beta iota in H.
  destruct (expect_peek WHILE ts2) as [ts3|]; [|discriminate].
  destruct (expect_peek LPAREN ts3) as [ts4|]; [|discriminate].
  destruct (bool_expr f false false script ts4) as [[[e1 imp2] ts5]|e0| |] eqn:EB; try discriminate. cbn beta iota in H.
  assert (e1 = e) by congruence. subst e1.
  destruct (every_preamble_in_a_condition f false false script ts4 e imp2 ts5 l c EB HIn HP) as (tsc & av & impc & tsd & _ & R1 & R2 & R3 & _ & R).
  exists tsc, av, impc, tsd. auto.
Qed.
End COND.

(* ================= the written forms (token-level grammar) ================= *)
Section GRAMMAR.
Variable autovars : list (text * autovar).
Variable switches : list (text * text).
Variable env_errors : bool.
Variable parse_format : toks -> res (token * text * text * toks).
Variable consts : list (text * text).
Variable script : text.

Notation command_stmt := (command_stmt switches env_errors parse_format consts).
Notation cond_var_operator := (cond_var_operator consts).
Notation leaf_expr := (leaf_expr autovars switches env_errors parse_format consts).
Notation bool_expr := (bool_expr autovars switches env_errors parse_format consts).
Notation right_side := (right_side autovars switches env_errors parse_format consts).
Notation parse_stmt := (parse_stmt autovars switches env_errors parse_format consts).
Notation parse_switch := (parse_switch autovars switches env_errors parse_format consts).
Notation parse_cases := (parse_cases autovars switches env_errors parse_format consts).
Notation wf_args := (wf_args switches env_errors parse_format).

(* NAME ( args )  followed by the tokens R : the command and the inline data the statement parser returns
   (CmdArgs.command_with_arguments); the command id is the position (number of tokens from NAME to the end) *)
Definition cmd_toks (name lp : token) (a : arglist) (rp : token) : list token := name :: lp :: arg_tokens a ++ [rp].
Definition parsed_cmd (name lp : token) (a : arglist) (rp : token) (R : list token) : cmd :=
  {| cname := tlit name; cargs := map (render_group consts) (strip_last_empty (groups_of a)); ctok := name;
     Ast.cid := List.length (name :: lp :: arg_tokens a ++ rp :: R) |}.
Definition parsed_imp (name lp : token) (a : arglist) (rp : token) (R : list token) : impdata :=
  {| idT := groups_texts script (List.length (name :: lp :: arg_tokens a ++ rp :: R)) 0 (groups_of a);
     idM := groups_movs script name (List.length (name :: lp :: arg_tokens a ++ rp :: R)) 0 (groups_of a) |}.
(* NAME alone *)
Definition bare_cmd (name : token) (R : list token) : cmd :=
  {| cname := tlit name; cargs := []; ctok := name; Ast.cid := List.length (name :: R) |}.

Definition cmd_ok (name lp : token) (a : arglist) (rp : token) : Prop :=
  ttype name = IDENT /\ ttype lp = LPAREN /\ ttype rp = RPAREN /\ wf_args a /\ balanced (flat a).

Lemma cmd_toks_app name lp a rp R : cmd_toks name lp a rp ++ R = name :: lp :: arg_tokens a ++ rp :: R.
Proof. unfold cmd_toks. cbn [app]. rewrite <- app_assoc. reflexivity. Qed.

Lemma adv_cons_ne (a : token) l : l <> [] -> adv (a :: l) = l.
Proof. destruct l; [congruence|reflexivity]. Qed.

(* NAME ( args ) R  after an arbitrary previous token: what remains is the comparison, read from R *)
Theorem autovar_leaf_head f pre name lp a rp R av v :
  cmd_ok name lp a rp -> assoc autovars (tlit name) = Some av ->
  compared_var av (parsed_cmd name lp a rp R) = Some v ->
  (List.length (arg_tokens a) < f)%nat -> R <> [] ->
  leaf_expr f script (pre :: name :: lp :: arg_tokens a ++ rp :: R) =
    (do (o, val, strict, ts5) <- cond_var_operator f R;
     Ok (autovar_leaf (parsed_cmd name lp a rp R) v o val strict, parsed_imp name lp a rp R, ts5)).
Proof.
  intros (Hn & Hlp & Hrp & W & B) HA HV Hf HR.
  set (ts0 := pre :: name :: lp :: arg_tokens a ++ rp :: R).
  assert (N : peekis NOT ts0 = false) by (unfold ts0; rewrite BexpParse.peekis_cons; apply BexpParse.is_false; rewrite Hn; discriminate).
  assert (LS : leaf_start ts0 = ts0) by (unfold leaf_start; rewrite N; reflexivity).
  assert (HI : peekis IDENT (leaf_start ts0) = true) by (rewrite LS; unfold ts0; rewrite BexpParse.peekis_cons; apply BexpParse.is_true; exact Hn).
  assert (HA' : assoc autovars (tlit (pk 1 (leaf_start ts0))) = Some av) by (rewrite LS; exact HA).
  rewrite (autovar_leaf_equation autovars switches env_errors parse_format consts f script ts0 av HI HA').
  rewrite LS, N. change (adv ts0) with (name :: lp :: arg_tokens a ++ rp :: R).
  rewrite (command_with_arguments switches env_errors parse_format consts f script name lp a rp R Hlp Hrp W B Hf).
  fold (parsed_cmd name lp a rp R). fold (parsed_imp name lp a rp R). rewrite HV.
  rewrite (adv_cons_ne rp R HR). reflexivity.
Qed.

(* ! NAME ( args ) R *)
Theorem autovar_leaf_head_not f pre nt name lp a rp R av v :
  ttype nt = NOT -> cmd_ok name lp a rp -> assoc autovars (tlit name) = Some av ->
  compared_var av (parsed_cmd name lp a rp R) = Some v ->
  (List.length (arg_tokens a) < f)%nat -> R <> [] ->
  leaf_expr f script (pre :: nt :: name :: lp :: arg_tokens a ++ rp :: R) =
    Ok (autovar_leaf (parsed_cmd name lp a rp R) v OEq (t "0") false, parsed_imp name lp a rp R, R).
Proof.
  intros Hnt (Hn & Hlp & Hrp & W & B) HA HV Hf HR.
  set (ts0 := pre :: nt :: name :: lp :: arg_tokens a ++ rp :: R).
  assert (N : peekis NOT ts0 = true) by (unfold ts0; rewrite BexpParse.peekis_cons; apply BexpParse.is_true; exact Hnt).
  assert (LS : leaf_start ts0 = nt :: name :: lp :: arg_tokens a ++ rp :: R) by (unfold leaf_start; rewrite N; reflexivity).
  assert (HI : peekis IDENT (leaf_start ts0) = true) by (rewrite LS; rewrite BexpParse.peekis_cons; apply BexpParse.is_true; exact Hn).
  assert (HA' : assoc autovars (tlit (pk 1 (leaf_start ts0))) = Some av) by (rewrite LS; exact HA).
  rewrite (autovar_leaf_equation autovars switches env_errors parse_format consts f script ts0 av HI HA').
  rewrite LS, N. change (adv (nt :: name :: lp :: arg_tokens a ++ rp :: R)) with (name :: lp :: arg_tokens a ++ rp :: R).
  rewrite (command_with_arguments switches env_errors parse_format consts f script name lp a rp R Hlp Hrp W B Hf).
  fold (parsed_cmd name lp a rp R). fold (parsed_imp name lp a rp R). rewrite HV.
  rewrite (adv_cons_ne rp R HR). reflexivity.
Qed.

(* NAME R  (no parentheses: no arguments, so only a fixed result variable is possible) *)
Theorem autovar_leaf_head_bare f pre name x R av v :
  ttype name = IDENT -> ttype x <> LPAREN -> assoc autovars (tlit name) = Some av ->
  compared_var av (bare_cmd name (x :: R)) = Some v ->
  leaf_expr f script (pre :: name :: x :: R) =
    (do (o, val, strict, ts5) <- cond_var_operator f (x :: R);
     Ok (autovar_leaf (bare_cmd name (x :: R)) v o val strict, imp0, ts5)).
Proof.
  intros Hn Hx HA HV.
  set (ts0 := pre :: name :: x :: R).
  assert (N : peekis NOT ts0 = false) by (unfold ts0; rewrite BexpParse.peekis_cons; apply BexpParse.is_false; rewrite Hn; discriminate).
  assert (LS : leaf_start ts0 = ts0) by (unfold leaf_start; rewrite N; reflexivity).
  assert (HI : peekis IDENT (leaf_start ts0) = true) by (rewrite LS; unfold ts0; rewrite BexpParse.peekis_cons; apply BexpParse.is_true; exact Hn).
  assert (HA' : assoc autovars (tlit (pk 1 (leaf_start ts0))) = Some av) by (rewrite LS; exact HA).
  rewrite (autovar_leaf_equation autovars switches env_errors parse_format consts f script ts0 av HI HA').
  rewrite LS, N. change (adv ts0) with (name :: x :: R).
  rewrite (command_without_parentheses switches env_errors parse_format consts f script (name :: x :: R))
    by (rewrite BexpParse.peekis_cons; apply BexpParse.is_false; exact Hx).
  change (cur (name :: x :: R)) with name. fold (bare_cmd name (x :: R)). rewrite HV. reflexivity.
Qed.

(* a fixed result variable never fails; a position needs that many arguments *)
Lemma bare_cmd_var name R av v : compared_var av (bare_cmd name R) = Some v -> avPos av = None /\ v = avName av.
Proof.
  intros H. apply compared_var_spec in H. destruct H as [H|(k & _ & N)]; [exact H|]. cbn [cargs bare_cmd] in N. destruct k; discriminate.
Qed.

(* ---------- the comparison after the operand: shared with var(...) ---------- *)
(* OP value-tokens, up to the next '&&', '||' or ')' *)
Lemma cond_var_operator_values f o op vals R :
  is_cmp_tok o = Some op -> value_ok vals -> follow R -> (List.length vals < f)%nat ->
  cond_var_operator f (o :: vals ++ R) = Ok (op, opnd consts vals, false, R).
Proof.
  intros Ho (VN & VH & VF) (x & r & -> & Hx) Hf.
  unfold Parser.cond_var_operator. cbn [cur hd]. rewrite Ho.
  assert (NE : vals ++ x :: r <> []) by (destruct vals; discriminate). rewrite (adv_cons_ne o _ NE).
  destruct vals as [|v1 vals']; [congruence|]. inversion VF as [|? ? (V1 & V2 & V3 & V4) VF']; subst. cbn [hd] in VH.
  cbn [app]. rewrite !BexpParse.curis_cons, (BexpParse.is_false RPAREN v1 V1), (BexpParse.is_false VALUE v1 VH).
  change (v1 :: vals' ++ x :: r) with ((v1 :: vals') ++ x :: r).
  rewrite (collect_until_spec consts (fun tk0 => is RPAREN tk0 || is AND tk0 || is OR tk0) (v1 :: vals') x r [] f).
  - reflexivity.
  - eapply Forall_impl; [|exact VF]. intros a0 (A1 & A2 & A3 & _).
    rewrite (BexpParse.is_false _ a0 A1), (BexpParse.is_false _ a0 A2), (BexpParse.is_false _ a0 A3). reflexivity.
  - eapply Forall_impl; [|exact VF]. intros a0 (_ & _ & _ & A4). exact A4.
  - destruct Hx as [E|[E|E]]; isk E; reflexivity.
  - destruct Hx as [E|[E|E]]; rewrite E; discriminate.
  - exact Hf.
Qed.

Lemma cond_var_operator_nothing f R : follow R -> cond_var_operator f R = Ok (ONe, t "0", false, R).
Proof.
  intros (x & r & -> & Hx). apply cond_var_operator_default. apply no_cmp_after_leaf. cbn [cur hd]. tauto.
Qed.

(* ================= conditions mixing AutoVar leaves with other leaves, at any position and nesting ================= *)
(* BexpParse.parser_builds_tree asks of a leaf that it parses to the same [leaf] value whatever follows it.  The preamble
   command of an AutoVar leaf carries its position (cid = number of remaining tokens), so here the requirement on a leaf
   is made relative to the tokens that actually follow it; the surface syntax, the printed tokens, the tree and the
   written-expression semantics are BexpParse's. *)
Variable F0 : nat.

Definition leaf_spec_at (lt : list token) (l : leaf) (imp : impdata) (R : list token) : Prop :=
  (exists x r, lt = x :: r /\ ttype x <> LPAREN /\ (ttype x = NOT -> exists y r', r = y :: r' /\ ttype y <> LPAREN)) /\
  forall f pre, (F0 + List.length lt <= f)%nat -> leaf_expr f script (pre :: lt ++ R) = Ok (l, imp, R).

Fixpoint wf_atom_at (a : atom) (R : list token) : Prop :=
  match a with
  | ALeaf lt l imp => leaf_spec_at lt l imp R
  | APar e => wf_expr_at e (tk RPAREN :: R)
  | ANot e => wf_expr_at e (tk RPAREN :: R)
  end
with wf_tail_at (t : tail) (R : list token) : Prop :=
  match t with
  | TNil => True
  | TAnd a t' => wf_atom_at a (print_tail t' ++ R) /\ wf_tail_at t' R
  | TOr e => wf_expr_at e R
  end
with wf_expr_at (e : expr) (R : list token) : Prop :=
  match e with EX a t => wf_atom_at a (print_tail t ++ R) /\ wf_tail_at t R end.

(* the leaf forms of BexpParse (var/flag/defeated, any follower) fit *)
Lemma leaf_spec_anywhere lt l imp R :
  leaf_spec autovars switches env_errors parse_format consts script F0 lt l imp -> follow R -> leaf_spec_at lt l imp R.
Proof. intros [H1 H2] HR. split; [exact H1|]. intros f pre Hf. apply H2; assumption. Qed.

Definition Pexpr_at (e : expr) : Prop := forall n pre rest f, wf_expr_at e rest -> (need_expr F0 e <= f)%nat -> stop rest ->
  exists imp', bool_expr f false n script (pre :: print_expr e ++ rest) = Ok (tree_expr n e, imp', rest) /\ imp_eq imp' (imp_expr e).
Definition Patom_at (a : atom) : Prop :=
  (forall n pre R f, wf_atom_at a R -> (need_atom F0 a <= f)%nat -> follow R ->
     exists imp', bool_expr f true n script (pre :: print_atom a ++ R) = Ok (tree_atom n a, imp', R) /\ imp_eq imp' (imp_atom a)) /\
  match a with APar e | ANot e => Pexpr_at e | ALeaf _ _ _ => True end.
Definition Ptail_at (t : tail) : Prop := forall n L rest f, wf_tail_at t rest -> (need_tail F0 t <= f)%nat -> stop rest ->
  exists imp', right_side f L false n script (print_tail t ++ rest) = Ok (tree_tail n L t, imp', rest) /\ imp_eq imp' (imp_tail t).

Theorem parser_builds_tree_at :
  (forall a, Patom_at a) /\ (forall t, Ptail_at t) /\ (forall e, Pexpr_at e).
Proof.
  apply surface_mutind.
  - (* leaf atom *)
    intros lt l imp. split; [|exact I]. intros n pre R f [(x & r & -> & NL & NN) LS] Hf HR. need_simpl Hf.
    destruct f as [|f]; [lia|]. rewrite bool_expr_unfold. cbn zeta.
    cbn [print_atom]. destruct (leaf_guard pre x r R NL NN) as [G1 G2].
    rewrite G1, G2. cbn [orb]. rewrite (LS f pre ltac:(lia)). cbn beta iota.
    eexists. split; [reflexivity|apply imp_eq_refl].
  - (* ( e ) *)
    intros e IHe. split; [|exact IHe]. intros n pre R f W Hf HR. need_simpl Hf. destruct f as [|f]; [lia|].
    rewrite bool_expr_unfold. cbn zeta. rewrite print_par.
    assert (G1 : peekis LPAREN (pre :: tk LPAREN :: print_expr e ++ tk RPAREN :: R) = true) by reflexivity.
    rewrite G1. cbn [orb]. cbn [adv].
    destruct (IHe n (tk LPAREN) (tk RPAREN :: R) f W ltac:(lia)) as (imp' & E & IE).
    { exists (tk RPAREN), R. split; reflexivity. }
    change (adv (pre :: tk LPAREN :: print_expr e ++ tk RPAREN :: R)) with (tk LPAREN :: print_expr e ++ tk RPAREN :: R).
    rewrite E. cbn beta iota. rewrite BexpParse.curis_cons; change (is RPAREN (tk RPAREN)) with true; cbn [negb andb].
    destruct HR as (y & R' & -> & _). eexists. split; [reflexivity|exact IE].
  - (* ! ( e ) *)
    intros e IHe. split; [|exact IHe]. intros n pre R f W Hf HR. need_simpl Hf. destruct f as [|f]; [lia|].
    rewrite bool_expr_unfold. cbn zeta. rewrite print_not.
    assert (G1 : peekis LPAREN (pre :: tk NOT :: tk LPAREN :: print_expr e ++ tk RPAREN :: R) = false) by reflexivity.
    assert (G2 : peekis NOT (pre :: tk NOT :: tk LPAREN :: print_expr e ++ tk RPAREN :: R) && is LPAREN (pk 2 (pre :: tk NOT :: tk LPAREN :: print_expr e ++ tk RPAREN :: R)) = true) by reflexivity.
    rewrite G1, G2. cbn [orb].
    destruct (IHe (negb n) (tk LPAREN) (tk RPAREN :: R) f W ltac:(lia)) as (imp' & E & IE).
    { exists (tk RPAREN), R. split; reflexivity. }
    change (adv (adv (pre :: tk NOT :: tk LPAREN :: print_expr e ++ tk RPAREN :: R))) with (tk LPAREN :: print_expr e ++ tk RPAREN :: R).
    rewrite E. cbn beta iota. rewrite BexpParse.curis_cons; change (is RPAREN (tk RPAREN)) with true; cbn [negb andb].
    destruct HR as (y & R' & -> & _). eexists. split; [reflexivity|exact IE].
  - (* empty tail *)
    intros n L rest f _ Hf (x & r & -> & N0). need_simpl Hf. destruct f as [|f]; [lia|].
    assert (N1 : ttype x <> AND) by congruence. assert (N2 : ttype x <> OR) by congruence.
    rewrite right_side_unfold. cbn [print_tail app]. rewrite !BexpParse.curis_cons. rewrite (BexpParse.is_false AND x N1), (BexpParse.is_false OR x N2).
    eexists. split; [reflexivity|apply imp_eq_refl].
  - (* && atom tail *)
    intros a [IHa _] t IHt n L rest f [Wa Wt] Hf ST. need_simpl Hf. destruct f as [|f]; [lia|].
    rewrite right_side_unfold. cbn [print_tail app]. assert (C1 : curis AND (tk AND :: print_atom a ++ print_tail t ++ rest) = true) by reflexivity.
    rewrite <- app_assoc. rewrite C1.
    destruct (IHa n (tk AND) (print_tail t ++ rest) f Wa ltac:(lia)) as (imp1 & E1 & I1).
    { apply follow_tail; exact ST. }
    rewrite E1. cbn beta iota.
    destruct (IHt n (BBin (if n then BOr else BAnd) L (tree_atom n a)) rest f Wt ltac:(lia) ST) as (imp2 & E2 & I2).
    rewrite E2. cbn beta iota. eexists. split; [reflexivity|]. apply imp_eq_add; assumption.
  - (* || expr *)
    intros e IHe n L rest f We Hf ST. need_simpl Hf. destruct f as [|f]; [lia|].
    rewrite right_side_unfold. cbn [print_tail app].
    assert (C1 : curis AND (tk OR :: print_expr e ++ rest) = false) by reflexivity.
    assert (C2 : curis OR (tk OR :: print_expr e ++ rest) = true) by reflexivity.
    rewrite C1, C2. destruct (IHe n (tk OR) rest f We ltac:(lia) ST) as (imp1 & E1 & I1). rewrite E1. cbn beta iota.
    eexists. split; [reflexivity|exact I1].
  - (* atom tail, not in single-operand mode *)
    intros a [IHa IHin] t IHt n pre rest f [Wa Wt] Hf ST. need_simpl Hf. destruct f as [|f]; [lia|].
    pose proof (stop_nonempty _ ST) as NE.
    destruct (first_tok_tail t rest ST) as (x & r & ER & HX).
    rewrite bool_expr_unfold. cbn zeta. cbn [print_expr]. rewrite <- app_assoc.
    destruct a as [lt l imp|e|e].
    + (* leaf first *)
      destruct Wa as [(x0 & r0 & -> & NL & NN) LS].
      cbn [print_atom]. destruct (leaf_guard pre x0 r0 (print_tail t ++ rest) NL NN) as [G1 G2].
      rewrite G1, G2. cbn [orb].
      rewrite (LS f pre ltac:(need_simpl Hf; lia)). cbn beta iota.
      destruct (IHt n (BLeaf (if n then neg_leaf l else l)) rest f Wt ltac:(lia) ST) as (imp2 & E2 & I2).
      rewrite E2. cbn beta iota. eexists. split; [reflexivity|]. cbn [imp_expr imp_atom]. apply imp_eq_add; [apply imp_eq_refl|exact I2].
    + (* ( e ) first *)
      rewrite print_par.
      assert (G1 : peekis LPAREN (pre :: tk LPAREN :: print_expr e ++ tk RPAREN :: print_tail t ++ rest) = true) by reflexivity.
      rewrite G1. cbn [orb].
      destruct (IHin n (tk LPAREN) (tk RPAREN :: print_tail t ++ rest) f Wa ltac:(need_simpl Hf; lia)) as (imp1 & E1 & I1).
      { exists (tk RPAREN), (print_tail t ++ rest). split; reflexivity. }
      change (adv (pre :: tk LPAREN :: print_expr e ++ tk RPAREN :: print_tail t ++ rest)) with (tk LPAREN :: print_expr e ++ tk RPAREN :: print_tail t ++ rest).
      rewrite E1. cbn beta iota. rewrite BexpParse.curis_cons; change (is RPAREN (tk RPAREN)) with true; cbn [negb andb].
      rewrite ER. rewrite !BexpParse.peekis_cons, ?adv_cons2.
      destruct t as [|a' t'|e'].
      * assert (N1 : ttype x <> AND) by congruence. assert (N2 : ttype x <> OR) by congruence. rewrite (BexpParse.is_false AND x N1), (BexpParse.is_false OR x N2). cbn [orb].
        cbn [print_tail app] in ER. subst rest. eexists. split; [reflexivity|].
        cbn [imp_expr imp_atom imp_tail]. apply imp_eq_trans with (b := imp_expr e); [exact I1|].
        split; cbn; now rewrite app_nil_r.
      * rewrite (BexpParse.is_true AND x HX). cbn [orb]. rewrite <- ER.
        destruct (IHt n (tree_expr n e) rest f Wt ltac:(lia) ST) as (imp2 & E2 & I2). rewrite E2. cbn beta iota.
        eexists. split; [reflexivity|]. apply imp_eq_add; assumption.
      * rewrite (BexpParse.is_true OR x HX). rewrite orb_true_r. rewrite <- ER.
        destruct (IHt n (tree_expr n e) rest f Wt ltac:(lia) ST) as (imp2 & E2 & I2). rewrite E2. cbn beta iota.
        eexists. split; [reflexivity|]. apply imp_eq_add; assumption.
    + (* ! ( e ) first *)
      rewrite print_not.
      assert (G1 : peekis LPAREN (pre :: tk NOT :: tk LPAREN :: print_expr e ++ tk RPAREN :: print_tail t ++ rest) = false) by reflexivity.
      assert (G2 : peekis NOT (pre :: tk NOT :: tk LPAREN :: print_expr e ++ tk RPAREN :: print_tail t ++ rest) && is LPAREN (pk 2 (pre :: tk NOT :: tk LPAREN :: print_expr e ++ tk RPAREN :: print_tail t ++ rest)) = true) by reflexivity.
      rewrite G1, G2. cbn [orb].
      destruct (IHin (negb n) (tk LPAREN) (tk RPAREN :: print_tail t ++ rest) f Wa ltac:(need_simpl Hf; lia)) as (imp1 & E1 & I1).
      { exists (tk RPAREN), (print_tail t ++ rest). split; reflexivity. }
      change (adv (adv (pre :: tk NOT :: tk LPAREN :: print_expr e ++ tk RPAREN :: print_tail t ++ rest))) with (tk LPAREN :: print_expr e ++ tk RPAREN :: print_tail t ++ rest).
      rewrite E1. cbn beta iota. rewrite BexpParse.curis_cons; change (is RPAREN (tk RPAREN)) with true; cbn [negb andb].
      rewrite ER. rewrite !BexpParse.peekis_cons, ?adv_cons2.
      destruct t as [|a' t'|e'].
      * assert (N1 : ttype x <> AND) by congruence. assert (N2 : ttype x <> OR) by congruence. rewrite (BexpParse.is_false AND x N1), (BexpParse.is_false OR x N2). cbn [orb].
        cbn [print_tail app] in ER. subst rest. eexists. split; [reflexivity|].
        cbn [imp_expr imp_atom imp_tail]. apply imp_eq_trans with (b := imp_expr e); [exact I1|].
        split; cbn; now rewrite app_nil_r.
      * rewrite (BexpParse.is_true AND x HX). cbn [orb]. rewrite <- ER.
        destruct (IHt n (tree_expr (negb n) e) rest f Wt ltac:(lia) ST) as (imp2 & E2 & I2). rewrite E2. cbn beta iota.
        eexists. split; [reflexivity|]. apply imp_eq_add; assumption.
      * rewrite (BexpParse.is_true OR x HX). rewrite orb_true_r. rewrite <- ER.
        destruct (IHt n (tree_expr (negb n) e) rest f Wt ltac:(lia) ST) as (imp2 & E2 & I2). rewrite E2. cbn beta iota.
        eexists. split; [reflexivity|]. apply imp_eq_add; assumption.
Qed.

(* ---------- the AutoVar leaf forms satisfy the requirement ---------- *)
Lemma cmd_toks_shape name lp a rp more : ttype name = IDENT ->
  exists x r, cmd_toks name lp a rp ++ more = x :: r /\ ttype x <> LPAREN /\ (ttype x = NOT -> exists y r', r = y :: r' /\ ttype y <> LPAREN).
Proof.
  intros Hn. unfold cmd_toks. cbn [app]. eexists _, _. split; [reflexivity|]. rewrite Hn. split; [discriminate|]. intros E. discriminate E.
Qed.

Lemma cmd_toks_length name lp a rp : List.length (cmd_toks name lp a rp) = (3 + List.length (arg_tokens a))%nat.
Proof. unfold cmd_toks. cbn [List.length]. rewrite app_length. cbn [List.length]. lia. Qed.

(* NAME ( args )   followed by '&&', '||' or ')' : run the command, then  var != 0 *)
Theorem autovar_leaf_plain name lp a rp R av v : (1 <= F0)%nat ->
  cmd_ok name lp a rp -> assoc autovars (tlit name) = Some av ->
  compared_var av (parsed_cmd name lp a rp R) = Some v -> follow R ->
  leaf_spec_at (cmd_toks name lp a rp) (autovar_leaf (parsed_cmd name lp a rp R) v ONe (t "0") false) (parsed_imp name lp a rp R) R.
Proof.
  intros HF OK HA HV HR. split.
  - destruct (cmd_toks_shape name lp a rp [] (proj1 OK)) as (x & r & E & H). rewrite app_nil_r in E. exists x, r. split; [exact E|exact H].
  - intros f pre Hf. rewrite cmd_toks_length in Hf. rewrite cmd_toks_app.
    rewrite (autovar_leaf_head f pre name lp a rp R av v OK HA HV ltac:(lia) (follow_nonempty _ HR)).
    rewrite (cond_var_operator_nothing f R HR). reflexivity.
Qed.

(* ! NAME ( args ) : run the command, then  var == 0 *)
Theorem autovar_leaf_negated nt name lp a rp R av v : (1 <= F0)%nat -> ttype nt = NOT ->
  cmd_ok name lp a rp -> assoc autovars (tlit name) = Some av ->
  compared_var av (parsed_cmd name lp a rp R) = Some v -> follow R ->
  leaf_spec_at (nt :: cmd_toks name lp a rp) (autovar_leaf (parsed_cmd name lp a rp R) v OEq (t "0") false) (parsed_imp name lp a rp R) R.
Proof.
  intros HF Hnt OK HA HV HR. split.
  - eexists _, _. split; [reflexivity|]. rewrite Hnt. split; [discriminate|]. intros _. unfold cmd_toks. eexists _, _. split; [reflexivity|].
    rewrite (proj1 OK). discriminate.
  - intros f pre Hf. cbn [List.length] in Hf. rewrite cmd_toks_length in Hf. cbn [app]. rewrite cmd_toks_app.
    apply (autovar_leaf_head_not f pre nt name lp a rp R av v Hnt OK HA HV ltac:(lia) (follow_nonempty _ HR)).
Qed.

(* NAME ( args ) OP value-tokens : run the command, then  var OP value  - the operator and the value are read as for
   var(...) (BexpParse.leaf_varcmp gives the same [op] and [opnd consts vals]) *)
Theorem autovar_leaf_compared name lp a rp o op vals R av v : (1 <= F0)%nat ->
  cmd_ok name lp a rp -> assoc autovars (tlit name) = Some av ->
  is_cmp_tok o = Some op -> value_ok vals ->
  compared_var av (parsed_cmd name lp a rp (o :: vals ++ R)) = Some v -> follow R ->
  leaf_spec_at (cmd_toks name lp a rp ++ o :: vals)
    (autovar_leaf (parsed_cmd name lp a rp (o :: vals ++ R)) v op (opnd consts vals) false) (parsed_imp name lp a rp (o :: vals ++ R)) R.
Proof.
  intros HF OK HA Ho HVal HV HR. split.
  - apply cmd_toks_shape. exact (proj1 OK).
  - intros f pre Hf. rewrite app_length, cmd_toks_length in Hf. cbn [List.length] in Hf.
    rewrite <- app_assoc. rewrite cmd_toks_app. cbn [app].
    rewrite (autovar_leaf_head f pre name lp a rp (o :: vals ++ R) av v OK HA HV ltac:(lia) ltac:(discriminate)).
    rewrite (cond_var_operator_values f o op vals R Ho HVal HR ltac:(lia)). reflexivity.
Qed.

(* NAME without parentheses *)
Theorem autovar_leaf_bare_name name R av : (1 <= F0)%nat ->
  ttype name = IDENT -> assoc autovars (tlit name) = Some av -> avPos av = None -> follow R ->
  leaf_spec_at [name] (autovar_leaf (bare_cmd name R) (avName av) ONe (t "0") false) imp0 R.
Proof.
  intros HF Hn HA HP HR. split.
  - eexists _, _. split; [reflexivity|]. rewrite Hn. split; [discriminate|]. intros E; discriminate E.
  - intros f pre Hf. destruct HR as (x & r & -> & Hx). cbn [app].
    rewrite (autovar_leaf_head_bare f pre name x r av (avName av) Hn).
    + rewrite (cond_var_operator_nothing f (x :: r)) by (exists x, r; auto). reflexivity.
    + destruct Hx as [E|[E|E]]; rewrite E; discriminate.
    + exact HA.
    + apply compared_var_fixed. exact HP.
Qed.

(* ---------- switch ( NAME ( args ) ) { ---------- *)
Theorem autovar_switch_with_arguments f bs cs sw lp0 name lp a rp rp0 lb R av v :
  ttype lp0 = LPAREN -> cmd_ok name lp a rp -> ttype rp0 = RPAREN -> ttype lb = LBRACE ->
  assoc autovars (tlit name) = Some av ->
  compared_var av (parsed_cmd name lp a rp (rp0 :: lb :: R)) = Some v ->
  (List.length (arg_tokens a) < f)%nat -> R <> [] ->
  let ts := sw :: lp0 :: name :: lp :: arg_tokens a ++ rp :: rp0 :: lb :: R in
  parse_switch (S f) script bs cs ts =
    (do (cases, imp', ts5) <- parse_cases f script (List.length ts :: bs) cs lb R [] [] false imp0;
     match cases with
     | [] => err_range sw (cur ts5) "switch statement has no cases or default case"
     | _ => Ok ([SCmd (parsed_cmd name lp a rp (rp0 :: lb :: R)); SSwitch (List.length ts) v (tline name) cases],
                impadd (parsed_imp name lp a rp (rp0 :: lb :: R)) imp', ts5)
     end).
Proof.
  intros Hlp0 (Hn & Hlp & Hrp & W & B) Hrp0 Hlb HA HV Hf HR ts.
  assert (HL : peekis LPAREN ts = true) by (unfold ts; rewrite BexpParse.peekis_cons; apply BexpParse.is_true; exact Hlp0).
  assert (A1 : adv ts = lp0 :: name :: lp :: arg_tokens a ++ rp :: rp0 :: lb :: R) by reflexivity.
  assert (HVr : peekis VAR (adv ts) = false) by (rewrite A1, BexpParse.peekis_cons; apply BexpParse.is_false; rewrite Hn; discriminate).
  assert (HA' : assoc autovars (tlit (pk 1 (adv ts))) = Some av) by (rewrite A1; exact HA).
  rewrite (autovar_switch_equation autovars switches env_errors parse_format consts f script bs cs ts av HL HVr HA').
  rewrite A1. change (adv (lp0 :: name :: lp :: arg_tokens a ++ rp :: rp0 :: lb :: R)) with (name :: lp :: arg_tokens a ++ rp :: rp0 :: lb :: R).
  rewrite (command_with_arguments switches env_errors parse_format consts f script name lp a rp (rp0 :: lb :: R) Hlp Hrp W B Hf).
  fold (parsed_cmd name lp a rp (rp0 :: lb :: R)). fold (parsed_imp name lp a rp (rp0 :: lb :: R)). rewrite HV.
  rewrite BexpParse.peekis_cons, (BexpParse.is_true RPAREN rp0 Hrp0). cbn [negb]. cbn zeta.
  change (adv (rp :: rp0 :: lb :: R)) with (rp0 :: lb :: R).
  rewrite BexpParse.peekis_cons, (BexpParse.is_true LBRACE lb Hlb). cbn [negb].
  change (adv (rp0 :: lb :: R)) with (lb :: R). rewrite (adv_cons_ne lb R HR). reflexivity.
Qed.

(* ================= the whole condition ================= *)
Section MEANING.
Variable St : Type.
Variable exec : cmd -> St -> Sem2.stepres St.
Variable flag_set trainer_beaten : text -> St -> bool.
Variable cmp_var cmp_var_value : text -> text -> St -> comparison.

(* the leaf built for an AutoVar command: the command is the only event, then the configured variable is compared in the new state *)
Theorem autovar_leaf_meaning c v o val strict s s' :
  exec c s = Sem2.Continue St s' ->
  Sem2.eval_leaf St exec flag_set trainer_beaten cmp_var cmp_var_value (autovar_leaf c v o val strict) s =
    ([c], s', Some (Sem2.cmp_holds o ((if strict then cmp_var_value else cmp_var) v val s'))).
Proof. intros H. unfold Sem2.eval_leaf, autovar_leaf. cbn [lpre]. rewrite H. reflexivity. Qed.

Lemma autovar_leaf_ok c v o val strict : leaf_ok (autovar_leaf c v o val strict).
Proof. exact I. Qed.

(* A condition '( e )' whose leaves are var/flag/defeated leaves and AutoVar leaves in any mixture, position and nesting:
   the parser consumes exactly the tokens of e and returns a tree that evaluates like the written expression -
   left to right with short circuit, every leaf reached runs its preamble command (if any) once and then tests. *)
Theorem condition_with_autovar_leaves_parses_to_its_meaning e lp rest f :
  wf_expr_at e rest -> lok_expr e -> (need_expr F0 e <= f)%nat -> stop rest ->
  exists T imp', bool_expr f false false script (lp :: print_expr e ++ rest) = Ok (T, imp', rest) /\
    imp_eq imp' (imp_expr e) /\
    forall s, Sem2.eval_bexp St exec flag_set trainer_beaten cmp_var cmp_var_value T s =
              sev_expr St exec flag_set trainer_beaten cmp_var cmp_var_value e s.
Proof.
  intros W L Hf ST.
  destruct (proj2 (proj2 parser_builds_tree_at) e false lp rest f W Hf ST) as (imp' & E & I).
  exists (tree_expr false e), imp'. split; [exact E|]. split; [exact I|]. intros s.
  rewrite (proj2 (proj2 (tree_means_written St exec flag_set trainer_beaten cmp_var cmp_var_value)) e L false s).
  unfold negif. destruct (sev_expr _ _ _ _ _ _ e s) as [[ev0 s0] r]. reflexivity.
Qed.
End MEANING.
End GRAMMAR.

(* ================= the premises are satisfiable: a concrete condition and a concrete program ================= *)
Section EXAMPLE.
Let avs : list (text * autovar) :=
  [(t "checkitem", {| avName := t "VAR_RESULT"; avPos := None |});      (* fixed result variable *)
   (t "specialvar", {| avName := []; avPos := Some 0%Z |})].            (* result variable = first argument *)
Let sw : list (text * text) := [].
Let pf : toks -> res (token * text * text * toks) := fun _ => Panic.
Let cs : list (text * text) := [].
Let S := t "S".

(*   flag(A) && checkitem(ITEM_X, 2) == 1 || !specialvar(VAR_TEMP, GET_X)   followed by  ) { EOF  *)
Let rest := [tkl RPAREN ")"; tkl LBRACE "{"; tkl EOF ""].
Let args1 : arglist := ([PTok (tkl IDENT "ITEM_X")], [(tkl COMMA ",", [PTok (tkl INT "2")])]).
Let args2 : arglist := ([PTok (tkl IDENT "VAR_TEMP")], [(tkl COMMA ",", [PTok (tkl IDENT "GET_X")])]).
Let n1 := tkl IDENT "checkitem".
Let n2 := tkl IDENT "specialvar".
Let lp := tkl LPAREN "(".
Let rp := tkl RPAREN ")".
Let lf1 := [tkl FLAG "flag"; lp; tkl IDENT "A"; rp].
Let lf2 := cmd_toks n1 lp args1 rp ++ [tkl EQ "=="; tkl INT "1"].
Let lf3 := tkl NOT "!" :: cmd_toks n2 lp args2 rp.
Let R2 := tk OR :: (lf3 ++ []) ++ rest.
Let K2 := tkl EQ "==" :: [tkl INT "1"] ++ R2.
Let l1 := mkleaf cs (tkl FLAG "flag") [tkl IDENT "A"] OEq (t "TRUE") false.
Let l2 := autovar_leaf (parsed_cmd cs n1 lp args1 rp K2) (t "VAR_RESULT") OEq (opnd cs [tkl INT "1"]) false.
Let l3 := autovar_leaf (parsed_cmd cs n2 lp args2 rp rest) (t "VAR_TEMP") OEq (t "0") false.
Let e_av : expr :=
  EX (ALeaf lf1 l1 imp0)
     (TAnd (ALeaf lf2 l2 (parsed_imp S n1 lp args1 rp K2))
           (TOr (EX (ALeaf lf3 l3 (parsed_imp S n2 lp args2 rp rest)) TNil))).

Lemma ex_cmd_ok1 : cmd_ok sw false pf n1 lp args1 rp.
Proof.
  split; [reflexivity|]. split; [reflexivity|]. split; [reflexivity|]. split.
  - split; cbn [Datatypes.fst Datatypes.snd args1].
    + apply Forall_cons; [reflexivity|apply Forall_nil].
    + apply Forall_cons; [|apply Forall_nil]. split; [reflexivity|]. apply Forall_cons; [reflexivity|apply Forall_nil].
  - cbn. repeat (apply bal_other; [reflexivity|]). apply bal_nil.
Qed.
Lemma ex_cmd_ok2 : cmd_ok sw false pf n2 lp args2 rp.
Proof.
  split; [reflexivity|]. split; [reflexivity|]. split; [reflexivity|]. split.
  - split; cbn [Datatypes.fst Datatypes.snd args2].
    + apply Forall_cons; [reflexivity|apply Forall_nil].
    + apply Forall_cons; [|apply Forall_nil]. split; [reflexivity|]. apply Forall_cons; [reflexivity|apply Forall_nil].
  - cbn. repeat (apply bal_other; [reflexivity|]). apply bal_nil.
Qed.

Example premises_hold : wf_expr_at avs sw false pf cs S 1 e_av rest /\ lok_expr e_av /\ stop rest.
Proof.
  split; [|split].
  - cbn [e_av wf_expr_at wf_atom_at wf_tail_at]. split; [|split; [|split; [|exact I]]].
    + apply leaf_spec_anywhere; [|eexists _, _; split; [reflexivity|left; reflexivity]].
      apply (leaf_bare avs sw false pf cs S 1 (tkl FLAG "flag") lp [tkl IDENT "A"] rp); try reflexivity; try lia.
      * right; left; reflexivity.
      * split; [discriminate|]. repeat constructor; discriminate.
    + apply (autovar_leaf_compared avs sw false pf cs S 1 n1 lp args1 rp (tkl EQ "==") OEq [tkl INT "1"] R2 {| avName := t "VAR_RESULT"; avPos := None |} (t "VAR_RESULT")); try reflexivity; try lia.
      * exact ex_cmd_ok1.
      * split; [discriminate|]. split; [discriminate|]. repeat constructor; discriminate.
      * eexists _, _. split; [reflexivity|]. right; left; reflexivity.
    + apply (autovar_leaf_negated avs sw false pf cs S 1 (tkl NOT "!") n2 lp args2 rp rest {| avName := []; avPos := Some 0%Z |} (t "VAR_TEMP")); try reflexivity; try lia.
      * exact ex_cmd_ok2.
      * eexists _, _. split; [reflexivity|]. right; right; reflexivity.
  - cbn [e_av lok_expr lok_atom lok_tail]. split; [|split; [exact I|split; exact I]].
    apply mkleaf_ok. right. split; [left; reflexivity|left; reflexivity].
  - eexists _, _. split; reflexivity.
Qed.

(* the model run agrees with the theorem: the tree, and the three leaves with their commands *)
Example model_run :
  exists imp', bool_expr avs sw false pf cs 40 false false S (lp :: print_expr e_av ++ rest) = Ok (tree_expr false e_av, imp', rest) /\
    leaves (tree_expr false e_av) = [l1; l2; l3] /\
    option_map cargs (lpre l2) = Some [t "ITEM_X"; t "2"] /\ loperand l2 = t "VAR_RESULT" /\
    option_map cargs (lpre l3) = Some [t "VAR_TEMP"; t "GET_X"] /\ loperand l3 = t "VAR_TEMP".
Proof. eexists. split; [vm_compute; reflexivity|]. repeat split. Qed.

(* a program, from the source text to the output text *)
Let comp := Compile.compile (fun _ => false) (fun _ => false) (fun _ => false) avs [] false
              {| Format.fcDefault := []; Format.fcFonts := [] |} [] 0%Z false None.
Let nl := [10%N].
Let tb := [9%N].
Example compiled_condition :
  comp (t "script S { while (checkitem(ITEM_X, 2)) { foo } }") =
  Compile.OutText (t "S::" ++ nl ++ t "S_1:" ++ nl ++ tb ++ t "goto S_3" ++ nl ++ nl ++
                   t "S_2:" ++ nl ++ tb ++ t "foo" ++ nl ++ tb ++ t "goto S_1" ++ nl ++ nl ++
                   t "S_3:" ++ nl ++ tb ++ t "checkitem ITEM_X, 2" ++ nl ++ tb ++ t "compare VAR_RESULT, 0" ++ nl ++
                   tb ++ t "goto_if_ne S_2" ++ nl ++ tb ++ t "return" ++ nl ++ nl).
Proof. vm_compute. reflexivity. Qed.

Example compiled_switch :
  comp (t "script S { switch (specialvar(VAR_TEMP, GET_X)) { case 1: foo } }") =
  Compile.OutText (t "S::" ++ nl ++ tb ++ t "specialvar VAR_TEMP, GET_X" ++ nl ++ tb ++ t "switch VAR_TEMP" ++ nl ++
                   tb ++ t "case 1, S_2" ++ nl ++ tb ++ t "return" ++ nl ++ nl ++
                   t "S_2:" ++ nl ++ tb ++ t "foo" ++ nl ++ tb ++ t "return" ++ nl ++ nl).
Proof. vm_compute. reflexivity. Qed.

Let err_msg (o : Compile.outcome) : option text := match o with Compile.OutErr e => Some (emsg e) | _ => None end.
Example rejected_forms :
  err_msg (comp (t "script S { if (bar(1) == 1) { foo } }")) =
    Some (t "left side of binary expression must be var(), flag(), defeated(), or autovar command") /\
  err_msg (comp (t "script S { switch (bar(1)) { case 1: foo } }")) =
    Some (t "expected next token to be 'VAR' or auto-var command") /\
  err_msg (comp (t "script S { if (specialvar() == 1) { foo } }")) =
    Some (t "auto-var command has an arg position out of range").
Proof. split; [|split]; vm_compute; reflexivity. Qed.
End EXAMPLE.

(* ================= rendering: the preamble of a leaf is printed by the instruction that prints a command statement ================= *)
Theorem preamble_rendered_as_statement mpath name ch next l tr fa c :
  cbr ch = Some (BrLeaf l tr fa) -> lpre l = Some c ->
  (exists more, Datatypes.fst (Datatypes.fst (render_branch mpath name ch next)) = ICmd c :: more) /\
  (exists before, render_stmt mpath (SCmd c) = before ++ [ICmd c] /\ before = marker mpath (tline (ctok c))) /\
  forall p, print_instr p (ICmd c) = render_cmd c.
Proof.
  intros HB HP. split; [|split].
  - unfold render_branch. rewrite HB, HP. destruct (goto_or_fall name fa next true) as [[x regs] fall].
    cbn [Datatypes.fst app]. eexists. reflexivity.
  - eexists. split; reflexivity.
  - intros p. reflexivity.
Qed.

(* ================= assumptions ================= *)
