(* C07 - format() only turns spaces into line breaks, and every line fits the box. *)
From Coq Require Import List ZArith NArith.
Import ListNotations.
From Pory Require Import Lexer Ast Parser Format FmtLayout FmtRefine.

(* for an arbitrary word type, any integer width function (any font table), space width, maxW, cursor,
   numLines and token list: every produced line with at least two words fits (incl. the cursor reserve on the
   lines where the prompt is shown) and every compiler-inserted break follows the text-box discipline *)
Theorem layout_fits_and_discipline :
  forall (word : Type) (width : word -> Z) (space maxW cursor numLines : Z) (ts : list (tok word)),
    Forall2 (fun i l => line_ok word width space maxW cursor numLines i l /\ disc_ok word numLines i l)
            (indices word 0 (layout word width space maxW cursor numLines ts)) (layout word width space maxW cursor numLines ts).
Proof. exact FmtLayout.layout_fits_and_discipline. Qed.
Print Assumptions layout_fits_and_discipline.

(* the executable format_text of the model (compared with FontConfig.FormatText on every run) IS that abstract line
   filler applied to the words get_next_word yields, printed with single spaces and break codes ... *)
Theorem format_text_refines :
  forall fc txt0 maxW cursor fontID numLines ws,
    let txt := map (fun c => if (c =? 10)%N then 32%N else c) txt0 in
    let spaceW := rune_width fc 32%N fontID in
    words_from txt (S (List.length txt)) (Datatypes.fst (get_next_word txt)) (Datatypes.snd (get_next_word txt)) = Some ws ->
    format_text fc txt0 maxW cursor fontID numLines = None \/
    format_text fc txt0 maxW cursor fontID numLines =
      Some (print_lines (layout text (fun w => word_width fc w fontID) spaceW maxW cursor numLines (map classify ws))).
Proof. exact FmtRefine.format_text_refines. Qed.
Print Assumptions format_text_refines.

(* ... hence every line the model produces fits and follows the discipline, for every font table and parameter set *)
Theorem format_text_lines_fit :
  forall fc txt0 maxW cursor fontID numLines ws out,
    let txt := map (fun c => if (c =? 10)%N then 32%N else c) txt0 in
    let spaceW := rune_width fc 32%N fontID in
    let width := fun w => word_width fc w fontID in
    words_from txt (S (List.length txt)) (Datatypes.fst (get_next_word txt)) (Datatypes.snd (get_next_word txt)) = Some ws ->
    format_text fc txt0 maxW cursor fontID numLines = Some out ->
    exists ls, out = print_lines ls /\
      Forall2 (fun i l => line_ok text width spaceW maxW cursor numLines i l /\ disc_ok text numLines i l) (indices text 0 ls) ls.
Proof. exact FmtRefine.format_text_lines_fit. Qed.
Print Assumptions format_text_lines_fit.

(* nothing is lost, duplicated or reordered: the words of the lines, in order, are the words of the input *)
Theorem layout_keeps_words :
  forall (word : Type) (width : word -> Z) (space maxW cursor numLines : Z) (ts : list (tok word)),
    flat_map (lwords word) (layout word width space maxW cursor numLines ts) = words_of_toks word ts.
Proof. exact FmtRefine.layout_keeps_words. Qed.
Print Assumptions layout_keeps_words.

(* ---------- from the characters of the text to the output (FormatWords.v) ---------- *)
(* words_from_total: the word splitter always succeeds with its fuel, so the hypothesis `words_from .. = Some ws` of the theorems
   above disappears (format_text_refines_total, format_text_lines_fit_total).  get_next_word_spec: what one call of getNextWord
   does - leading spaces skipped, the word runs to the next space / break code at brace level 0, spaces inside {..} belong to the word.
   words_keep_characters / words_are_the_nonspace_characters: the words, concatenated, are the text with its level-0 spaces removed -
   exactly, for texts without two adjacent backslashes (a backslash directly followed by a backslash at the start of a word is
   dropped by the model and by the Go code: boundary B7).  layout_keeps_tokens: the lines are a layout of exactly the token
   sequence (explicit breaks kept in place, \N resolved by the line discipline).  format_text_same_characters: the output with the
   inserted break codes and joining spaces removed has the character sequence of the input with its spaces removed. *)
From Pory Require Import FormatWords.
Theorem get_next_word_spec :
  forall l : list N,
  l = repeat 32%N (length l) /\ get_next_word l = (length l, []) \/
  (exists (a b : nat) (w rest : list N),
     l = repeat 32%N a ++ repeat 92%N b ++ w ++ rest /\
     get_next_word l = ((a + b + length w)%nat, w) /\ skipn (a + b + length w) l = rest /\ word_shape b w rest).
Proof. exact FormatWords.get_next_word_spec. Qed.
Print Assumptions get_next_word_spec.

Theorem words_from_total :
  forall txt : text, words_from txt (S (length txt)) (Datatypes.fst (get_next_word txt)) (snd (get_next_word txt)) = Some (words_of txt).
Proof. exact FormatWords.words_from_total. Qed.
Print Assumptions words_from_total.

Theorem words_of_good :
  forall txt : text, Forall good_word (words_of txt).
Proof. exact FormatWords.words_of_good. Qed.
Print Assumptions words_of_good.

Theorem words_keep_characters :
  forall txt : text, exists txt' : text, dropbs txt txt' /\ concat (words_of txt) = despace 0 txt'.
Proof. exact FormatWords.words_keep_characters. Qed.
Print Assumptions words_keep_characters.

Theorem words_are_the_nonspace_characters :
  forall txt : text, has_bsbs txt = false -> concat (words_of txt) = despace 0 txt.
Proof. exact FormatWords.words_are_the_nonspace_characters. Qed.
Print Assumptions words_are_the_nonspace_characters.

Theorem layout_keeps_tokens :
  forall (word : Type) (width : word -> Z) (space maxW cursor numLines : Z) (ts : list (tok word)),
  lines_src word numLines 0 (layout word width space maxW cursor numLines ts) ts.
Proof. exact FormatWords.layout_keeps_tokens. Qed.
Print Assumptions layout_keeps_tokens.

Theorem format_text_refines_total :
  forall (fc : fontcfg) (txt0 : list N) (maxW cursor : Z) (fontID : text) (numLines : Z),
  let txt := map (fun c : N => if (c =? 10)%N then 32%N else c) txt0 in
  let spaceW := rune_width fc 32 fontID in
  format_text fc txt0 maxW cursor fontID numLines = None \/
  format_text fc txt0 maxW cursor fontID numLines =
  Some (print_lines (layout text (fun w : text => word_width fc w fontID) spaceW maxW cursor numLines (map classify (words_of txt)))).
Proof. exact FormatWords.format_text_refines_total. Qed.
Print Assumptions format_text_refines_total.

Theorem format_text_lines_fit_total :
  forall (fc : fontcfg) (txt0 : list N) (maxW cursor : Z) (fontID : text) (numLines : Z) (out : text),
  let txt := map (fun c : N => if (c =? 10)%N then 32%N else c) txt0 in
  let spaceW := rune_width fc 32 fontID in
  let width := fun w : text => word_width fc w fontID in
  format_text fc txt0 maxW cursor fontID numLines = Some out ->
  exists ls : list (line text),
    out = print_lines ls /\
    Forall2 (fun (i : Z) (l : line text) => line_ok text width spaceW maxW cursor numLines i l /\ disc_ok text numLines i l) 
      (indices text 0 ls) ls.
Proof. exact FormatWords.format_text_lines_fit_total. Qed.
Print Assumptions format_text_lines_fit_total.

Theorem format_text_from_source :
  forall (fc : fontcfg) (txt0 : list N) (maxW cursor : Z) (fontID : text) (numLines : Z) (out : text),
  let txt := map (fun c : N => if (c =? 10)%N then 32%N else c) txt0 in
  let spaceW := rune_width fc 32 fontID in
  let width := fun w : text => word_width fc w fontID in
  format_text fc txt0 maxW cursor fontID numLines = Some out ->
  exists ls : list (line text),
    out = print_lines ls /\
    Forall2 (fun (i : Z) (l : line text) => line_ok text width spaceW maxW cursor numLines i l /\ disc_ok text numLines i l) 
      (indices text 0 ls) ls /\
    lines_src text numLines 0 ls (map classify (words_of txt)) /\
    (exists ws' : list text, Forall2 resolved (words_of txt) ws' /\ flat_map line_chars ls = concat ws') /\
    (exists txt' : text, dropbs txt txt' /\ concat (words_of txt) = despace 0 txt') /\
    (has_bsbs txt = false -> concat (words_of txt) = despace 0 txt).
Proof. exact FormatWords.format_text_from_source. Qed.
Print Assumptions format_text_from_source.

Theorem format_text_same_characters :
  forall (fc : fontcfg) (txt0 : list N) (maxW cursor : Z) (fontID : text) (numLines : Z) (out : text),
  let txt := map (fun c : N => if (c =? 10)%N then 32%N else c) txt0 in
  format_text fc txt0 maxW cursor fontID numLines = Some out ->
  has_bsbs txt = false ->
  Forall (fun w : text => w <> bs 78) (words_of txt) ->
  exists ls : list (line text), out = print_lines ls /\ flat_map line_chars ls = despace 0 txt.
Proof. exact FormatWords.format_text_same_characters. Qed.
Print Assumptions format_text_same_characters.


(* ---- which parameters format(...) passes on (FormatParams.v): 'given positionally, by name or through the font config'.
   format_call: grammar of the call over tokens ('format' '(' [type] STRING [, positional font / width] [, named parameters] ')').
   parse_format_call: a call of the grammar is consumed exactly and answered with format_text on the CHOSEN parameters;
   chosen_parameters_spec and the single lemmas: the font is the written one, else -f, else the config's default; the width the
   written one if positive, else (if none is written at all) -l, else the maxLineLength of THAT font; numLines written, else that
   font's, else 2; cursorOverlapWidth written, else that font's - every default comes from the font actually used
   (parse_format_reads_only_the_chosen_font). Unknown font: the error at the written font id, else at the text (D18); in lint
   mode the empty text. format_error_located: the 14 error exits with their tokens; parse_format_characterised,
   parse_format_ok_inv, parse_format_err_inv: nothing else is accepted or reported; format_call_lines_fit: the lines of an
   accepted call fit under the chosen font's widths and parameters. ---- *)
From Pory Require FormatParams. Open Scope list_scope.
Theorem parse_format_call :
  forall (fc : fontcfg) (cli_font : text) (cli_maxlen : Z) (ee : bool) (l : list token) (rp ttok : token) (sty : text)
    (w : FormatParams.written) (R : list token),
  FormatParams.format_call l rp ttok sty w ->
  parse_format fc cli_font cli_maxlen ee (l ++ R) = FormatParams.call_result fc cli_font cli_maxlen ee ttok sty w (rp :: R).
Proof. exact FormatParams.parse_format_call. Qed.
Print Assumptions parse_format_call.

Theorem chosen_parameters_spec :
  forall (fc : fontcfg) (cli_font : text) (cli_maxlen : Z) (w : FormatParams.written),
  (forall tk : token, FormatParams.wFont w = Some tk -> FormatParams.chosen_font fc cli_font w = tlit tk) /\
  (FormatParams.wFont w = None -> cli_font <> [] -> FormatParams.chosen_font fc cli_font w = cli_font) /\
  (FormatParams.wFont w = None -> cli_font = [] -> FormatParams.chosen_font fc cli_font w = fcDefault fc) /\
  FormatParams.chosen_entry fc cli_font w = font_of fc (FormatParams.chosen_font fc cli_font w) /\
  (forall v : Z, FormatParams.wMax w = Some v -> 0 < v -> FormatParams.chosen_max fc cli_font cli_maxlen w = v) /\
  (forall v : Z,
   FormatParams.wMax w = Some v ->
   v <= 0 -> FormatParams.chosen_max fc cli_font cli_maxlen w = fMaxLen (FormatParams.chosen_entry fc cli_font w)) /\
  (FormatParams.wMax w = None -> 0 < cli_maxlen -> FormatParams.chosen_max fc cli_font cli_maxlen w = cli_maxlen) /\
  (FormatParams.wMax w = None ->
   cli_maxlen <= 0 -> FormatParams.chosen_max fc cli_font cli_maxlen w = fMaxLen (FormatParams.chosen_entry fc cli_font w)) /\
  (forall v : Z, FormatParams.wLines w = Some v -> 0 < v -> FormatParams.chosen_lines fc cli_font w = v) /\
  (FormatParams.wLines w = None \/ (exists v : Z, FormatParams.wLines w = Some v /\ v <= 0) ->
   FormatParams.chosen_lines fc cli_font w =
   (if fNumLines (FormatParams.chosen_entry fc cli_font w) <=? 0 then 2 else fNumLines (FormatParams.chosen_entry fc cli_font w))) /\
  (forall v : Z, FormatParams.wCursor w = Some v -> 0 < v -> FormatParams.chosen_cursor fc cli_font w = v) /\
  (FormatParams.wCursor w = None \/ (exists v : Z, FormatParams.wCursor w = Some v /\ v <= 0) ->
   FormatParams.chosen_cursor fc cli_font w = fCursor (FormatParams.chosen_entry fc cli_font w)).
Proof. exact FormatParams.chosen_parameters_spec. Qed.
Print Assumptions chosen_parameters_spec.

Theorem chosen_font_written :
  forall (fc : fontcfg) (cli_font : text) (w : FormatParams.written) (tk : token),
  FormatParams.wFont w = Some tk -> FormatParams.chosen_font fc cli_font w = tlit tk.
Proof. exact FormatParams.chosen_font_written. Qed.
Print Assumptions chosen_font_written.

Theorem chosen_font_cli :
  forall (fc : fontcfg) (cli_font : text) (w : FormatParams.written),
  FormatParams.wFont w = None -> cli_font <> [] -> FormatParams.chosen_font fc cli_font w = cli_font.
Proof. exact FormatParams.chosen_font_cli. Qed.
Print Assumptions chosen_font_cli.

Theorem chosen_font_default :
  forall (fc : fontcfg) (cli_font : text) (w : FormatParams.written),
  FormatParams.wFont w = None -> cli_font = [] -> FormatParams.chosen_font fc cli_font w = fcDefault fc.
Proof. exact FormatParams.chosen_font_default. Qed.
Print Assumptions chosen_font_default.

Theorem chosen_max_written :
  forall (fc : fontcfg) (cli_font : text) (cli_maxlen : Z) (w : FormatParams.written) (v : Z),
  FormatParams.wMax w = Some v -> 0 < v -> FormatParams.chosen_max fc cli_font cli_maxlen w = v.
Proof. exact FormatParams.chosen_max_written. Qed.
Print Assumptions chosen_max_written.

Theorem chosen_max_written_nonpositive :
  forall (fc : fontcfg) (cli_font : text) (cli_maxlen : Z) (w : FormatParams.written) (v : Z),
  FormatParams.wMax w = Some v -> v <= 0 -> FormatParams.chosen_max fc cli_font cli_maxlen w = fMaxLen (FormatParams.chosen_entry fc cli_font w).
Proof. exact FormatParams.chosen_max_written_nonpositive. Qed.
Print Assumptions chosen_max_written_nonpositive.

Theorem chosen_max_cli :
  forall (fc : fontcfg) (cli_font : text) (cli_maxlen : Z) (w : FormatParams.written),
  FormatParams.wMax w = None -> 0 < cli_maxlen -> FormatParams.chosen_max fc cli_font cli_maxlen w = cli_maxlen.
Proof. exact FormatParams.chosen_max_cli. Qed.
Print Assumptions chosen_max_cli.

Theorem chosen_max_config :
  forall (fc : fontcfg) (cli_font : text) (cli_maxlen : Z) (w : FormatParams.written),
  FormatParams.wMax w = None ->
  cli_maxlen <= 0 -> FormatParams.chosen_max fc cli_font cli_maxlen w = fMaxLen (FormatParams.chosen_entry fc cli_font w).
Proof. exact FormatParams.chosen_max_config. Qed.
Print Assumptions chosen_max_config.

Theorem chosen_lines_written :
  forall (fc : fontcfg) (cli_font : text) (w : FormatParams.written) (v : Z),
  FormatParams.wLines w = Some v -> 0 < v -> FormatParams.chosen_lines fc cli_font w = v.
Proof. exact FormatParams.chosen_lines_written. Qed.
Print Assumptions chosen_lines_written.

Theorem chosen_lines_config :
  forall (fc : fontcfg) (cli_font : text) (w : FormatParams.written),
  FormatParams.wLines w = None \/ (exists v : Z, FormatParams.wLines w = Some v /\ v <= 0) ->
  0 < fNumLines (FormatParams.chosen_entry fc cli_font w) ->
  FormatParams.chosen_lines fc cli_font w = fNumLines (FormatParams.chosen_entry fc cli_font w).
Proof. exact FormatParams.chosen_lines_config. Qed.
Print Assumptions chosen_lines_config.

Theorem chosen_lines_two :
  forall (fc : fontcfg) (cli_font : text) (w : FormatParams.written),
  FormatParams.wLines w = None \/ (exists v : Z, FormatParams.wLines w = Some v /\ v <= 0) ->
  fNumLines (FormatParams.chosen_entry fc cli_font w) <= 0 -> FormatParams.chosen_lines fc cli_font w = 2.
Proof. exact FormatParams.chosen_lines_two. Qed.
Print Assumptions chosen_lines_two.

Theorem chosen_cursor_written :
  forall (fc : fontcfg) (cli_font : text) (w : FormatParams.written) (v : Z),
  FormatParams.wCursor w = Some v -> 0 < v -> FormatParams.chosen_cursor fc cli_font w = v.
Proof. exact FormatParams.chosen_cursor_written. Qed.
Print Assumptions chosen_cursor_written.

Theorem chosen_cursor_config :
  forall (fc : fontcfg) (cli_font : text) (w : FormatParams.written),
  FormatParams.wCursor w = None \/ (exists v : Z, FormatParams.wCursor w = Some v /\ v <= 0) ->
  FormatParams.chosen_cursor fc cli_font w = fCursor (FormatParams.chosen_entry fc cli_font w).
Proof. exact FormatParams.chosen_cursor_config. Qed.
Print Assumptions chosen_cursor_config.

Theorem parse_format_reads_only_the_chosen_font :
  forall (fc fc' : fontcfg) (cli_font : list N) (cli_maxlen : Z) (ee : bool) (l : list token) (rp ttok : token) (sty : text)
    (w : FormatParams.written) (R : list token),
  FormatParams.format_call l rp ttok sty w ->
  (FormatParams.wFont w = None -> cli_font = [] -> fcDefault fc' = fcDefault fc) ->
  assoc (fcFonts fc') (FormatParams.chosen_font fc cli_font w) = assoc (fcFonts fc) (FormatParams.chosen_font fc cli_font w) ->
  parse_format fc' cli_font cli_maxlen ee (l ++ R) = parse_format fc cli_font cli_maxlen ee (l ++ R).
Proof. exact FormatParams.parse_format_reads_only_the_chosen_font. Qed.
Print Assumptions parse_format_reads_only_the_chosen_font.

Theorem parse_format_usable_font :
  forall (fc : fontcfg) (cli_font : text) (cli_maxlen : Z) (ee : bool) (l : list token) (rp ttok : token) (sty : text)
    (w : FormatParams.written) (R : list token),
  FormatParams.format_call l rp ttok sty w ->
  FormatParams.usable_font fc (FormatParams.chosen_font fc cli_font w) ->
  exists out : text,
    format_text fc (tlit ttok) (FormatParams.chosen_max fc cli_font cli_maxlen w) (FormatParams.chosen_cursor fc cli_font w)
      (FormatParams.chosen_font fc cli_font w) (FormatParams.chosen_lines fc cli_font w) = Some out /\
    parse_format fc cli_font cli_maxlen ee (l ++ R) = Ok (ttok, out, sty, rp :: R).
Proof. exact FormatParams.parse_format_usable_font. Qed.
Print Assumptions parse_format_usable_font.

Theorem parse_format_unknown_font :
  forall (fc : fontcfg) (cli_font : text) (cli_maxlen : Z) (l : list token) (rp ttok : token) (sty : text) (w : FormatParams.written)
    (R : list token),
  FormatParams.format_call l rp ttok sty w ->
  FormatParams.unknown_font fc (FormatParams.chosen_font fc cli_font w) ->
  parse_format fc cli_font cli_maxlen true (l ++ R) =
  err_tok match FormatParams.wFont w with
          | Some tk => tk
          | None => ttok
          end
    (String.String (Ascii.Ascii true false true false true true true false)
       (String.String (Ascii.Ascii false true true true false true true false)
          (String.String (Ascii.Ascii true true false true false true true false)
             (String.String (Ascii.Ascii false true true true false true true false)
                (String.String (Ascii.Ascii true true true true false true true false)
                   (String.String (Ascii.Ascii true true true false true true true false)
                      (String.String (Ascii.Ascii false true true true false true true false)
                         (String.String (Ascii.Ascii false false false false false true false false)
                            (String.String (Ascii.Ascii false true true false false true true false)
                               (String.String (Ascii.Ascii true true true true false true true false)
                                  (String.String (Ascii.Ascii false true true true false true true false)
                                     (String.String (Ascii.Ascii false false true false true true true false)
                                        (String.String (Ascii.Ascii true false false true false false true false)
                                           (String.String (Ascii.Ascii false false true false false false true false) String.EmptyString)))))))))))))).
Proof. exact FormatParams.parse_format_unknown_font. Qed.
Print Assumptions parse_format_unknown_font.

Theorem parse_format_unknown_font_lint :
  forall (fc : fontcfg) (cli_font : text) (cli_maxlen : Z) (l : list token) (rp ttok : token) (sty : text) (w : FormatParams.written)
    (R : list token),
  FormatParams.format_call l rp ttok sty w ->
  FormatParams.unknown_font fc (FormatParams.chosen_font fc cli_font w) ->
  parse_format fc cli_font cli_maxlen false (l ++ R) = Ok (ttok, [], sty, rp :: R).
Proof. exact FormatParams.parse_format_unknown_font_lint. Qed.
Print Assumptions parse_format_unknown_font_lint.

Theorem format_error_located :
  forall (fc : fontcfg) (cli_font : text) (cli_maxlen : Z) (ee : bool) (l : list token) (e : perr) (R : list token),
  FormatParams.format_error l e -> parse_format fc cli_font cli_maxlen ee (l ++ R) = Err e.
Proof. exact FormatParams.format_error_located. Qed.
Print Assumptions format_error_located.

Theorem format_call_or_error :
  forall ts : toks,
  FormatParams.eof_ended ts ->
  ttype (Parser.cur ts) = FORMAT ->
  (exists (l R : list token) (rp ttok : token) (sty : text) (w : FormatParams.written), ts = l ++ R /\ FormatParams.format_call l rp ttok sty w) \/
  (exists (l R : list token) (e : perr), ts = l ++ R /\ FormatParams.format_error l e).
Proof. exact FormatParams.format_call_or_error. Qed.
Print Assumptions format_call_or_error.

Theorem parse_format_characterised :
  forall (fc : fontcfg) (cli_font : text) (cli_maxlen : Z) (ee : bool) (ts : toks),
  FormatParams.eof_ended ts ->
  ttype (Parser.cur ts) = FORMAT ->
  (exists (l R : list token) (rp ttok : token) (sty : text) (w : FormatParams.written),
     ts = l ++ R /\
     FormatParams.format_call l rp ttok sty w /\
     parse_format fc cli_font cli_maxlen ee ts = FormatParams.call_result fc cli_font cli_maxlen ee ttok sty w (rp :: R)) \/
  (exists (l R : list token) (e : perr), ts = l ++ R /\ FormatParams.format_error l e /\ parse_format fc cli_font cli_maxlen ee ts = Err e).
Proof. exact FormatParams.parse_format_characterised. Qed.
Print Assumptions parse_format_characterised.

Theorem parse_format_ok_inv :
  forall (fc : fontcfg) (cli_font : text) (cli_maxlen : Z) (ee : bool) (ts : toks) (ttok : token) (out sty : text) (ts' : toks),
  FormatParams.eof_ended ts ->
  ttype (Parser.cur ts) = FORMAT ->
  parse_format fc cli_font cli_maxlen ee ts = Ok (ttok, out, sty, ts') ->
  exists (l R : list token) (rp : token) (w : FormatParams.written),
    ts = l ++ R /\
    FormatParams.format_call l rp ttok sty w /\
    ts' = rp :: R /\
    (format_text fc (tlit ttok) (FormatParams.chosen_max fc cli_font cli_maxlen w) (FormatParams.chosen_cursor fc cli_font w)
       (FormatParams.chosen_font fc cli_font w) (FormatParams.chosen_lines fc cli_font w) = Some out \/
     ee = false /\ FormatParams.unknown_font fc (FormatParams.chosen_font fc cli_font w) /\ out = []).
Proof. exact FormatParams.parse_format_ok_inv. Qed.
Print Assumptions parse_format_ok_inv.

Theorem parse_format_err_inv :
  forall (fc : fontcfg) (cli_font : text) (cli_maxlen : Z) (ee : bool) (ts : toks) (e : perr),
  FormatParams.eof_ended ts ->
  ttype (Parser.cur ts) = FORMAT ->
  parse_format fc cli_font cli_maxlen ee ts = Err e ->
  (exists l R : list token, ts = l ++ R /\ FormatParams.format_error l e) \/
  ee = true /\
  (exists (l R : list token) (rp ttok : token) (sty : text) (w : FormatParams.written),
     ts = l ++ R /\
     FormatParams.format_call l rp ttok sty w /\
     FormatParams.unknown_font fc (FormatParams.chosen_font fc cli_font w) /\
     e =
     FormatParams.perr_tok match FormatParams.wFont w with
                           | Some tk => tk
                           | None => ttok
                           end
       (String.String (Ascii.Ascii true false true false true true true false)
          (String.String (Ascii.Ascii false true true true false true true false)
             (String.String (Ascii.Ascii true true false true false true true false)
                (String.String (Ascii.Ascii false true true true false true true false)
                   (String.String (Ascii.Ascii true true true true false true true false)
                      (String.String (Ascii.Ascii true true true false true true true false)
                         (String.String (Ascii.Ascii false true true true false true true false)
                            (String.String (Ascii.Ascii false false false false false true false false)
                               (String.String (Ascii.Ascii false true true false false true true false)
                                  (String.String (Ascii.Ascii true true true true false true true false)
                                     (String.String (Ascii.Ascii false true true true false true true false)
                                        (String.String (Ascii.Ascii false false true false true true true false)
                                           (String.String (Ascii.Ascii true false false true false false true false)
                                              (String.String (Ascii.Ascii false false true false false false true false) String.EmptyString))))))))))))))).
Proof. exact FormatParams.parse_format_err_inv. Qed.
Print Assumptions parse_format_err_inv.

Theorem parse_format_no_panic_no_fuel :
  forall (fc : fontcfg) (cli_font : text) (cli_maxlen : Z) (ee : bool) (ts : toks),
  FormatParams.eof_ended ts ->
  ttype (Parser.cur ts) = FORMAT -> parse_format fc cli_font cli_maxlen ee ts <> Panic /\ parse_format fc cli_font cli_maxlen ee ts <> Fuel.
Proof. exact FormatParams.parse_format_no_panic_no_fuel. Qed.
Print Assumptions parse_format_no_panic_no_fuel.

Theorem format_call_lines_fit :
  forall (fc : fontcfg) (cli_font : text) (cli_maxlen : Z) (ee : bool) (l : list token) (rp ttok : token) (sty : text)
    (w : FormatParams.written) (R : list token),
  FormatParams.format_call l rp ttok sty w ->
  FormatParams.usable_font fc (FormatParams.chosen_font fc cli_font w) ->
  let id := FormatParams.chosen_font fc cli_font w in
  let maxW := FormatParams.chosen_max fc cli_font cli_maxlen w in
  let cursor := FormatParams.chosen_cursor fc cli_font w in
  let numLines := FormatParams.chosen_lines fc cli_font w in
  let txt := map (fun c : N => if (c =? 10)%N then 32%N else c) (tlit ttok) in
  let spaceW := rune_width fc 32 id in
  let width := fun x : text => word_width fc x id in
  exists (out : text) (ls : list (line text)),
    parse_format fc cli_font cli_maxlen ee (l ++ R) = Ok (ttok, out, sty, rp :: R) /\
    out = print_lines ls /\
    Forall2 (fun (i : Z) (ln : line text) => line_ok text width spaceW maxW cursor numLines i ln /\ disc_ok text numLines i ln)
      (indices text 0 ls) ls /\ lines_src text numLines 0 ls (map classify (words_of txt)).
Proof. exact FormatParams.format_call_lines_fit. Qed.
Print Assumptions format_call_lines_fit.

