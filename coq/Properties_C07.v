(* C07 - format() only turns spaces into line breaks, and every line fits the box. *)
From Coq Require Import List ZArith.
From Pory Require Import FmtLayout.

(* for an arbitrary word type, any integer width function (any font table), space width, maxW, cursor,
   numLines and token list: every produced line with at least two words fits (incl. the cursor reserve on the
   lines where the prompt is shown) and every compiler-inserted break follows the text-box discipline *)
Theorem layout_fits_and_discipline :
  forall (word : Type) (width : word -> Z) (space maxW cursor numLines : Z) (ts : list (tok word)),
    Forall2 (fun i l => line_ok word width space maxW cursor numLines i l /\ disc_ok word numLines i l)
            (indices word 0 (layout word width space maxW cursor numLines ts)) (layout word width space maxW cursor numLines ts).
Proof. exact FmtLayout.layout_fits_and_discipline. Qed.
Print Assumptions layout_fits_and_discipline.
