(* C07 - format() only turns spaces into line breaks, and every line fits the box. *)
From Coq Require Import List ZArith NArith.
Import ListNotations.
From Pory Require Import Lexer Ast Parser Format FmtLayout FmtRefine.

(* for an arbitrary word type, any integer width function (any font table), space width, maxW, cursor,
   numLines and token list: every produced line with at least two words fits (incl. the cursor reserve on the
   lines where the prompt is shown) and every compiler-inserted break follows the text-box discipline *)
Theorem layout_fits_and_discipline :
  forall (word : Type) (width : word -> Z) (space maxW cursor numLines : Z) (ts : list (tok word)),
    Forall2 (fun i l => line_ok word width space maxW cursor numLines i l /\ disc_ok word numLines i l)
            (indices word 0 (layout word width space maxW cursor numLines ts)) (layout word width space maxW cursor numLines ts).
Proof. exact FmtLayout.layout_fits_and_discipline. Qed.
Print Assumptions layout_fits_and_discipline.

(* the executable format_text of the model (compared with FontConfig.FormatText on every run) IS that abstract line
   filler applied to the words get_next_word yields, printed with single spaces and break codes ... *)
Theorem format_text_refines :
  forall fc txt0 maxW cursor fontID numLines ws,
    let txt := map (fun c => if (c =? 10)%N then 32%N else c) txt0 in
    let spaceW := rune_width fc 32%N fontID in
    words_from txt (S (List.length txt)) (Datatypes.fst (get_next_word txt)) (Datatypes.snd (get_next_word txt)) = Some ws ->
    format_text fc txt0 maxW cursor fontID numLines = None \/
    format_text fc txt0 maxW cursor fontID numLines =
      Some (print_lines (layout text (fun w => word_width fc w fontID) spaceW maxW cursor numLines (map classify ws))).
Proof. exact FmtRefine.format_text_refines. Qed.
Print Assumptions format_text_refines.

(* ... hence every line the model produces fits and follows the discipline, for every font table and parameter set *)
Theorem format_text_lines_fit :
  forall fc txt0 maxW cursor fontID numLines ws out,
    let txt := map (fun c => if (c =? 10)%N then 32%N else c) txt0 in
    let spaceW := rune_width fc 32%N fontID in
    let width := fun w => word_width fc w fontID in
    words_from txt (S (List.length txt)) (Datatypes.fst (get_next_word txt)) (Datatypes.snd (get_next_word txt)) = Some ws ->
    format_text fc txt0 maxW cursor fontID numLines = Some out ->
    exists ls, out = print_lines ls /\
      Forall2 (fun i l => line_ok text width spaceW maxW cursor numLines i l /\ disc_ok text numLines i l) (indices text 0 ls) ls.
Proof. exact FmtRefine.format_text_lines_fit. Qed.
Print Assumptions format_text_lines_fit.

(* nothing is lost, duplicated or reordered: the words of the lines, in order, are the words of the input *)
Theorem layout_keeps_words :
  forall (word : Type) (width : word -> Z) (space maxW cursor numLines : Z) (ts : list (tok word)),
    flat_map (lwords word) (layout word width space maxW cursor numLines ts) = words_of_toks word ts.
Proof. exact FmtRefine.layout_keeps_words. Qed.
Print Assumptions layout_keeps_words.
