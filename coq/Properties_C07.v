(* C07 - format() only turns spaces into line breaks, and every line fits the box. *)
From Coq Require Import List ZArith NArith.
Import ListNotations.
From Pory Require Import Lexer Ast Parser Format FmtLayout FmtRefine.

(* for an arbitrary word type, any integer width function (any font table), space width, maxW, cursor,
   numLines and token list: every produced line with at least two words fits (incl. the cursor reserve on the
   lines where the prompt is shown) and every compiler-inserted break follows the text-box discipline *)
Theorem layout_fits_and_discipline :
  forall (word : Type) (width : word -> Z) (space maxW cursor numLines : Z) (ts : list (tok word)),
    Forall2 (fun i l => line_ok word width space maxW cursor numLines i l /\ disc_ok word numLines i l)
            (indices word 0 (layout word width space maxW cursor numLines ts)) (layout word width space maxW cursor numLines ts).
Proof. exact FmtLayout.layout_fits_and_discipline. Qed.
Print Assumptions layout_fits_and_discipline.

(* the executable format_text of the model (compared with FontConfig.FormatText on every run) IS that abstract line
   filler applied to the words get_next_word yields, printed with single spaces and break codes ... *)
Theorem format_text_refines :
  forall fc txt0 maxW cursor fontID numLines ws,
    let txt := map (fun c => if (c =? 10)%N then 32%N else c) txt0 in
    let spaceW := rune_width fc 32%N fontID in
    words_from txt (S (List.length txt)) (Datatypes.fst (get_next_word txt)) (Datatypes.snd (get_next_word txt)) = Some ws ->
    format_text fc txt0 maxW cursor fontID numLines = None \/
    format_text fc txt0 maxW cursor fontID numLines =
      Some (print_lines (layout text (fun w => word_width fc w fontID) spaceW maxW cursor numLines (map classify ws))).
Proof. exact FmtRefine.format_text_refines. Qed.
Print Assumptions format_text_refines.

(* ... hence every line the model produces fits and follows the discipline, for every font table and parameter set *)
Theorem format_text_lines_fit :
  forall fc txt0 maxW cursor fontID numLines ws out,
    let txt := map (fun c => if (c =? 10)%N then 32%N else c) txt0 in
    let spaceW := rune_width fc 32%N fontID in
    let width := fun w => word_width fc w fontID in
    words_from txt (S (List.length txt)) (Datatypes.fst (get_next_word txt)) (Datatypes.snd (get_next_word txt)) = Some ws ->
    format_text fc txt0 maxW cursor fontID numLines = Some out ->
    exists ls, out = print_lines ls /\
      Forall2 (fun i l => line_ok text width spaceW maxW cursor numLines i l /\ disc_ok text numLines i l) (indices text 0 ls) ls.
Proof. exact FmtRefine.format_text_lines_fit. Qed.
Print Assumptions format_text_lines_fit.

(* nothing is lost, duplicated or reordered: the words of the lines, in order, are the words of the input *)
Theorem layout_keeps_words :
  forall (word : Type) (width : word -> Z) (space maxW cursor numLines : Z) (ts : list (tok word)),
    flat_map (lwords word) (layout word width space maxW cursor numLines ts) = words_of_toks word ts.
Proof. exact FmtRefine.layout_keeps_words. Qed.
Print Assumptions layout_keeps_words.

(* ---------- from the characters of the text to the output (FormatWords.v) ---------- *)
(* words_from_total: the word splitter always succeeds with its fuel, so the hypothesis `words_from .. = Some ws` of the theorems
   above disappears (format_text_refines_total, format_text_lines_fit_total).  get_next_word_spec: what one call of getNextWord
   does - leading spaces skipped, the word runs to the next space / break code at brace level 0, spaces inside {..} belong to the word.
   words_keep_characters / words_are_the_nonspace_characters: the words, concatenated, are the text with its level-0 spaces removed -
   exactly, for texts without two adjacent backslashes (a backslash directly followed by a backslash at the start of a word is
   dropped by the model and by the Go code: boundary B7).  layout_keeps_tokens: the lines are a layout of exactly the token
   sequence (explicit breaks kept in place, \N resolved by the line discipline).  format_text_same_characters: the output with the
   inserted break codes and joining spaces removed has the character sequence of the input with its spaces removed. *)
From Pory Require Import FormatWords.
Theorem get_next_word_spec :
  forall l : list N,
  l = repeat 32%N (length l) /\ get_next_word l = (length l, []) \/
  (exists (a b : nat) (w rest : list N),
     l = repeat 32%N a ++ repeat 92%N b ++ w ++ rest /\
     get_next_word l = ((a + b + length w)%nat, w) /\ skipn (a + b + length w) l = rest /\ word_shape b w rest).
Proof. exact FormatWords.get_next_word_spec. Qed.
Print Assumptions get_next_word_spec.

Theorem words_from_total :
  forall txt : text, words_from txt (S (length txt)) (Datatypes.fst (get_next_word txt)) (snd (get_next_word txt)) = Some (words_of txt).
Proof. exact FormatWords.words_from_total. Qed.
Print Assumptions words_from_total.

Theorem words_of_good :
  forall txt : text, Forall good_word (words_of txt).
Proof. exact FormatWords.words_of_good. Qed.
Print Assumptions words_of_good.

Theorem words_keep_characters :
  forall txt : text, exists txt' : text, dropbs txt txt' /\ concat (words_of txt) = despace 0 txt'.
Proof. exact FormatWords.words_keep_characters. Qed.
Print Assumptions words_keep_characters.

Theorem words_are_the_nonspace_characters :
  forall txt : text, has_bsbs txt = false -> concat (words_of txt) = despace 0 txt.
Proof. exact FormatWords.words_are_the_nonspace_characters. Qed.
Print Assumptions words_are_the_nonspace_characters.

Theorem layout_keeps_tokens :
  forall (word : Type) (width : word -> Z) (space maxW cursor numLines : Z) (ts : list (tok word)),
  lines_src word numLines 0 (layout word width space maxW cursor numLines ts) ts.
Proof. exact FormatWords.layout_keeps_tokens. Qed.
Print Assumptions layout_keeps_tokens.

Theorem format_text_refines_total :
  forall (fc : fontcfg) (txt0 : list N) (maxW cursor : Z) (fontID : text) (numLines : Z),
  let txt := map (fun c : N => if (c =? 10)%N then 32%N else c) txt0 in
  let spaceW := rune_width fc 32 fontID in
  format_text fc txt0 maxW cursor fontID numLines = None \/
  format_text fc txt0 maxW cursor fontID numLines =
  Some (print_lines (layout text (fun w : text => word_width fc w fontID) spaceW maxW cursor numLines (map classify (words_of txt)))).
Proof. exact FormatWords.format_text_refines_total. Qed.
Print Assumptions format_text_refines_total.

Theorem format_text_lines_fit_total :
  forall (fc : fontcfg) (txt0 : list N) (maxW cursor : Z) (fontID : text) (numLines : Z) (out : text),
  let txt := map (fun c : N => if (c =? 10)%N then 32%N else c) txt0 in
  let spaceW := rune_width fc 32 fontID in
  let width := fun w : text => word_width fc w fontID in
  format_text fc txt0 maxW cursor fontID numLines = Some out ->
  exists ls : list (line text),
    out = print_lines ls /\
    Forall2 (fun (i : Z) (l : line text) => line_ok text width spaceW maxW cursor numLines i l /\ disc_ok text numLines i l) 
      (indices text 0 ls) ls.
Proof. exact FormatWords.format_text_lines_fit_total. Qed.
Print Assumptions format_text_lines_fit_total.

Theorem format_text_from_source :
  forall (fc : fontcfg) (txt0 : list N) (maxW cursor : Z) (fontID : text) (numLines : Z) (out : text),
  let txt := map (fun c : N => if (c =? 10)%N then 32%N else c) txt0 in
  let spaceW := rune_width fc 32 fontID in
  let width := fun w : text => word_width fc w fontID in
  format_text fc txt0 maxW cursor fontID numLines = Some out ->
  exists ls : list (line text),
    out = print_lines ls /\
    Forall2 (fun (i : Z) (l : line text) => line_ok text width spaceW maxW cursor numLines i l /\ disc_ok text numLines i l) 
      (indices text 0 ls) ls /\
    lines_src text numLines 0 ls (map classify (words_of txt)) /\
    (exists ws' : list text, Forall2 resolved (words_of txt) ws' /\ flat_map line_chars ls = concat ws') /\
    (exists txt' : text, dropbs txt txt' /\ concat (words_of txt) = despace 0 txt') /\
    (has_bsbs txt = false -> concat (words_of txt) = despace 0 txt).
Proof. exact FormatWords.format_text_from_source. Qed.
Print Assumptions format_text_from_source.

Theorem format_text_same_characters :
  forall (fc : fontcfg) (txt0 : list N) (maxW cursor : Z) (fontID : text) (numLines : Z) (out : text),
  let txt := map (fun c : N => if (c =? 10)%N then 32%N else c) txt0 in
  format_text fc txt0 maxW cursor fontID numLines = Some out ->
  has_bsbs txt = false ->
  Forall (fun w : text => w <> bs 78) (words_of txt) ->
  exists ls : list (line text), out = print_lines ls /\ flat_map line_chars ls = despace 0 txt.
Proof. exact FormatWords.format_text_same_characters. Qed.
Print Assumptions format_text_same_characters.

