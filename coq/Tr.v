(* Prototype: translation relations on a finished chunk graph and the source -> graph simulation. *)
From Coq Require Import List String Ascii ZArith NArith Lia Bool.
From Pory Require Import Lexer Ast Emitter Sem2.
Import ListNotations.
Open Scope list_scope.

Section TR.
Variable St : Type.
Variable exec : cmd -> St -> stepres St.
Variable flag_set : text -> St -> bool.
Variable trainer_beaten : text -> St -> bool.
Variable cmp_var : text -> text -> St -> comparison.
Variable cmp_var_value : text -> text -> St -> comparison.
Variable case_matches : text -> text -> St -> bool.

Variable G : list chunk.
Variable brkT orgT : tagmap.
Hypothesis G_ids : forall i c, get_chunk G i = Some c -> (0 <= i)%Z.

Notation eval_bexp := (eval_bexp St exec flag_set trainer_beaten cmp_var cmp_var_value).
Notation eval_leaf := (eval_leaf St exec flag_set trainer_beaten cmp_var cmp_var_value).
Notation eval_conds := (eval_conds St exec flag_set trainer_beaten cmp_var cmp_var_value).
Notation gstep := (gstep St exec flag_set trainer_beaten cmp_var cmp_var_value case_matches G).
Notation gsteps := (steps gfinal gstep).
Notation ggoto := (ggoto G).
Notation ggoto_ret := (ggoto_ret G).

(* ---------- conditions ---------- *)
Inductive tr_cond : bexp -> Z -> Z -> Z -> Prop :=
| tc_leaf l e succ fail c :
    get_chunk G e = Some c -> cstmts c = [] -> cbr c = Some (BrLeaf l succ fail) ->
    tr_cond (BLeaf l) e succ fail
| tc_and a b ea eb sc succ fail c :
    tr_cond a ea sc fail -> tr_cond b eb succ fail ->
    get_chunk G sc = Some c -> cstmts c = [] -> cbr c = Some (BrJump eb) ->
    tr_cond (BBin BAnd a b) ea succ fail
| tc_or a b ea eb fc succ fail c :
    tr_cond a ea succ fc -> tr_cond b eb succ fail ->
    get_chunk G fc = Some c -> cstmts c = [] -> cbr c = Some (BrJump eb) ->
    tr_cond (BBin BOr a b) ea succ fail.

Lemma ggoto_ret_chunk d c : get_chunk G d = Some c -> ggoto_ret d = ggoto d.
Proof.
  intros H. unfold Sem2.ggoto_ret. destruct (Z.eqb_spec d (-1)); auto.
  subst. apply G_ids in H. lia.
Qed.

Lemma tr_cond_entry e en su fa : tr_cond e en su fa -> exists c, get_chunk G en = Some c /\ cstmts c = [].
Proof. induction 1; eauto. Qed.

Definition cond_target (su fa : Z) (r : option bool) : gstate :=
  match r with
  | Some true => ggoto su
  | Some false => ggoto_ret fa
  | None => GFinal OStopped
  end.

Lemma jump_step c d s : cstmts c = [] -> cbr c = Some (BrJump d) -> gsteps 1 (GAt c (cstmts c)) s [] (ggoto d) s.
Proof. intros H1 H2. rewrite H1. apply steps_one; [reflexivity|]. cbn. rewrite H2. reflexivity. Qed.

Lemma cond_sim e en su fa :
  tr_cond e en su fa ->
  forall s ev s' r, eval_bexp e s = (ev, s', r) ->
  exists j, 1 <= j /\ gsteps j (ggoto en) s ev (cond_target su fa r) s'.
Proof.
  induction 1; intros s ev s' r Hev.
  - cbn in Hev. exists 1. split; [lia|].
    unfold Sem2.ggoto. rewrite H, H0. apply steps_one; [reflexivity|].
    cbn. rewrite H1, Hev. destruct r as [[]|]; reflexivity.
  - cbn in Hev. destruct (eval_bexp a s) as [[eva s1] ra] eqn:Ea.
    destruct (IHtr_cond1 _ _ _ _ Ea) as (j1 & Hj1 & S1).
    destruct ra as [va|].
    + destruct va; cbn in Hev.
      * destruct (eval_bexp b s1) as [[evb s2] rb] eqn:Eb.
        inversion Hev; subst; clear Hev.
        destruct (IHtr_cond2 _ _ _ _ Eb) as (j2 & Hj2 & S2).
        exists (j1 + (1 + j2)). split; [lia|].
        eapply steps_trans; [exact S1|]. cbn [cond_target].
        replace evb with ([] ++ evb) by reflexivity.
        eapply steps_trans; [|exact S2].
        unfold Sem2.ggoto at 1. rewrite H1. apply jump_step; auto.
      * inversion Hev; subst; clear Hev. exists j1. split; auto.
    + inversion Hev; subst. exists j1. split; auto.
  - cbn in Hev. destruct (eval_bexp a s) as [[eva s1] ra] eqn:Ea.
    destruct (IHtr_cond1 _ _ _ _ Ea) as (j1 & Hj1 & S1).
    destruct ra as [va|].
    + destruct va; cbn in Hev.
      * inversion Hev; subst; clear Hev. exists j1. split; auto.
      * destruct (eval_bexp b s1) as [[evb s2] rb] eqn:Eb.
        inversion Hev; subst; clear Hev.
        destruct (IHtr_cond2 _ _ _ _ Eb) as (j2 & Hj2 & S2).
        exists (j1 + (1 + j2)). split; [lia|].
        eapply steps_trans; [exact S1|]. cbn [cond_target].
        rewrite (ggoto_ret_chunk _ _ H1).
        replace evb with ([] ++ evb) by reflexivity.
        eapply steps_trans; [|exact S2].
        unfold Sem2.ggoto at 1. rewrite H1. apply jump_step; auto.
    + inversion Hev; subst. exists j1. split; auto.
Qed.

(* ---------- statements ---------- *)
Definition simple (s : stmt) : Prop := is_simple s = true.

Inductive tr_stmts : list stmt -> chunk -> list stmt -> Z -> Prop :=
| ts_plain ss c ret :
    Forall simple ss -> cbr c = None -> cret c = ret -> cend c = false ->
    tr_stmts ss c ss ret
| ts_endret pre e b c ret :
    Forall simple pre -> is_endret (SCmd e) = Some b -> cbr c = None -> cret c = (-1)%Z -> cend c = b ->
    tr_stmts (pre ++ [SCmd e]) c pre ret
| ts_ctrl pre s rest c br r ret :
    Forall simple pre -> is_simple s = false -> cbr c = Some br ->
    tr_ctrl s br r -> tr_rest rest r ret ->
    tr_stmts (pre ++ s :: rest) c pre ret
with tr_rest : list stmt -> Z -> Z -> Prop :=
| tr_rest_nil ret : tr_rest [] ret ret
| tr_rest_cons s rest p ret : tr_block (s :: rest) p ret -> tr_rest (s :: rest) p ret
with tr_block : list stmt -> Z -> Z -> Prop :=
| tr_block_intro ss p c ret : get_chunk G p = Some c -> tr_stmts ss c (cstmts c) ret -> tr_block ss p ret
with tr_ctrl : stmt -> brancher -> Z -> Prop :=
| tcl_if e b more els en cb f r :
    tr_cond e en cb f -> tr_block b cb r -> tr_chain more els f r ->
    tr_ctrl (SIf ((e, b) :: more) els) (BrJump en) r
| tcl_while tg c b h r : tr_while tg c b h r -> tr_ctrl (SWhile tg c b) (BrJump h) r
| tcl_dowhile tg b c h bb r : tr_dowhile tg b c h bb r -> tr_ctrl (SDoWhile tg b c) (BrJump bb) r
| tcl_break tg d r : tm_get brkT tg = Some d -> tr_ctrl (SBreak tg) (BrBreak d) r
| tcl_continue tg d r : tm_get orgT tg = Some d -> tr_ctrl (SContinue tg) (BrBreak d) r
| tcl_switch tg op ol cases sid c r :
    get_chunk G sid = Some c -> cstmts c = [] -> tm_get brkT tg = Some r ->
    sw_impl op cases c r ->
    tr_ctrl (SSwitch tg op ol cases) (BrJump sid) r
with sw_impl : text -> list scase -> chunk -> Z -> Prop :=
| swi_elided op cases c r :
    cbr c = None -> cret c = r -> cend c = false ->
    (forall m, select_case cases m = []) -> sw_impl op cases c r
| swi_switch op ol cases c bc def dest r :
    cbr c = Some (BrSwitch op ol bc def dest) ->
    (forall m, sw_target_ok (select_case cases m) (first_case bc m) def dest r) ->
    sw_impl op cases c r
with sw_target_ok : list stmt -> option Z -> option Z -> Z -> Z -> Prop :=
| sto_case b d def dest r : tr_block b d r -> sw_target_ok b (Some d) def dest r
| sto_def b dd dest r : tr_block b dd r -> sw_target_ok b None (Some dd) dest r
| sto_none dest r : dest = r -> sw_target_ok [] None None dest r
with tr_chain : list (bexp * list stmt) -> option (list stmt) -> Z -> Z -> Prop :=
| chain_none r : tr_chain [] None r r
| chain_else b p r : tr_block b p r -> tr_chain [] (Some b) p r
| chain_cons e b more els en cb f r :
    tr_cond e en cb f -> tr_block b cb r -> tr_chain more els f r ->
    tr_chain ((e, b) :: more) els en r
with tr_while : nat -> option bexp -> list stmt -> Z -> Z -> Prop :=
| tr_while_intro tg c b h ch en bb r :
    get_chunk G h = Some ch -> cstmts ch = [] -> cbr ch = Some (BrJump en) ->
    match c with Some e => tr_cond e en bb r | None => en = bb end ->
    tr_block b bb h ->
    tm_get brkT tg = Some r -> tm_get orgT tg = Some h ->
    tr_while tg c b h r
with tr_dowhile : nat -> list stmt -> bexp -> Z -> Z -> Z -> Prop :=
| tr_dowhile_intro tg b e h ch en bb r :
    get_chunk G h = Some ch -> cstmts ch = [] -> cbr ch = Some (BrJump en) ->
    tr_cond e en bb r ->
    tr_block b bb h ->
    tm_get brkT tg = Some r -> tm_get orgT tg = Some bb ->
    tr_dowhile tg b e h bb r.

(* ---------- continuations ---------- *)
Inductive match_cont : cont -> Z -> Prop :=
| mc_stop : match_cont Kstop (-1)
| mc_seq_nil k ret : match_cont k ret -> match_cont (Kseq [] k) ret
| mc_seq s r k p ret : tr_block (s :: r) p ret -> match_cont k ret -> match_cont (Kseq (s :: r) k) p
| mc_switch tg k ret : tm_get brkT tg = Some ret -> match_cont k ret -> match_cont (Kswitch tg k) ret
| mc_while tg c b k h r : tr_while tg c b h r -> match_cont k r -> match_cont (Kwhile tg c b k) h
| mc_dowhile tg b c k h bb r : tr_dowhile tg b c h bb r -> match_cont k r -> match_cont (Kdowhile tg b c k) h.

Inductive match_states : sstate -> gstate -> Prop :=
| ms_run s rest k c rem ret :
    tr_stmts (s :: rest) c rem ret -> match_cont k ret ->
    match_states (SRun s rest k) (GAt c rem)
| ms_loopw tg c b k h ch r :
    tr_while tg c b h r -> get_chunk G h = Some ch -> match_cont k r ->
    match_states (SLoopW tg c b k) (GAt ch [])
| ms_loopd tg b c k h ch bb r :
    tr_dowhile tg b c h bb r -> get_chunk G h = Some ch -> match_cont k r ->
    match_states (SLoopD tg b c k) (GAt ch [])
| ms_final o : match_states (SFinal o) (GFinal o).

Lemma ggoto_chunk d c : get_chunk G d = Some c -> ggoto d = GAt c (cstmts c).
Proof. intros H. unfold Sem2.ggoto. now rewrite H. Qed.

(* resuming a continuation = arriving at its return chunk *)
Lemma resume_sim k d : match_cont k d -> match_states (resume k) (ggoto_ret d).
Proof.
  induction 1; cbn [resume].
  - cbn. constructor.
  - assumption.
  - inversion H; subst. rewrite (ggoto_ret_chunk _ _ H1), (ggoto_chunk _ _ H1).
    econstructor; eauto.
  - assumption.
  - inversion H; subst. rewrite (ggoto_ret_chunk _ _ H1), (ggoto_chunk _ _ H1), H2.
    econstructor; eauto.
  - inversion H; subst. rewrite (ggoto_ret_chunk _ _ H1), (ggoto_chunk _ _ H1), H2.
    econstructor; eauto.
Qed.

Lemma match_cont_kseq rest k r ret : tr_rest rest r ret -> match_cont k ret -> match_cont (kseq rest k) r.
Proof.
  intros H M. inversion H; subst; cbn; auto. econstructor; eauto.
Qed.

(* entering a block whose chunk we are at *)
Lemma enter_sim ss c rem ret k s :
  tr_stmts ss c rem ret -> match_cont k ret ->
  exists j B, gsteps j (GAt c rem) s [] B s /\ match_states (enter ss k) B.
Proof.
  intros T M. destruct ss as [|x ss].
  - inversion T; subst;
      try (match goal with H : ?p ++ _ = [] |- _ => destruct p; discriminate end).
    exists 1, (ggoto_ret (cret c)). split.
    + apply steps_one; [reflexivity|]. cbn.
      repeat match goal with H : cbr c = _ |- _ => rewrite H | H : cend c = _ |- _ => rewrite H end.
      unfold Sem2.ggoto_ret. destruct (Z.eqb (cret c) (-1)); reflexivity.
    + cbn. now apply resume_sim.
  - exists 0, (GAt c rem). split; [constructor|]. cbn. econstructor; eauto.
Qed.

Lemma block_sim ss p ret k s :
  tr_block ss p ret -> match_cont k ret ->
  exists j B, gsteps j (ggoto p) s [] B s /\ match_states (enter ss k) B.
Proof.
  intros T M. inversion T; subst. rewrite (ggoto_chunk _ _ H). eapply enter_sim; eauto.
Qed.

Lemma rest_sim rest r ret k : tr_rest rest r ret -> match_cont k ret -> match_states (enter rest k) (ggoto_ret r).
Proof.
  intros T M. inversion T; subst; cbn.
  - now apply resume_sim.
  - inversion H; subst. rewrite (ggoto_ret_chunk _ _ H0), (ggoto_chunk _ _ H0). econstructor; eauto.
Qed.

(* advancing over a simple head statement *)
Lemma tr_stmts_simple_head x ss c rem ret :
  tr_stmts (x :: ss) c rem ret -> simple x ->
  (exists rem', rem = x :: rem' /\ tr_stmts ss c rem' ret) \/
  (ss = [] /\ rem = [] /\ exists e b, x = SCmd e /\ is_endret (SCmd e) = Some b /\ cbr c = None /\ cret c = (-1)%Z /\ cend c = b).
Proof.
  intros T Hx. inversion T as [ss0 c0 ret0 HF Hb Hr He | pre e b c0 ret0 HF Hend Hb Hr He Heq | pre s0 rest c0 br r ret0 HF Hs Hb Hc Hrest Heq]; subst.
  - left. exists ss. split; auto. inversion HF; subst. apply ts_plain; auto.
  - destruct rem as [|y pre]; cbn in Heq; inversion Heq; subst.
    + right. repeat split; eauto 10.
    + left. exists pre. split; auto. inversion HF; subst. eapply ts_endret; eauto.
  - destruct rem as [|y pre]; cbn in Heq; inversion Heq; subst.
    + unfold simple in Hx. congruence.
    + left. exists pre. split; auto. inversion HF; subst. eapply ts_ctrl; eauto.
Qed.

Lemma tr_stmts_ctrl_head x ss c rem ret :
  tr_stmts (x :: ss) c rem ret -> is_simple x = false ->
  rem = [] /\ exists br r, cbr c = Some br /\ tr_ctrl x br r /\ tr_rest ss r ret.
Proof.
  intros T Hx. inversion T as [ss0 c0 ret0 HF Hb Hr He | pre e b c0 ret0 HF Hend Hb Hr He Heq | pre s0 rest c0 br r ret0 HF Hs Hb Hc Hrest Heq]; subst.
  - inversion HF; subst. unfold simple in *. congruence.
  - destruct rem as [|y pre]; cbn in Heq; inversion Heq; subst.
    + cbn in Hx. discriminate.
    + inversion HF; subst. unfold simple in *. congruence.
  - destruct rem as [|y pre]; cbn in Heq; inversion Heq; subst.
    + split; eauto.
    + inversion HF; subst. unfold simple in *. congruence.
Qed.


(* ---------- lexical scoping invariant ---------- *)
Inductive scoped : option nat -> option nat -> list stmt -> Prop :=
| sc_nil bt lt : scoped bt lt []
| sc_cons bt lt s r : scoped1 bt lt s -> scoped bt lt r -> scoped bt lt (s :: r)
with scoped1 : option nat -> option nat -> stmt -> Prop :=
| sc_cmd bt lt c : scoped1 bt lt (SCmd c)
| sc_label bt lt n g l : scoped1 bt lt (SLabel n g l)
| sc_break bt lt t : bt = Some t -> scoped1 bt lt (SBreak t)
| sc_continue bt lt t : lt = Some t -> scoped1 bt lt (SContinue t)
| sc_if bt lt conds els : scoped_conds bt lt conds -> scoped_opt bt lt els -> scoped1 bt lt (SIf conds els)
| sc_while bt lt t c b : scoped (Some t) (Some t) b -> scoped1 bt lt (SWhile t c b)
| sc_dowhile bt lt t b c : scoped (Some t) (Some t) b -> scoped1 bt lt (SDoWhile t b c)
| sc_switch bt lt t op ol cases : scoped_cases (Some t) lt cases -> scoped1 bt lt (SSwitch t op ol cases)
with scoped_conds : option nat -> option nat -> list (bexp * list stmt) -> Prop :=
| scc_nil bt lt : scoped_conds bt lt []
| scc_cons bt lt e b r : scoped bt lt b -> scoped_conds bt lt r -> scoped_conds bt lt ((e, b) :: r)
with scoped_opt : option nat -> option nat -> option (list stmt) -> Prop :=
| sco_none bt lt : scoped_opt bt lt None
| sco_some bt lt b : scoped bt lt b -> scoped_opt bt lt (Some b)
with scoped_cases : option nat -> option nat -> list scase -> Prop :=
| scs_nil bt lt : scoped_cases bt lt []
| scs_cons bt lt c r : scoped bt lt (sc_body c) -> scoped_cases bt lt r -> scoped_cases bt lt (c :: r).

Fixpoint kbt (k : cont) : option nat :=
  match k with
  | Kstop => None | Kseq _ k' => kbt k'
  | Kwhile t _ _ _ | Kdowhile t _ _ _ | Kswitch t _ => Some t
  end.
Fixpoint klt (k : cont) : option nat :=
  match k with
  | Kstop => None | Kseq _ k' | Kswitch _ k' => klt k'
  | Kwhile t _ _ _ | Kdowhile t _ _ _ => Some t
  end.
Inductive scoped_k : cont -> Prop :=
| sk_stop : scoped_k Kstop
| sk_seq r k : scoped (kbt k) (klt k) r -> scoped_k k -> scoped_k (Kseq r k)
| sk_while t c b k : scoped (Some t) (Some t) b -> scoped_k k -> scoped_k (Kwhile t c b k)
| sk_dowhile t b c k : scoped (Some t) (Some t) b -> scoped_k k -> scoped_k (Kdowhile t b c k)
| sk_switch t k : scoped_k k -> scoped_k (Kswitch t k).
Inductive scoped_state : sstate -> Prop :=
| ss_run s r k : scoped (kbt k) (klt k) (s :: r) -> scoped_k k -> scoped_state (SRun s r k)
| ss_loopw t c b k : scoped (Some t) (Some t) b -> scoped_k k -> scoped_state (SLoopW t c b k)
| ss_loopd t b c k : scoped (Some t) (Some t) b -> scoped_k k -> scoped_state (SLoopD t b c k)
| ss_final o : scoped_state (SFinal o).

(* break / continue against match_cont *)
Lemma pop_break_sim k ret t :
  match_cont k ret -> kbt k = Some t ->
  exists k' d, pop_break k = Some k' /\ tm_get brkT t = Some d /\ match_cont k' d.
Proof.
  induction 1; cbn; intros Hk; try discriminate; auto.
  - inversion Hk; subst. eauto.
  - inversion Hk; subst. inversion H; subst. eauto.
  - inversion Hk; subst. inversion H; subst. eauto.
Qed.

Lemma pop_continue_sim k ret t s :
  match_cont k ret -> klt k = Some t ->
  exists A' d, pop_continue k = Some A' /\ tm_get orgT t = Some d /\
               exists j B, gsteps j (ggoto_ret d) s [] B s /\ match_states A' B.
Proof.
  induction 1; cbn; intros Hk; try discriminate; auto.
  - inversion Hk; subst. inversion H; subst.
    eexists _, h. repeat split; eauto.
    exists 0. eexists. split; [constructor|].
    rewrite (ggoto_ret_chunk _ _ H1), (ggoto_chunk _ _ H1), H2. econstructor; eauto.
  - inversion Hk; subst. inversion H; subst.
    eexists _, bb. repeat split; eauto.
    assert (M : match_cont (Kdowhile t b c k) h) by (econstructor; eauto).
    inversion H5; subst. rewrite (ggoto_ret_chunk _ _ H8).
    eapply block_sim; eauto.
Qed.

(* the loop test, shared by SWhile / SLoopW *)
Lemma while_test_sim tg c b h r k s ch :
  tr_while tg c b h r -> get_chunk G h = Some ch -> match_cont k r ->
  forall ev A' s', loop_test_w St exec flag_set trainer_beaten cmp_var cmp_var_value tg c b k s = (ev, A', s') ->
  exists j B', 1 <= j /\ gsteps j (GAt ch []) s ev B' s' /\ match_states A' B'.
Proof.
  intros W Hh M ev A' s' Ht. pose proof W as W0. inversion W; subst.
  rewrite Hh in H; inversion H; subst ch0; clear H.
  assert (J : gsteps 1 (GAt ch []) s [] (ggoto en) s).
  { rewrite <- H0. apply jump_step; auto. }
  assert (MK : match_cont (Kwhile tg c b k) h) by (econstructor; eauto).
  unfold loop_test_w in Ht. destruct c as [e|].
  - destruct (eval_bexp e s) as [[ev0 s0] r0] eqn:E.
    destruct (cond_sim _ _ _ _ H2 _ _ _ _ E) as (j1 & Hj1 & S1).
    destruct r0 as [[]|]; inversion Ht; subst; clear Ht; cbn in S1.
    + destruct (block_sim _ _ _ _ s' H3 MK) as (j2 & B & S2 & MS).
      exists (1 + (j1 + j2)), B. split; [lia|]. split; auto.
      replace ev with ([] ++ (ev ++ [])) by (cbn; now rewrite app_nil_r).
      eapply steps_trans; [exact J|]. eapply steps_trans; eauto.
    + exists (1 + j1), (ggoto_ret r). split; [lia|]. split.
      * replace ev with ([] ++ ev) by reflexivity. eapply steps_trans; eauto.
      * now apply resume_sim.
    + exists (1 + j1), (GFinal OStopped). split; [lia|]. split; [|constructor].
      replace ev with ([] ++ ev) by reflexivity. eapply steps_trans; eauto.
  - inversion Ht; subst; clear Ht.
    destruct (block_sim _ _ _ _ s' H3 MK) as (j2 & B & S2 & MS).
    exists (1 + j2), B. split; [lia|]. split; auto.
    replace (@nil event) with (@nil event ++ []) by reflexivity. eapply steps_trans; eauto.
Qed.


(* if / elif / else chain *)
Definition chain_post (conds : list (bexp * list stmt)) (els : option (list stmt)) (r : Z)
           (res : option (option (list stmt))) (B : gstate) : Prop :=
  match res with
  | None => B = GFinal OStopped
  | Some (Some b) => exists p, B = ggoto p /\ tr_block b p r
  | Some None => match els with
                 | Some b => exists p, B = ggoto p /\ tr_block b p r
                 | None => B = ggoto_ret r
                 end
  end.

Lemma tr_block_chunk b p r : tr_block b p r -> exists c, get_chunk G p = Some c.
Proof. inversion 1; eauto. Qed.

Lemma chain_sim conds els f r :
  tr_chain conds els f r ->
  forall s ev s' res, eval_conds conds s = (ev, s', res) ->
  exists j B, gsteps j (ggoto_ret f) s ev B s' /\ chain_post conds els r res B.
Proof.
  induction 1; intros s ev s' res Hev.
  - cbn in Hev. inversion Hev; subst. exists 0. eexists. split; [constructor|]. reflexivity.
  - cbn in Hev. inversion Hev; subst. exists 0. eexists. split; [constructor|].
    cbn. exists p. split; auto. destruct (tr_block_chunk _ _ _ H) as [c Hc]. now apply ggoto_ret_chunk with c.
  - cbn in Hev. destruct (eval_bexp e s) as [[ev1 s1] r1] eqn:E.
    destruct (cond_sim _ _ _ _ H _ _ _ _ E) as (j1 & Hj1 & S1).
    destruct (tr_cond_entry _ _ _ _ H) as (cen & Hcen & _).
    rewrite (ggoto_ret_chunk _ _ Hcen).
    destruct r1 as [[]|].
    + inversion Hev; subst. exists j1. eexists. split; [exact S1|]. cbn. eauto.
    + destruct (eval_conds more s1) as [[ev2 s2] r2] eqn:E2. inversion Hev; subst.
      destruct (IHtr_chain _ _ _ _ E2) as (j2 & B & S2 & P).
      exists (j1 + j2), B. split; [eapply steps_trans; eauto|].
      destruct res as [[b0|]|]; cbn in *; auto.
    + inversion Hev; subst. exists j1. eexists. split; [exact S1|]. reflexivity.
Qed.

Variable find_label : text -> option sstate.
Hypothesis find_label_sim : forall l s,
  match find_label l, graph_find_label l G with
  | Some A', Some B0 => exists j B', gsteps j B0 s [] B' s /\ match_states A' B'
  | None, None => True
  | _, _ => False
  end.

Notation sstep := (sstep St exec flag_set trainer_beaten cmp_var cmp_var_value case_matches find_label).

Lemma steps_snoc0 j B s ev B1 s1 j2 B2 :
  gsteps j B s ev B1 s1 -> gsteps j2 B1 s1 [] B2 s1 -> gsteps (j + j2) B s ev B2 s1.
Proof. intros. rewrite <- (app_nil_r ev). eapply steps_trans; eauto. Qed.

Lemma steps_cons0 j B s ev B1 j2 B2 s2 :
  gsteps j B s [] B1 s -> gsteps j2 B1 s ev B2 s2 -> gsteps (j + j2) B s ev B2 s2.
Proof. intros. replace ev with ([] ++ ev) by reflexivity. eapply steps_trans; eauto. Qed.

Lemma gstep_end_chunk c s :
  cbr c = None -> cend c = false -> gstep (GAt c []) s = ([], ggoto_ret (cret c), s).
Proof.
  intros H1 H2. cbn. rewrite H1, H2. unfold Sem2.ggoto_ret. destruct (Z.eqb (cret c) (-1)); reflexivity.
Qed.

(* the main step lemma (switch excluded in this prototype) *)
Definition no_switch (a : sstate) : Prop :=
  match a with SRun (SSwitch _ _ _ _) _ _ => False | _ => True end.

Lemma step_sim A B s :
  match_states A B -> scoped_state A -> sfinal A = None ->
  forall ev A' s', sstep A s = (ev, A', s') ->
  exists j B', 1 <= j /\ gsteps j B s ev B' s' /\ match_states A' B'.
Proof.
  intros MS SC NF ev A' s' Hst.
  destruct MS as [x rest k c rem ret T M | tg cnd b k h ch r W Hh M | tg b cnd k h ch bb r W Hh M | o];
    [ | | | discriminate].
  - (* SRun *)
    destruct x; cbn in Hst.
    + (* SCmd *)
      destruct (tr_stmts_simple_head _ _ _ _ _ T eq_refl) as [(rem' & -> & T') | (-> & -> & e & bq & Hx & He & Hb & Hr & Hc)].
      * (* command is in the chunk's statements *)
        destruct (is_name c0 "end") eqn:N1.
        { inversion Hst; subst. exists 1, (GFinal OEnd). split; [lia|]. split; [|constructor].
          apply steps_one; [reflexivity|]. cbn. now rewrite N1. }
        destruct (is_name c0 "return") eqn:N2.
        { inversion Hst; subst. exists 1, (GFinal OReturn). split; [lia|]. split; [|constructor].
          apply steps_one; [reflexivity|]. cbn. now rewrite N1, N2. }
        destruct (is_name c0 "goto") eqn:N3.
        { destruct (cargs c0) as [|l [|]] eqn:Ca.
          - inversion Hst; subst. exists 1, (GFinal OStuck). split; [lia|]. split; [|constructor].
            apply steps_one; [reflexivity|]. cbn. now rewrite N1, N2, N3, Ca.
          - pose proof (find_label_sim l s) as FL.
            destruct (find_label l) as [A0|] eqn:F1; destruct (graph_find_label l G) as [B0|] eqn:F2; try contradiction.
            + inversion Hst; subst. destruct FL as (j & B' & S & MS').
              exists (1 + j), B'. split; [lia|]. split; auto.
              eapply steps_cons0; [|exact S].
              apply steps_one; [reflexivity|]. cbn. now rewrite N1, N2, N3, Ca, F2.
            + inversion Hst; subst. exists 1, (GFinal (OJumpOut l)). split; [lia|]. split; [|constructor].
              apply steps_one; [reflexivity|]. cbn. now rewrite N1, N2, N3, Ca, F2.
          - inversion Hst; subst. exists 1, (GFinal OStuck). split; [lia|]. split; [|constructor].
            apply steps_one; [reflexivity|]. cbn. now rewrite N1, N2, N3, Ca. }
        destruct (exec c0 s) as [s1|] eqn:Ex; inversion Hst; subst; clear Hst.
        { destruct (enter_sim _ _ _ _ k s' T' M) as (j & B' & S & MS').
          exists (1 + j), B'. split; [lia|]. split; auto.
          change [c0] with ([c0] ++ []). eapply steps_trans; [|exact S].
          apply steps_one; [reflexivity|]. cbn. now rewrite N1, N2, N3, Ex. }
        { exists 1, (GFinal OStopped). split; [lia|]. split; [|constructor].
          apply steps_one; [reflexivity|]. cbn. now rewrite N1, N2, N3, Ex. }
      * (* command is the trailing end/return folded into the terminator *)
        inversion Hx; subst e. unfold is_endret in He. destruct (cargs c0) as [|? ?]; [|discriminate He].
        destruct (text_eqb (cname c0) (t "end")) eqn:N1.
        { unfold is_name in Hst. rewrite N1 in Hst. inversion Hst; subst ev A' s'.
          assert (Hce : cend c = true) by congruence.
          exists 1, (GFinal OEnd). split; [lia|]. split; [|constructor].
          apply steps_one; [reflexivity|]. cbn. rewrite Hb, Hr, Hce. reflexivity. }
        destruct (text_eqb (cname c0) (t "return")) eqn:N2; [|discriminate].
        unfold is_name in Hst. rewrite N1, N2 in Hst. inversion Hst; subst ev A' s'.
        assert (Hce : cend c = false) by congruence.
        exists 1, (GFinal OReturn). split; [lia|]. split; [|constructor].
        apply steps_one; [reflexivity|]. cbn. rewrite Hb, Hr, Hce. reflexivity.
    + (* SLabel *)
      inversion Hst; subst; clear Hst.
      destruct (tr_stmts_simple_head _ _ _ _ _ T eq_refl) as [(rem' & -> & T') | (_ & _ & e & bq & Hx & _)]; [|discriminate].
      destruct (enter_sim _ _ _ _ k s' T' M) as (j & B' & S & MS').
      exists (1 + j), B'. split; [lia|]. split; auto.
      eapply steps_cons0; [|exact S]. apply steps_one; reflexivity.
    + (* SIf *)
      destruct (tr_stmts_ctrl_head _ _ _ _ _ T eq_refl) as (-> & br & r & Hb & Hc & Hrest).
      inversion Hc as [e b more els0 en cb f r0 Hcond Hblk Hchain | | | | |]; subst.
      assert (CH : tr_chain ((e, b) :: more) els en r) by (econstructor; eauto).
      destruct (tr_cond_entry _ _ _ _ Hcond) as (cen & Hcen & _).
      assert (J : gsteps 1 (GAt c []) s [] (ggoto_ret en) s).
      { apply steps_one; [reflexivity|]. cbn. rewrite Hb. now rewrite (ggoto_ret_chunk _ _ Hcen). }
      pose proof (match_cont_kseq _ _ _ _ Hrest M) as MK.
      destruct (eval_conds ((e, b) :: more) s) as [[ev0 s0] res] eqn:E.
      destruct (chain_sim _ _ _ _ CH _ _ _ _ E) as (j1 & B1 & S1 & P).
      destruct res as [[b0|]|]; cbn in P.
      * inversion Hst; subst. destruct P as (p & -> & TB).
        destruct (block_sim _ _ _ _ s' TB MK) as (j2 & B2 & S2 & MS2).
        exists (1 + (j1 + j2)), B2. split; [lia|]. split; auto.
        eapply steps_cons0; [exact J|]. eapply steps_snoc0; eauto.
      * destruct els as [b1|].
        { inversion Hst; subst. destruct P as (p & -> & TB).
          destruct (block_sim _ _ _ _ s' TB MK) as (j2 & B2 & S2 & MS2).
          exists (1 + (j1 + j2)), B2. split; [lia|]. split; auto.
          eapply steps_cons0; [exact J|]. eapply steps_snoc0; eauto. }
        { inversion Hst; subst.
          exists (1 + j1), (ggoto_ret r). split; [lia|]. split.
          - eapply steps_cons0; [exact J|]. exact S1.
          - eapply rest_sim; eauto. }
      * inversion Hst; subst. exists (1 + j1), (GFinal OStopped). split; [lia|]. split; [|constructor].
        eapply steps_cons0; [exact J|]. exact S1.
    + (* SWhile *)
      destruct (tr_stmts_ctrl_head _ _ _ _ _ T eq_refl) as (-> & br & r & Hb & Hc & Hrest).
      inversion Hc as [ | tg0 c1 b0 h r0 W | | | |]; subst.
      inversion W as [tg0 c1 b0 h0 ch en bb r0 Hh Hhs Hhb Hcnd Hblk Hbt Hot]; subst.
      pose proof (match_cont_kseq _ _ _ _ Hrest M) as MK.
      destruct (while_test_sim _ _ _ _ _ _ s _ W Hh MK _ _ _ Hst) as (j & B' & Hj & S & MS').
      exists (1 + j), B'. split; [lia|]. split; auto.
      eapply steps_cons0; [|exact S].
      apply steps_one; [reflexivity|]. cbn. rewrite Hb. rewrite (ggoto_chunk _ _ Hh). now rewrite Hhs.
    + (* SDoWhile *)
      inversion Hst; subst; clear Hst.
      destruct (tr_stmts_ctrl_head _ _ _ _ _ T eq_refl) as (-> & br & r & Hb & Hc & Hrest).
      inversion Hc as [ | | tg0 b0 c1 h bb r0 W | | |]; subst.
      inversion W as [tg0 b0 e0 h0 ch en bb0 r0 Hh Hhs Hhb Hcnd Hblk Hbt Hot]; subst.
      pose proof (match_cont_kseq _ _ _ _ Hrest M) as MK.
      assert (MD : match_cont (Kdowhile tag body c0 (kseq rest k)) h) by (econstructor; eauto).
      destruct (block_sim _ _ _ _ s' Hblk MD) as (j2 & B2 & S2 & MS2).
      exists (1 + j2), B2. split; [lia|]. split; auto.
      eapply steps_cons0; [|exact S2]. apply steps_one; [reflexivity|]. cbn. now rewrite Hb.
    + (* SBreak *)
      destruct (tr_stmts_ctrl_head _ _ _ _ _ T eq_refl) as (-> & br & r & Hb & Hc & Hrest).
      inversion Hc as [ | | | tg0 d r0 Hd0 | |]; subst.
      assert (Hk : kbt k = Some tag).
      { inversion SC as [x0 r1 k0 Hsc Hsk | | |]; subst.
        inversion Hsc as [|bt lt x1 r2 H1s Hrs]; subst. inversion H1s; subst. auto. }
      destruct (pop_break_sim _ _ _ M Hk) as (k' & d' & Hp & Hd & Mk').
      rewrite Hd0 in Hd. inversion Hd; subst d'.
      rewrite Hp in Hst. inversion Hst; subst.
      exists 1, (ggoto_ret d). split; [lia|]. split; [|now apply resume_sim].
      apply steps_one; [reflexivity|]. cbn. now rewrite Hb.
    + (* SContinue *)
      destruct (tr_stmts_ctrl_head _ _ _ _ _ T eq_refl) as (-> & br & r & Hb & Hc & Hrest).
      inversion Hc as [ | | | | tg0 d r0 Hd0 |]; subst.
      assert (Hk : klt k = Some tag).
      { inversion SC as [x0 r1 k0 Hsc Hsk | | |]; subst.
        inversion Hsc as [|bt lt x1 r2 H1s Hrs]; subst. inversion H1s; subst. auto. }
      destruct (pop_continue_sim _ _ _ s M Hk) as (A0 & d' & Hp & Hd & j & B' & S & MS').
      rewrite Hd0 in Hd. inversion Hd; subst d'.
      rewrite Hp in Hst. inversion Hst; subst.
      exists (1 + j), B'. split; [lia|]. split; auto.
      eapply steps_cons0; [|exact S]. apply steps_one; [reflexivity|]. cbn. now rewrite Hb.
    + (* SSwitch *)
      inversion Hst; subst; clear Hst.
      destruct (tr_stmts_ctrl_head _ _ _ _ _ T eq_refl) as (-> & br & r & Hb & Hc & Hrest).
      inversion Hc as [ | | | | | tg0 op ol cases0 sid csw r0 Hsid Hss Hbt Himpl]; subst.
      pose proof (match_cont_kseq _ _ _ _ Hrest M) as MK.
      assert (MS : match_cont (Kswitch tag (kseq rest k)) r) by (constructor; auto).
      assert (J : gsteps 1 (GAt c []) s' [] (GAt csw []) s').
      { apply steps_one; [reflexivity|]. cbn. rewrite Hb. rewrite (ggoto_chunk _ _ Hsid). now rewrite Hss. }
      inversion Himpl as [op0 cs0 c0 r0 Hnb Hret Hend Hall | op0 ol0 cs0 c0 bc def dest r0 Hbr Hall]; subst.
      * (* elided switch *)
        rewrite (Hall (fun v : text => case_matches operand v s')). cbn [enter].
        exists (1 + 1), (ggoto_ret (cret csw)). split; [lia|]. split.
        -- eapply steps_cons0; [exact J|]. apply steps_one; [reflexivity|]. now apply gstep_end_chunk.
        -- change (resume (Kswitch tag (kseq rest k))) with (resume (kseq rest k)). now apply resume_sim.
      * specialize (Hall (fun v : text => case_matches operand v s')).
        assert (STEP : gstep (GAt csw []) s' =
                       ([], match first_case bc (fun v : text => case_matches operand v s') with
                            | Some d => ggoto d
                            | None => match def with Some dd => ggoto dd | None => ggoto_ret dest end
                            end, s')).
        { cbn. rewrite Hbr. destruct (first_case bc (fun v : text => case_matches operand v s')); [reflexivity|]. destruct def; reflexivity. }
        inversion Hall as [b0 d def0 dest0 r0 TB Hb0 Hfc | b0 dd dest0 r0 TB Hb0 Hfc Hdef | dest0 r0 Hd Hb0 Hfc Hdef]; subst.
        -- destruct (block_sim _ _ _ _ s' TB MS) as (j2 & B2 & S2 & MS2).
           exists (1 + (1 + j2)), B2. split; [lia|]. split; auto.
           eapply steps_cons0; [exact J|]. eapply steps_cons0; [|exact S2].
           apply steps_one; [reflexivity|]. rewrite STEP, <- Hfc. reflexivity.
        -- destruct (block_sim _ _ _ _ s' TB MS) as (j2 & B2 & S2 & MS2).
           exists (1 + (1 + j2)), B2. split; [lia|]. split; auto.
           eapply steps_cons0; [exact J|]. eapply steps_cons0; [|exact S2].
           apply steps_one; [reflexivity|]. rewrite STEP, <- Hfc. reflexivity.
        -- try rewrite <- Hb0. cbn [enter].
           exists (1 + 1), (ggoto_ret r). split; [lia|]. split.
           ++ eapply steps_cons0; [exact J|]. apply steps_one; [reflexivity|]. rewrite STEP, <- Hfc. reflexivity.
           ++ change (resume (Kswitch tag (kseq rest k))) with (resume (kseq rest k)). now apply resume_sim.
  - (* SLoopW *)
    cbn in Hst. eapply while_test_sim; eauto.
  - (* SLoopD *)
    cbn in Hst.
    inversion W as [tg0 b0 e0 h0 ch0 en bb0 r0 Hh0 Hhs Hhb Hcnd Hblk Hbt Hot]; subst.
    rewrite Hh in Hh0; inversion Hh0; subst ch0; clear Hh0.
    assert (J : gsteps 1 (GAt ch []) s [] (ggoto en) s).
    { rewrite <- Hhs. apply jump_step; auto. }
    assert (MD : match_cont (Kdowhile tg b cnd k) h) by (econstructor; eauto).
    destruct (eval_bexp cnd s) as [[ev0 s0] r0] eqn:E.
    destruct (cond_sim _ _ _ _ Hcnd _ _ _ _ E) as (j1 & Hj1 & S1).
    destruct r0 as [[]|]; inversion Hst; subst; clear Hst; cbn in S1.
    + destruct (block_sim _ _ _ _ s' Hblk MD) as (j2 & B2 & S2 & MS2).
      exists (1 + (j1 + j2)), B2. split; [lia|]. split; auto.
      eapply steps_cons0; [exact J|]. eapply steps_snoc0; eauto.
    + exists (1 + j1), (ggoto_ret r). split; [lia|]. split; [|now apply resume_sim].
      eapply steps_cons0; eauto.
    + exists (1 + j1), (GFinal OStopped). split; [lia|]. split; [|constructor].
      eapply steps_cons0; eauto.
Qed.


(* ---------- the scoping invariant is preserved ---------- *)
Hypothesis find_label_scoped : forall l A, find_label l = Some A -> scoped_state A.

Lemma scoped_resume k : scoped_k k -> scoped_state (resume k).
Proof.
  induction 1; cbn [resume]; try constructor; auto.
  destruct r as [|x r]; auto. constructor; auto.
Qed.

Lemma scoped_enter ss k : scoped (kbt k) (klt k) ss -> scoped_k k -> scoped_state (enter ss k).
Proof. intros H K. destruct ss; cbn; [now apply scoped_resume|constructor; auto]. Qed.

Lemma scoped_k_kseq r k : scoped (kbt k) (klt k) r -> scoped_k k -> scoped_k (kseq r k).
Proof. intros. destruct r; cbn; auto. constructor; auto. Qed.
Lemma kbt_kseq r k : kbt (kseq r k) = kbt k. Proof. destruct r; reflexivity. Qed.
Lemma klt_kseq r k : klt (kseq r k) = klt k. Proof. destruct r; reflexivity. Qed.

Lemma scoped_pop_break k k' : scoped_k k -> pop_break k = Some k' -> scoped_k k'.
Proof. induction 1; cbn; intros E; try discriminate; auto; inversion E; subst; auto. Qed.

Lemma scoped_pop_continue k A : scoped_k k -> pop_continue k = Some A -> scoped_state A.
Proof.
  induction 1; cbn; intros E; try discriminate; auto; inversion E; subst.
  - constructor; auto.
  - apply scoped_enter; cbn; auto. constructor; auto.
Qed.

Lemma scoped_conds_body bt lt conds s ev s' b :
  scoped_conds bt lt conds -> eval_conds conds s = (ev, s', Some (Some b)) -> scoped bt lt b.
Proof.
  intros H. revert s ev. induction H; cbn; intros s ev E; [inversion E|].
  destruct (eval_bexp e s) as [[ev1 s1] [[]|]].
  - inversion E; subst; auto.
  - destruct (eval_conds r s1) as [[ev2 s2] r2] eqn:E2. inversion E; subst. eapply IHscoped_conds; eauto.
  - inversion E.
Qed.

Lemma scoped_next_body bt lt cs : scoped_cases bt lt cs -> scoped bt lt (next_body cs).
Proof. induction 1; cbn; [constructor|]. destruct (sc_body c) eqn:E; auto. Qed.

Lemma scoped_select_match bt lt cs m o :
  scoped_cases bt lt cs -> select_match cs m = Some o -> scoped bt lt o.
Proof.
  induction 1; cbn; intros E; [discriminate|].
  destruct (negb (sc_def c) && m (sc_val c)).
  - inversion E; subst. apply (scoped_next_body bt lt (c :: r)). constructor; auto.
  - auto.
Qed.
Lemma scoped_select_default bt lt cs o :
  scoped_cases bt lt cs -> select_default cs = Some o -> scoped bt lt o.
Proof.
  induction 1; cbn; intros E; [discriminate|].
  destruct (sc_def c).
  - inversion E; subst. apply (scoped_next_body bt lt (c :: r)). constructor; auto.
  - auto.
Qed.
Lemma scoped_select bt lt cs m : scoped_cases bt lt cs -> scoped bt lt (select_case cs m).
Proof.
  intros H. unfold select_case.
  destruct (select_match cs m) eqn:E1; [eapply scoped_select_match; eauto|].
  destruct (select_default cs) eqn:E2; [eapply scoped_select_default; eauto|constructor].
Qed.

Lemma loop_test_scoped tg c b k s ev A' s' :
  scoped (Some tg) (Some tg) b -> scoped_k k ->
  loop_test_w St exec flag_set trainer_beaten cmp_var cmp_var_value tg c b k s = (ev, A', s') -> scoped_state A'.
Proof.
  intros Hb Hk E. unfold loop_test_w in E.
  assert (Hent : scoped_state (enter b (Kwhile tg c b k))).
  { apply scoped_enter; cbn; auto. constructor; auto. }
  destruct c as [e|].
  - destruct (eval_bexp e s) as [[ev0 s0] [[]|]]; inversion E; subst; auto.
    + now apply scoped_resume.
    + constructor.
  - inversion E; subst; auto.
Qed.

Lemma sstep_scoped A s ev A' s' : scoped_state A -> sstep A s = (ev, A', s') -> scoped_state A'.
Proof.
  intros SC E. destruct SC as [x rest k Hs Hk | tg c b k Hb Hk | tg b c k Hb Hk | o].
  - inversion Hs as [|bt lt x0 r0 H1 Hr]; subst.
    destruct x; cbn in E.
    + destruct (is_name c "end"); [inversion E; constructor|].
      destruct (is_name c "return"); [inversion E; constructor|].
      destruct (is_name c "goto").
      * destruct (cargs c) as [|l [|]]; try (inversion E; constructor).
        destruct (find_label l) eqn:F; inversion E; subst; [eapply find_label_scoped; eauto|constructor].
      * destruct (exec c s); inversion E; subst; [now apply scoped_enter|constructor].
    + inversion E; subst. now apply scoped_enter.
    + inversion H1; subst.
      assert (KS : scoped_k (kseq rest k)) by now apply scoped_k_kseq.
      destruct (eval_conds conds s) as [[ev0 s0] [[b0|]|]] eqn:EC.
      * inversion E; subst. apply scoped_enter; auto. rewrite kbt_kseq, klt_kseq. eapply scoped_conds_body; eauto.
      * destruct els as [b1|]; inversion E; subst.
        -- apply scoped_enter; auto. rewrite kbt_kseq, klt_kseq.
           match goal with H : scoped_opt _ _ (Some _) |- _ => inversion H; subst; auto end.
        -- now apply scoped_enter.
      * inversion E; constructor.
    + inversion H1; subst. eapply loop_test_scoped; [| |exact E]; auto. now apply scoped_k_kseq.
    + inversion H1; subst. inversion E; subst. apply scoped_enter; cbn; auto.
      constructor; auto. now apply scoped_k_kseq.
    + destruct (pop_break k) eqn:P; inversion E; subst; [|constructor].
      apply scoped_resume. eapply scoped_pop_break; eauto.
    + destruct (pop_continue k) eqn:P; inversion E; subst; [|constructor].
      eapply scoped_pop_continue; eauto.
    + inversion H1; subst. inversion E; subst. apply scoped_enter.
      * cbn [kbt klt]. rewrite klt_kseq. now apply scoped_select.
      * constructor. now apply scoped_k_kseq.
  - cbn in E. eapply loop_test_scoped; eauto.
  - cbn in E. destruct (eval_bexp c s) as [[ev0 s0] [[]|]]; inversion E; subst.
    + apply scoped_enter; cbn; auto. constructor; auto.
    + now apply scoped_resume.
    + constructor.
  - cbn in E. inversion E; constructor.
Qed.

(* ---------- run-level statement of lemma 2 ---------- *)
Notation srun := (run sfinal sstep).
Notation grun := (run gfinal gstep).

Lemma match_final A B : match_states A B -> sfinal A = gfinal B.
Proof. destruct 1; reflexivity. Qed.

Theorem graph_sim A B :
  match_states A B -> scoped_state A ->
  forall n s, exists m, (n <= m)%nat /\ srun n A s = grun m B s.
Proof.
  intros M SC n. revert A B M SC. induction n as [|n IH]; intros A B M SC s.
  - exists 0%nat. split; [lia|]. cbn. rewrite <- (match_final _ _ M). reflexivity.
  - destruct (sfinal A) as [o|] eqn:F.
    + exists (S n). split; [lia|]. rewrite (run_final _ _ _ _ (S n) A s o F).
      rewrite (match_final _ _ M) in F. now rewrite (run_final _ _ _ _ (S n) B s o F).
    + cbn [run]. rewrite F.
      destruct (sstep A s) as [[ev A'] s'] eqn:E.
      destruct (step_sim _ _ _ M SC F _ _ _ E) as (j & B' & Hj & S & M').
      pose proof (sstep_scoped _ _ _ _ _ SC E) as SC'.
      destruct (IH _ _ M' SC' s') as (m' & Hm' & R).
      exists (j + m')%nat. split; [lia|].
      rewrite (run_steps _ _ _ _ _ _ _ _ _ _ S m'). rewrite R.
      destruct (grun m' B' s'); reflexivity.
Qed.

End TR.
