(* Lemma 1 of C01: the FIFO worklist of the emitter establishes the translation relation tr_block on its own final
   chunk graph (so the relation checker chk_block is no longer a premise of the end-to-end theorem). *)
From Coq Require Import List String Ascii ZArith NArith Lia Bool.
From Pory Require Import Lexer Ast Emitter Sem2 Tr.
Import ListNotations.
Open Scope list_scope.

(* ---------- one iteration of the worklist, as a function ---------- *)
Inductive sres :=
| SDone
| SNext (fin : chunk) (news : list chunk) (c' : Z) (newtag : option (nat * Z * Z))
| SErrB
| SErrC.

Definition wstep (w : wst) : sres :=
  match remaining w with
  | [] => SDone
  | cur :: rest =>
      let ss := cstmts cur in
      let '(i, er) := scan ss 0 (List.length ss) in
      match er with
      | Some e => SNext {| cid := cid cur; cret := (-1)%Z; cend := e; cstmts := firstn i ss; cbr := None |} [] (counter w) None
      | None =>
          if Nat.eqb i (List.length ss) then SNext cur [] (counter w) None
          else
            let fin (ret : Z) (b : option brancher) := {| cid := cid cur; cret := ret; cend := false; cstmts := firstn i ss; cbr := b |} in
            match nth_error ss i with
            | Some (SIf conds els) =>
                let '(news, br, ret, c') := create_if conds els cur i (counter w) in
                SNext (fin ret (Some br)) news c' None
            | Some (SWhile tag c body) =>
                let '(news, br, ret, c') := create_while c body cur i (counter w) in
                let d := match br with BrJump d => d | _ => 0%Z end in
                SNext (fin ret (Some br)) news c' (Some (tag, ret, d))
            | Some (SDoWhile tag body c) =>
                let '(news, br, ret, c') := create_dowhile body c cur i (counter w) in
                let d := match br with BrJump d => d | _ => 0%Z end in
                SNext (fin ret (Some br)) news c' (Some (tag, ret, d))
            | Some (SSwitch tag operand oline cases) =>
                let '(news, br, ret, c') := create_switch operand oline cases cur i (counter w) in
                let d := match br with BrJump d => d | _ => 0%Z end in
                SNext (fin ret (Some br)) news c' (Some (tag, ret, d))
            | Some (SBreak tag) =>
                match tm_get (brk w) tag with
                | None => SErrB
                | Some d =>
                    let '(post, ret, c') := split_for_branch cur i (counter w) in
                    SNext (fin ret (Some (BrBreak d))) post c' None
                end
            | Some (SContinue tag) =>
                match tm_get (org w) tag with
                | None => SErrC
                | Some d =>
                    let '(post, ret, c') := split_for_branch cur i (counter w) in
                    SNext (fin ret (Some (BrBreak d))) post c' None
                end
            | _ => SNext (fin (cret cur) None) [] (counter w) None
            end
      end
  end.

Definition wnext (w : wst) (fin : chunk) (news : list chunk) (c' : Z) (nt : option (nat * Z * Z)) : wst :=
  {| remaining := tl (remaining w) ++ news; finals := set_final (finals w) fin; counter := c';
     brk := match nt with Some (tg, r, _) => (tg, r) :: brk w | None => brk w end;
     org := match nt with Some (tg, _, d) => (tg, d) :: org w | None => org w end |}.

Lemma work_S f w :
  work (S f) w = match wstep w with
                 | SDone => Ok w
                 | SNext fin news c' nt => work f (wnext w fin news c' nt)
                 | SErrB => ErrBreak
                 | SErrC => ErrContinue
                 end.
Proof.
  unfold wstep, wnext. cbn [work]. destruct (remaining w) as [|cur rest]; [reflexivity|]. cbn [tl].
  destruct (scan (cstmts cur) 0 (List.length (cstmts cur))) as [i [e|]].
  - rewrite app_nil_r. reflexivity.
  - destruct (Nat.eqb i (List.length (cstmts cur))); [rewrite app_nil_r; reflexivity|].
    destruct (nth_error (cstmts cur) i) as [[c|n g tk|conds els|tag c body|tag body c|tag|tag|tag op ol cases]|].
    + rewrite app_nil_r. reflexivity.
    + rewrite app_nil_r. reflexivity.
    + destruct (create_if conds els cur i (counter w)) as [[[news br] ret] c']. reflexivity.
    + destruct (create_while c body cur i (counter w)) as [[[news br] ret] c']. reflexivity.
    + destruct (create_dowhile body c cur i (counter w)) as [[[news br] ret] c']. reflexivity.
    + destruct (tm_get (brk w) tag); [|reflexivity]. destruct (split_for_branch cur i (counter w)) as [[post ret] c']. reflexivity.
    + destruct (tm_get (org w) tag); [|reflexivity]. destruct (split_for_branch cur i (counter w)) as [[post ret] c']. reflexivity.
    + destruct (create_switch op ol cases cur i (counter w)) as [[[news br] ret] c']. reflexivity.
    + rewrite app_nil_r. reflexivity.
Qed.

(* ---------- what the statement scan finds ---------- *)
Inductive scan_spec (ss : list stmt) (i : nat) : nat * option bool -> Prop :=
| sc_endret pre c e : ss = pre ++ [SCmd c] -> Forall simple pre -> is_endret (SCmd c) = Some e ->
    scan_spec ss i ((i + List.length pre)%nat, Some e)
| sc_all : Forall simple ss -> scan_spec ss i ((i + List.length ss)%nat, None)
| sc_ctrl pre s rest : ss = pre ++ s :: rest -> Forall simple pre -> is_simple s = false ->
    scan_spec ss i ((i + List.length pre)%nat, None).

Lemma scan_spec_cons s r i x : is_simple s = true -> scan_spec r (S i) x -> scan_spec (s :: r) i x.
Proof.
  intros Hs H. destruct H as [pre c e E F R|F|pre s' rest E F NS].
  - replace (S i + List.length pre)%nat with (i + List.length (s :: pre))%nat by (cbn; lia).
    apply (sc_endret (s :: r) i (s :: pre) c e); [rewrite E; reflexivity|constructor; assumption|assumption].
  - replace (S i + List.length r)%nat with (i + List.length (s :: r))%nat by (cbn; lia). apply sc_all. constructor; assumption.
  - replace (S i + List.length pre)%nat with (i + List.length (s :: pre))%nat by (cbn; lia).
    apply (sc_ctrl (s :: r) i (s :: pre) s' rest); [rewrite E; reflexivity|constructor; assumption|assumption].
Qed.

Lemma scan_spec_here s r i : is_simple s = false -> scan_spec (s :: r) i (i, None).
Proof.
  intros NS. replace i with (i + List.length (@nil stmt))%nat at 2 by (cbn; lia).
  apply (sc_ctrl (s :: r) i [] s r); [reflexivity|constructor|exact NS].
Qed.

Lemma scan_ok : forall ss i n, (i + List.length ss = n)%nat -> scan_spec ss i (scan ss i n).
Proof.
  induction ss as [|s r IH]; intros i n Hn.
  - cbn. replace i with (i + List.length (@nil stmt))%nat at 2 by (cbn; lia). apply sc_all. constructor.
  - cbn [List.length] in Hn.
    destruct s as [c|nm g tk|conds els|tag c body|tag body c|tag|tag|tag op ol cases]; cbn [scan]; try (apply scan_spec_here; reflexivity).
    + destruct (Nat.eqb_spec i (n - 1)) as [E|NE].
      * destruct (is_endret (SCmd c)) as [e|] eqn:ER.
        -- assert (r = []) by (destruct r; [reflexivity|cbn in Hn; lia]). subst r.
           replace i with (i + List.length (@nil stmt))%nat at 2 by (cbn; lia). apply (sc_endret [SCmd c] i [] c e); [reflexivity|constructor|exact ER].
        -- apply scan_spec_cons; [reflexivity|apply IH; lia].
      * apply scan_spec_cons; [reflexivity|apply IH; lia].
    + apply scan_spec_cons; [reflexivity|apply IH; lia].
Qed.

Lemma nth_error_app_here {A} (pre : list A) x rest : nth_error (pre ++ x :: rest) (List.length pre) = Some x.
Proof. induction pre; cbn; auto. Qed.
Lemma firstn_app_here {A} (pre rest : list A) : firstn (List.length pre) (pre ++ rest) = pre.
Proof. induction pre; cbn; [destruct rest; reflexivity|congruence]. Qed.
Lemma skipn_app_here {A} (pre : list A) x rest : skipn (S (List.length pre)) (pre ++ x :: rest) = rest.
Proof. induction pre; cbn; auto. Qed.

(* ---------- generic list facts ---------- *)
Lemma nodup_app_intro {A} (l1 l2 : list A) : NoDup l1 -> NoDup l2 -> (forall x, In x l1 -> ~ In x l2) -> NoDup (l1 ++ l2).
Proof.
  induction l1 as [|a l1 IH]; intros H1 H2 D; [exact H2|]. inversion H1; subst. cbn. constructor.
  - rewrite in_app_iff. intros [I|I]; [contradiction|]. apply (D a); [left; reflexivity|exact I].
  - apply IH; auto. intros x I. apply D. right. exact I.
Qed.
Lemma nodup_app_l {A} (l1 l2 : list A) : NoDup (l1 ++ l2) -> NoDup l1.
Proof. induction l1; intros H; [constructor|]. inversion H; subst. constructor; [rewrite in_app_iff in *; tauto|auto]. Qed.
Lemma nodup_app_r {A} (l1 l2 : list A) : NoDup (l1 ++ l2) -> NoDup l2.
Proof. induction l1; intros H; [exact H|]. inversion H; subst. auto. Qed.
Lemma nodup_app_disj {A} (l1 l2 : list A) x : NoDup (l1 ++ l2) -> In x l1 -> ~ In x l2.
Proof.
  induction l1 as [|a l1 IH]; intros H I; [contradiction|]. inversion H; subst. destruct I as [->|I].
  - rewrite in_app_iff in *. tauto.
  - apply IH; assumption.
Qed.

Definition ids (cs : list chunk) : list Z := map cid cs.
Definition ids_in (lo hi : Z) (cs : list chunk) : Prop := Forall (fun c => (lo < cid c <= hi)%Z) cs.
Lemma ids_in_weaken lo hi lo' hi' cs : (lo' <= lo)%Z -> (hi <= hi')%Z -> ids_in lo hi cs -> ids_in lo' hi' cs.
Proof. intros A B H. unfold ids_in in *. eapply Forall_impl; [|exact H]. cbn. intros; lia. Qed.
Lemma ids_in_app lo hi a b : ids_in lo hi (a ++ b) <-> ids_in lo hi a /\ ids_in lo hi b.
Proof. apply Forall_app. Qed.
Lemma ids_in_In lo hi cs x : ids_in lo hi cs -> In x (ids cs) -> (lo < x <= hi)%Z.
Proof. intros H I. apply in_map_iff in I. destruct I as (c & <- & I). unfold ids_in in H. rewrite Forall_forall in H. apply (H c I). Qed.
Lemma nodup_ranges lo mid hi a b : ids_in lo mid a -> ids_in mid hi b -> NoDup (ids a) -> NoDup (ids b) -> NoDup (ids (a ++ b)).
Proof.
  intros A B Na Nb. unfold ids. rewrite map_app. apply nodup_app_intro; auto.
  intros x I J. pose proof (ids_in_In _ _ _ _ A I). pose proof (ids_in_In _ _ _ _ B J). lia.
Qed.

(* chunks that are created already finished: no statements, a branch *)
Definition prebranched (c : chunk) : Prop := cstmts c = [] /\ cend c = false /\ exists b, cbr c = Some b.
Definition plainchunk (c : chunk) : Prop := cend c = false /\ cbr c = None.
Definition fresh (c : chunk) : Prop := prebranched c \/ plainchunk c.

(* ---------- boolean expressions ---------- *)
Lemma split_bexp_ids : forall e cn su fa fi cs en f2 c2,
  split_bexp e cn su fa fi = (cs, en, f2, c2) -> (0 <= cn)%Z ->
  (cn < en <= c2)%Z /\ ids_in cn c2 cs /\ NoDup (ids cs) /\ Forall prebranched cs /\
  f2 = (if Z.eqb fi (-1) then en else fi).
Proof.
  induction e as [l|o a IHa b IHb]; intros cn su fa fi cs en f2 c2 H Hc.
  - cbn in H. inversion H; subst. split; [lia|]. split; [repeat constructor; cbn; lia|]. split; [repeat constructor; cbn; tauto|].
    split; [repeat constructor; cbn; eauto|reflexivity].
  - destruct o; cbn [split_bexp] in H.
    + destruct (split_bexp a (cn + 1) (cn + 1) fa fi) as [[[ra la] f1] c1] eqn:Ea.
      destruct (split_bexp b c1 su fa f1) as [[[rb lb] f2x] c2x] eqn:Eb. inversion H; subst.
      destruct (IHa _ _ _ _ _ _ _ _ Ea ltac:(lia)) as (A1 & A2 & A3 & A4 & A5).
      destruct (IHb _ _ _ _ _ _ _ _ Eb ltac:(lia)) as (B1 & B2 & B3 & B4 & B5).
      split; [lia|]. split.
      { apply ids_in_app. split; [eapply ids_in_weaken; [| |exact A2]; lia|]. apply ids_in_app. split; [eapply ids_in_weaken; [| |exact B2]; lia|].
        repeat constructor; cbn; lia. }
      split.
      { rewrite app_assoc. unfold ids. rewrite map_app. apply nodup_app_intro.
        - apply (nodup_ranges (cn + 1) c1 c2); assumption.
        - repeat constructor. cbn. tauto.
        - intros x I [J|[]]. cbn in J. subst x. fold (ids (ra ++ rb)) in I.
          assert (K : ids_in (cn + 1) c2 (ra ++ rb)) by (apply ids_in_app; split; eapply ids_in_weaken; try eassumption; lia).
          pose proof (ids_in_In _ _ _ _ K I). lia. }
      split.
      { apply Forall_app. split; [exact A4|]. apply Forall_app. split; [exact B4|]. repeat constructor; cbn; eauto. }
      rewrite B5, A5. destruct (Z.eqb_spec fi (-1)) as [E|NE]; [destruct (Z.eqb_spec en (-1)); [lia|reflexivity]|apply Z.eqb_neq in NE; rewrite NE; reflexivity].
    + destruct (split_bexp a (cn + 1) su (cn + 1) fi) as [[[ra la] f1] c1] eqn:Ea.
      destruct (split_bexp b c1 su fa f1) as [[[rb lb] f2x] c2x] eqn:Eb. inversion H; subst.
      destruct (IHa _ _ _ _ _ _ _ _ Ea ltac:(lia)) as (A1 & A2 & A3 & A4 & A5).
      destruct (IHb _ _ _ _ _ _ _ _ Eb ltac:(lia)) as (B1 & B2 & B3 & B4 & B5).
      split; [lia|]. split.
      { apply ids_in_app. split; [eapply ids_in_weaken; [| |exact A2]; lia|]. apply ids_in_app. split; [eapply ids_in_weaken; [| |exact B2]; lia|].
        repeat constructor; cbn; lia. }
      split.
      { rewrite app_assoc. unfold ids. rewrite map_app. apply nodup_app_intro.
        - apply (nodup_ranges (cn + 1) c1 c2); assumption.
        - repeat constructor. cbn. tauto.
        - intros x I [J|[]]. cbn in J. subst x. fold (ids (ra ++ rb)) in I.
          assert (K : ids_in (cn + 1) c2 (ra ++ rb)) by (apply ids_in_app; split; eapply ids_in_weaken; try eassumption; lia).
          pose proof (ids_in_In _ _ _ _ K I). lia. }
      split.
      { apply Forall_app. split; [exact A4|]. apply Forall_app. split; [exact B4|]. repeat constructor; cbn; eauto. }
      rewrite B5, A5. destruct (Z.eqb_spec fi (-1)) as [E|NE]; [destruct (Z.eqb_spec en (-1)); [lia|reflexivity]|apply Z.eqb_neq in NE; rewrite NE; reflexivity].
Qed.

(* ---------- obligations of pending chunks against a final graph ---------- *)
Section LOCAL.
Variable G : list chunk.
Variables B O : tagmap.

Definition stays (c : chunk) : Prop := get_chunk G (cid c) = Some c.
(* a pending plain chunk must end up translating its statements; a pre-branched chunk must stay as it is *)
Definition obl (c : chunk) : Prop :=
  match cbr c with
  | None => tr_block G B O (cstmts c) (cid c) (cret c)
  | Some _ => stays c
  end.

Lemma obl_prebranched c : prebranched c -> obl c -> stays c.
Proof. intros (_ & _ & b & E). unfold obl. rewrite E. auto. Qed.
Lemma obls_stay cs : Forall prebranched cs -> Forall obl cs -> Forall stays cs.
Proof. intros P Q. rewrite Forall_forall in *. intros c I. apply obl_prebranched; auto. Qed.
Lemma obl_mk_plain i r ss : obl (mk i r ss None) -> tr_block G B O ss i r.
Proof. intros H. exact H. Qed.

Lemma split_bexp_tr : forall e cn su fa fi cs en f2 c2,
  split_bexp e cn su fa fi = (cs, en, f2, c2) -> Forall stays cs -> tr_cond G e en su fa.
Proof.
  induction e as [l|o a IHa b IHb]; intros cn su fa fi cs en f2 c2 H S.
  - cbn in H. inversion H; subst. inversion S as [|? ? S1 _]; subst. unfold stays in S1. cbn in S1.
    eapply tc_leaf; [exact S1|reflexivity|reflexivity].
  - destruct o; cbn [split_bexp] in H.
    + destruct (split_bexp a (cn + 1) (cn + 1) fa fi) as [[[ra la] f1] c1] eqn:Ea.
      destruct (split_bexp b c1 su fa f1) as [[[rb lb] f2x] c2x] eqn:Eb. inversion H; subst.
      apply Forall_app in S. destruct S as [Sa S]. apply Forall_app in S. destruct S as [Sb S]. inversion S as [|? ? S1 _]; subst.
      unfold stays in S1. cbn in S1.
      eapply tc_and; [eapply IHa; eassumption|eapply IHb; eassumption|exact S1|reflexivity|reflexivity].
    + destruct (split_bexp a (cn + 1) su (cn + 1) fi) as [[[ra la] f1] c1] eqn:Ea.
      destruct (split_bexp b c1 su fa f1) as [[[rb lb] f2x] c2x] eqn:Eb. inversion H; subst.
      apply Forall_app in S. destruct S as [Sa S]. apply Forall_app in S. destruct S as [Sb S]. inversion S as [|? ? S1 _]; subst.
      unfold stays in S1. cbn in S1.
      eapply tc_or; [eapply IHa; eassumption|eapply IHb; eassumption|exact S1|reflexivity|reflexivity].
Qed.
End LOCAL.

(* ---------- loop / switch tags of statements ---------- *)
From Coq Require Import Permutation.

Fixpoint tags1 (s : stmt) : list nat :=
  let tl := fix tl (ss : list stmt) : list nat := match ss with [] => [] | x :: r => tags1 x ++ tl r end in
  match s with
  | SIf conds els =>
      (fix go (cs : list (bexp * list stmt)) : list nat := match cs with [] => [] | (_, b) :: r => tl b ++ go r end) conds ++
      match els with Some b => tl b | None => [] end
  | SWhile tg _ b => tg :: tl b
  | SDoWhile tg b _ => tg :: tl b
  | SSwitch tg _ _ cases =>
      tg :: (fix go (cs : list scase) : list nat := match cs with [] => [] | c :: r => tl (sc_body c) ++ go r end) cases
  | _ => []
  end.
Fixpoint tags (ss : list stmt) : list nat := match ss with [] => [] | x :: r => tags1 x ++ tags r end.
Definition tags_local := fix tl (ss : list stmt) : list nat := match ss with [] => [] | x :: r => tags1 x ++ tl r end.
Lemma tags_local_eq ss : tags_local ss = tags ss.
Proof. induction ss as [|x r IH]; [reflexivity|]. cbn. now rewrite IH. Qed.

Definition tags_conds (cs : list (bexp * list stmt)) : list nat := List.concat (map (fun cb => tags (snd cb)) cs).
Definition tags_cases (cs : list scase) : list nat := List.concat (map (fun c => tags (sc_body c)) cs).
Definition tags_opt (o : option (list stmt)) : list nat := match o with Some b => tags b | None => [] end.

Lemma tags1_if conds els : tags1 (SIf conds els) = tags_conds conds ++ tags_opt els.
Proof.
  change (tags1 (SIf conds els)) with
    ((fix go (cs : list (bexp * list stmt)) : list nat := match cs with [] => [] | (_, b) :: r => tags_local b ++ go r end) conds ++
     match els with Some b => tags_local b | None => [] end).
  f_equal.
  - unfold tags_conds. induction conds as [|[e b] r IH]; [reflexivity|]. cbn. rewrite IH, tags_local_eq. reflexivity.
Qed.
Lemma tags1_while tg c b : tags1 (SWhile tg c b) = tg :: tags b.
Proof. change (tags1 (SWhile tg c b)) with (tg :: tags_local b). now rewrite tags_local_eq. Qed.
Lemma tags1_dowhile tg b c : tags1 (SDoWhile tg b c) = tg :: tags b.
Proof. change (tags1 (SDoWhile tg b c)) with (tg :: tags_local b). now rewrite tags_local_eq. Qed.
Lemma tags1_switch tg o ol cases : tags1 (SSwitch tg o ol cases) = tg :: tags_cases cases.
Proof.
  change (tags1 (SSwitch tg o ol cases)) with
    (tg :: (fix go (cs : list scase) : list nat := match cs with [] => [] | c :: r => tags_local (sc_body c) ++ go r end) cases).
  f_equal. unfold tags_cases. induction cases as [|c r IH]; [reflexivity|]. cbn. rewrite IH, tags_local_eq. reflexivity.
Qed.
Lemma tags_app a b : tags (a ++ b) = tags a ++ tags b.
Proof. induction a as [|x r IH]; [reflexivity|]. cbn. now rewrite IH, app_assoc. Qed.
Lemma tags_simple ss : Forall simple ss -> tags ss = [].
Proof. induction 1 as [|x r H _ IH]; [reflexivity|]. cbn. rewrite IH. destruct x; try discriminate H; reflexivity. Qed.

Definition tags_rem (cs : list chunk) : list nat := List.concat (map (fun c => tags (cstmts c)) cs).
Lemma tags_rem_app a b : tags_rem (a ++ b) = tags_rem a ++ tags_rem b.
Proof. unfold tags_rem. now rewrite map_app, List.concat_app. Qed.
Lemma tags_rem_prebranched cs : Forall prebranched cs -> tags_rem cs = [].
Proof. induction 1 as [|c r (E & _) _ IH]; [reflexivity|]. unfold tags_rem in *. cbn. rewrite E, IH. reflexivity. Qed.

(* ---------- the helpers of the create functions ---------- *)
Definition news_ok (cn c' : Z) (news : list chunk) : Prop :=
  (cn <= c')%Z /\ ids_in cn c' news /\ NoDup (ids news) /\ Forall fresh news.

Lemma sfb_spec cur pre s rest' cn post ret c0 :
  cstmts cur = pre ++ s :: rest' -> split_for_branch cur (List.length pre) cn = (post, ret, c0) ->
  (rest' = [] /\ post = [] /\ ret = cret cur /\ c0 = cn) \/
  (rest' <> [] /\ post = [mk (cn + 1) (cret cur) rest' None] /\ ret = (cn + 1)%Z /\ c0 = (cn + 1)%Z).
Proof.
  intros E H. unfold split_for_branch in H. rewrite E in H. rewrite app_length in H. cbn [List.length] in H.
  destruct (Nat.eqb_spec (List.length pre) (List.length pre + S (List.length rest') - 1)) as [Q|Q].
  - left. inversion H; subst. assert (List.length rest' = 0)%nat by lia. destruct rest'; [auto|discriminate].
  - right. rewrite skipn_app_here in H. inversion H; subst. split; [|auto]. intros ->. cbn in Q. lia.
Qed.

Lemma mk_body_chunks_spec : forall bodies cn ret cs c',
  mk_body_chunks bodies cn ret = (cs, c') ->
  (cn <= c')%Z /\ ids_in cn c' cs /\ NoDup (ids cs) /\ Forall plainchunk cs /\
  tags_rem cs = List.concat (map tags bodies) /\ List.length cs = List.length bodies.
Proof.
  induction bodies as [|b r IH]; intros cn ret cs c' H; cbn in H.
  - inversion H; subst. repeat split; try constructor; lia.
  - destruct (mk_body_chunks r (cn + 1) ret) as [cs1 c1] eqn:E. inversion H; subst.
    destruct (IH _ _ _ _ E) as (A1 & A2 & A3 & A4 & A5 & A6). split; [lia|]. split.
    { constructor; [cbn; lia|eapply ids_in_weaken; [| |exact A2]; lia]. }
    split.
    { cbn. constructor; [|exact A3]. intros I. pose proof (ids_in_In _ _ _ _ A2 I). lia. }
    split; [constructor; [split; reflexivity|exact A4]|]. split; [|cbn; lia].
    unfold tags_rem in *. cbn. rewrite A5. reflexivity.
Qed.

Lemma news_ok_app cn c1 c2 a b : news_ok cn c1 a -> news_ok c1 c2 b -> news_ok cn c2 (a ++ b).
Proof.
  intros (A1 & A2 & A3 & A4) (B1 & B2 & B3 & B4). split; [lia|]. split; [|split].
  - apply ids_in_app. split; [eapply ids_in_weaken; [| |exact A2]; lia|eapply ids_in_weaken; [| |exact B2]; lia].
  - eapply nodup_ranges; eassumption.
  - apply Forall_app. split; assumption.
Qed.
Lemma news_ok_nil cn : news_ok cn cn [].
Proof. split; [lia|]. repeat split; constructor. Qed.
Lemma news_ok_one cn c : cid c = (cn + 1)%Z -> fresh c -> news_ok cn (cn + 1) [c].
Proof.
  intros E F. split; [lia|]. split; [constructor; [lia|constructor]|]. split; [repeat constructor; cbn; tauto|]. constructor; [exact F|constructor].
Qed.
Lemma prebranched_fresh cs : Forall prebranched cs -> Forall fresh cs.
Proof. intros H. eapply Forall_impl; [|exact H]. intros c P. left. exact P. Qed.
Lemma plain_fresh cs : Forall plainchunk cs -> Forall fresh cs.
Proof. intros H. eapply Forall_impl; [|exact H]. intros c P. right. exact P. Qed.
Lemma split_bexp_news e cn su fa fi cs en f2 c2 :
  split_bexp e cn su fa fi = (cs, en, f2, c2) -> (0 <= cn)%Z -> news_ok cn c2 cs.
Proof.
  intros H Hc. destruct (split_bexp_ids _ _ _ _ _ _ _ _ _ H Hc) as (A1 & A2 & A3 & A4 & A5).
  split; [lia|]. split; [exact A2|]. split; [exact A3|apply prebranched_fresh; exact A4].
Qed.
Lemma sfb_news cur pre s rest' cn post ret c0 :
  cstmts cur = pre ++ s :: rest' -> split_for_branch cur (List.length pre) cn = (post, ret, c0) ->
  news_ok cn c0 post /\ tags_rem post = tags rest'.
Proof.
  intros E H. destruct (sfb_spec _ _ _ _ _ _ _ _ E H) as [(-> & -> & -> & ->)|(N & -> & -> & ->)].
  - split; [apply news_ok_nil|reflexivity].
  - split; [apply news_ok_one; [reflexivity|right; split; reflexivity]|]. unfold tags_rem. cbn. now rewrite app_nil_r.
Qed.

(* stitch_elifs *)
Lemma stitch_news : forall rl cn fail cs entry c',
  stitch_elifs rl cn fail = (cs, entry, c') -> (0 <= cn)%Z -> news_ok cn c' cs /\ Forall prebranched cs.
Proof.
  induction rl as [|[e id] r IH]; intros cn fail cs entry c' H Hc; cbn in H.
  - inversion H; subst. split; [apply news_ok_nil|constructor].
  - destruct (split_bexp e cn id fail (-1)) as [[[cs0 x] first] c1] eqn:E0.
    destruct (stitch_elifs r c1 first) as [[cs2 entry2] c2] eqn:E2. inversion H; subst.
    destruct (split_bexp_ids _ _ _ _ _ _ _ _ _ E0 Hc) as (A1 & A2 & A3 & A4 & A5).
    destruct (IH _ _ _ _ _ E2 ltac:(lia)) as [B1 B2]. split.
    + eapply news_ok_app; [eapply split_bexp_news; eassumption|exact B1].
    + apply Forall_app. split; assumption.
Qed.

(* ---------- if ---------- *)
Lemma create_if_unfold e b more els cur i cn :
  create_if ((e, b) :: more) els cur i cn =
  let '(post, ret, c0) := split_for_branch cur i cn in
  let '(bodychunks, c1) := mk_body_chunks (b :: map snd more) c0 ret in
  let '(elsechunk, c2, finalfail) :=
      match els with
      | Some eb => let c := (c1 + 1)%Z in ([mk c ret eb None], c, c)
      | None => ([], c1, ret)
      end in
  let '(cs, entryfail, c3) := stitch_elifs (rev (combine (map fst more) (tl (map cid bodychunks)))) c2 finalfail in
  let '(cs1, _, entry, c4) := split_bexp e c3 (hd 0%Z (map cid bodychunks)) entryfail (-1) in
  (post ++ bodychunks ++ elsechunk ++ cs ++ cs1, BrJump entry, ret, c4).
Proof.
  unfold create_if. destruct (split_for_branch cur i cn) as [[post ret] c0]. cbn [map snd].
  destruct (mk_body_chunks (b :: map snd more) c0 ret) as [bodychunks c1] eqn:EB.
  cbn in EB. destruct (mk_body_chunks (map snd more) (c0 + 1) ret) as [cs' c1']. inversion EB; subst.
  destruct els; cbn [map fst combine cid mk hd tl]; reflexivity.
Qed.

Lemma create_if_news e b more els cur pre rest' cn news br ret c' :
  cstmts cur = pre ++ SIf ((e, b) :: more) els :: rest' ->
  create_if ((e, b) :: more) els cur (List.length pre) cn = (news, br, ret, c') -> (0 <= cn)%Z ->
  news_ok cn c' news /\ Permutation (tags_rem news) (tags_conds ((e, b) :: more) ++ tags_opt els ++ tags rest').
Proof.
  intros E H Hc. rewrite create_if_unfold in H.
  destruct (split_for_branch cur (List.length pre) cn) as [[post ret0] c0] eqn:ES.
  destruct (mk_body_chunks (b :: map snd more) c0 ret0) as [bodychunks c1] eqn:EB.
  destruct (sfb_news _ _ _ _ _ _ _ _ E ES) as [P1 P2].
  destruct (mk_body_chunks_spec _ _ _ _ _ EB) as (B1 & B2 & B3 & B4 & B5 & B6).
  assert (NB : news_ok c0 c1 bodychunks) by (split; [exact B1|split; [exact B2|split; [exact B3|apply plain_fresh; exact B4]]]).
  assert (C0 : (cn <= c0)%Z) by (destruct P1; assumption).
  set (EL := match els with Some eb => let c := (c1 + 1)%Z in ([mk c ret0 eb None], c, c) | None => ([], c1, ret0) end) in H.
  assert (NE : news_ok c1 (snd (fst EL)) (fst (fst EL)) /\ tags_rem (fst (fst EL)) = tags_opt els).
  { subst EL. destruct els as [eb|]; cbn.
    - split; [apply news_ok_one; [reflexivity|right; split; reflexivity]|]. unfold tags_rem. cbn. now rewrite app_nil_r.
    - split; [apply news_ok_nil|reflexivity]. }
  destruct EL as [[elsechunk c2] finalfail]. cbn [fst snd] in NE. destruct NE as [NE1 NE2].
  assert (C2 : (c1 <= c2)%Z) by (destruct NE1; assumption).
  destruct (stitch_elifs (rev (combine (map fst more) (tl (map cid bodychunks)))) c2 finalfail) as [[cs entryfail] c3] eqn:EST.
  destruct (stitch_news _ _ _ _ _ _ EST ltac:(lia)) as [S1 S2].
  assert (C3 : (c2 <= c3)%Z) by (destruct S1; assumption).
  destruct (split_bexp e c3 (hd 0%Z (map cid bodychunks)) entryfail (-1)) as [[[cs1 x] entry] c4] eqn:EX.
  pose proof (split_bexp_news _ _ _ _ _ _ _ _ _ EX ltac:(lia)) as X1.
  destruct (split_bexp_ids _ _ _ _ _ _ _ _ _ EX ltac:(lia)) as (_ & _ & _ & X2 & _).
  inversion H; subst. split.
  - eapply news_ok_app; [exact P1|]. eapply news_ok_app; [exact NB|]. eapply news_ok_app; [exact NE1|]. eapply news_ok_app; [exact S1|exact X1].
  - rewrite !tags_rem_app. rewrite (tags_rem_prebranched cs S2), (tags_rem_prebranched cs1 X2), !app_nil_r.
    rewrite P2, B5, NE2. cbn [map List.concat]. unfold tags_conds. cbn [map snd List.concat]. rewrite map_map.
    etransitivity; [apply Permutation_app_comm|]. rewrite <- !app_assoc. reflexivity.
Qed.

Section LOCAL2.
Variable G : list chunk.
Variables B O : tagmap.
Notation stays := (stays G).
Notation obl := (obl G B O).

Lemma sfb_tr cur pre s rest' cn post ret c0 :
  cstmts cur = pre ++ s :: rest' -> split_for_branch cur (List.length pre) cn = (post, ret, c0) ->
  Forall obl post -> tr_rest G B O rest' ret (cret cur).
Proof.
  intros E H F. destruct (sfb_spec _ _ _ _ _ _ _ _ E H) as [(-> & -> & -> & ->)|(N & -> & -> & ->)].
  - constructor.
  - inversion F as [|? ? F1 _]; subst. destruct rest' as [|x r]; [congruence|]. constructor. exact F1.
Qed.

Lemma bodies_tr : forall bodies cn ret cs c',
  mk_body_chunks bodies cn ret = (cs, c') -> Forall obl cs ->
  Forall2 (fun b c => tr_block G B O b (cid c) ret) bodies cs.
Proof.
  induction bodies as [|b r IH]; intros cn ret cs c' H F; cbn in H.
  - inversion H; subst. constructor.
  - destruct (mk_body_chunks r (cn + 1) ret) as [cs1 c1] eqn:E. inversion H; subst. inversion F as [|? ? F1 F2]; subst.
    constructor; [exact F1|eapply IH; eassumption].
Qed.

Definition tproj (x : bexp * list stmt * Z) : bexp * Z := (fst (fst x), snd x).

Lemma stitch_tr : forall (l : list (bexp * list stmt * Z)) cn fail cs entry c' done els r,
  stitch_elifs (map tproj l) cn fail = (cs, entry, c') -> (0 <= cn)%Z -> Forall stays cs ->
  (forall x, In x l -> tr_block G B O (snd (fst x)) (snd x) r) -> tr_chain G B O done els fail r ->
  tr_chain G B O (rev (map fst l) ++ done) els entry r.
Proof.
  induction l as [|[[e b] id] l IH]; intros cn fail cs entry c' done els r H Hc S HB HD; cbn [map tproj fst snd stitch_elifs] in H.
  - inversion H; subst. exact HD.
  - destruct (split_bexp e cn id fail (-1)) as [[[cs0 x] first] c1] eqn:E0.
    destruct (stitch_elifs (map tproj l) c1 first) as [[cs2 entry2] c2] eqn:E2. inversion H; subst.
    apply Forall_app in S. destruct S as [S0 S2].
    destruct (split_bexp_ids _ _ _ _ _ _ _ _ _ E0 Hc) as (A1 & _ & _ & _ & A5). cbn in A5. subst first.
    pose proof (split_bexp_tr G _ _ _ _ _ _ _ _ _ E0 S0) as TC.
    cbn [map fst rev]. rewrite <- app_assoc. cbn [app].
    eapply (IH c1 x _ _ _ ((e, b) :: done)); [exact E2|lia|exact S2| |].
    + intros y I. apply HB. right. exact I.
    + eapply chain_cons; [exact TC| |exact HD]. apply (HB (e, b, id)). left. reflexivity.
Qed.

Lemma combine_tproj : forall (more : list (bexp * list stmt)) (idl : list Z),
  combine (map fst more) idl = map tproj (combine more idl).
Proof. induction more as [|[e b] r IH]; intros [|i idl]; cbn; try reflexivity. now rewrite IH. Qed.
Lemma combine_fst {A C} : forall (a : list A) (b : list C), List.length a = List.length b -> map fst (combine a b) = a.
Proof. induction a as [|x r IH]; intros [|y s] H; cbn in *; try reflexivity; try discriminate. f_equal. apply IH. lia. Qed.

Lemma create_if_tr e b more els cur pre rest' cn news br ret c' :
  cstmts cur = pre ++ SIf ((e, b) :: more) els :: rest' ->
  create_if ((e, b) :: more) els cur (List.length pre) cn = (news, br, ret, c') -> (0 <= cn)%Z ->
  Forall obl news ->
  tr_ctrl G B O (SIf ((e, b) :: more) els) br ret /\ tr_rest G B O rest' ret (cret cur).
Proof.
  intros E H Hc F. rewrite create_if_unfold in H.
  destruct (split_for_branch cur (List.length pre) cn) as [[post ret0] c0] eqn:ES.
  destruct (mk_body_chunks (b :: map snd more) c0 ret0) as [bodychunks c1] eqn:EB.
  destruct (sfb_news _ _ _ _ _ _ _ _ E ES) as [P1 _].
  destruct (mk_body_chunks_spec _ _ _ _ _ EB) as (B1 & _ & _ & B4 & _ & B6).
  assert (C0 : (cn <= c0)%Z) by (destruct P1; assumption).
  set (EL := match els with Some eb => let c := (c1 + 1)%Z in ([mk c ret0 eb None], c, c) | None => ([], c1, ret0) end) in H.
  assert (NE : (c1 <= snd (fst EL))%Z /\
               (Forall obl (fst (fst EL)) -> tr_chain G B O [] els (snd EL) ret0)).
  { subst EL. destruct els as [eb|]; cbn.
    - split; [lia|]. intros Q. inversion Q as [|? ? Q1 _]; subst. apply chain_else. exact Q1.
    - split; [lia|]. intros _. apply chain_none. }
  destruct EL as [[elsechunk c2] finalfail]. cbn [fst snd] in NE. destruct NE as [C2 NE].
  destruct (stitch_elifs (rev (combine (map fst more) (tl (map cid bodychunks)))) c2 finalfail) as [[cs entryfail] c3] eqn:EST.
  destruct (stitch_news _ _ _ _ _ _ EST ltac:(lia)) as [S1 S2].
  assert (C3 : (c2 <= c3)%Z) by (destruct S1; assumption).
  destruct (split_bexp e c3 (hd 0%Z (map cid bodychunks)) entryfail (-1)) as [[[cs1 x] entry] c4] eqn:EX.
  destruct (split_bexp_ids _ _ _ _ _ _ _ _ _ EX ltac:(lia)) as (_ & _ & _ & X2 & X5). cbn in X5. subst entry.
  inversion H; subst. clear H.
  apply Forall_app in F. destruct F as [Fp F]. apply Forall_app in F. destruct F as [Fb F].
  apply Forall_app in F. destruct F as [Fe F]. apply Forall_app in F. destruct F as [Fs Fx].
  split; [|eapply sfb_tr; eassumption].
  pose proof (bodies_tr _ _ _ _ _ EB Fb) as BT.
  destruct bodychunks as [|bc0 bcs]; [inversion BT|]. inversion BT as [|? ? ? ? T0 TM]; subst. cbn [map hd tl cid] in *.
  eapply tcl_if.
  - eapply split_bexp_tr; [exact EX|]. apply (obls_stay G B O); assumption.
  - exact T0.
  - (* the elif chain *)
    rewrite combine_tproj, <- map_rev in EST.
    assert (LEN : List.length more = List.length (map cid bcs)).
    { rewrite map_length. cbn [List.length] in B6. rewrite map_length in B6. lia. }
    pose proof (stitch_tr (rev (combine more (map cid bcs))) c2 finalfail cs entryfail c3 [] els ret EST ltac:(lia)
                  (obls_stay G B O cs S2 Fs)) as ST.
    rewrite <- map_rev, rev_involutive, app_nil_r, (combine_fst more (map cid bcs) LEN) in ST. apply ST; [|apply NE; exact Fe].
    intros y I. apply in_rev in I.
    (* y = (e', b', id) with (b', chunk) related by TM *)
    clear - TM I. revert bcs TM I. induction more as [|[e' b'] r IH]; intros bcs TM I; [destruct I|].
    inversion TM as [|? c ? cs' T1 T2]; subst. cbn in I. destruct I as [<-|I]; [exact T1|]. eapply IH; eassumption.
Qed.
End LOCAL2.
