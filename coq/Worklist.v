(* Lemma 1 of C01: the FIFO worklist of the emitter establishes the translation relation tr_block on its own final
   chunk graph (so the relation checker chk_block is no longer a premise of the end-to-end theorem). *)
From Coq Require Import List String Ascii ZArith NArith Lia Bool.
From Pory Require Import Lexer Ast Emitter Sem2 Tr.
From Pory Require Check.
Import ListNotations.
Open Scope list_scope.

(* ---------- one iteration of the worklist, as a function ---------- *)
Inductive sres :=
| SDone
| SNext (fin : chunk) (news : list chunk) (c' : Z) (newtag : option (nat * Z * Z))
| SErrB
| SErrC.

Definition wstep (w : wst) : sres :=
  match remaining w with
  | [] => SDone
  | cur :: rest =>
      let ss := cstmts cur in
      let '(i, er) := scan ss 0 (List.length ss) in
      match er with
      | Some e => SNext {| cid := cid cur; cret := (-1)%Z; cend := e; cstmts := firstn i ss; cbr := None |} [] (counter w) None
      | None =>
          if Nat.eqb i (List.length ss) then SNext cur [] (counter w) None
          else
            let fin (ret : Z) (b : option brancher) := {| cid := cid cur; cret := ret; cend := false; cstmts := firstn i ss; cbr := b |} in
            match nth_error ss i with
            | Some (SIf conds els) =>
                let '(news, br, ret, c') := create_if conds els cur i (counter w) in
                SNext (fin ret (Some br)) news c' None
            | Some (SWhile tag c body) =>
                let '(news, br, ret, c') := create_while c body cur i (counter w) in
                let d := match br with BrJump d => d | _ => 0%Z end in
                SNext (fin ret (Some br)) news c' (Some (tag, ret, d))
            | Some (SDoWhile tag body c) =>
                let '(news, br, ret, c') := create_dowhile body c cur i (counter w) in
                let d := match br with BrJump d => d | _ => 0%Z end in
                SNext (fin ret (Some br)) news c' (Some (tag, ret, d))
            | Some (SSwitch tag operand oline cases) =>
                let '(news, br, ret, c') := create_switch operand oline cases cur i (counter w) in
                let d := match br with BrJump d => d | _ => 0%Z end in
                SNext (fin ret (Some br)) news c' (Some (tag, ret, d))
            | Some (SBreak tag) =>
                match tm_get (brk w) tag with
                | None => SErrB
                | Some d =>
                    let '(post, ret, c') := split_for_branch cur i (counter w) in
                    SNext (fin ret (Some (BrBreak d))) post c' None
                end
            | Some (SContinue tag) =>
                match tm_get (org w) tag with
                | None => SErrC
                | Some d =>
                    let '(post, ret, c') := split_for_branch cur i (counter w) in
                    SNext (fin ret (Some (BrBreak d))) post c' None
                end
            | _ => SNext (fin (cret cur) None) [] (counter w) None
            end
      end
  end.

Definition wnext (w : wst) (fin : chunk) (news : list chunk) (c' : Z) (nt : option (nat * Z * Z)) : wst :=
  {| remaining := tl (remaining w) ++ news; finals := set_final (finals w) fin; counter := c';
     brk := match nt with Some (tg, r, _) => (tg, r) :: brk w | None => brk w end;
     org := match nt with Some (tg, _, d) => (tg, d) :: org w | None => org w end |}.

Lemma work_S f w :
  work (S f) w = match wstep w with
                 | SDone => Ok w
                 | SNext fin news c' nt => work f (wnext w fin news c' nt)
                 | SErrB => ErrBreak
                 | SErrC => ErrContinue
                 end.
Proof.
  unfold wstep, wnext. cbn [work]. destruct (remaining w) as [|cur rest]; [reflexivity|]. cbn [tl].
  destruct (scan (cstmts cur) 0 (List.length (cstmts cur))) as [i [e|]].
  - rewrite app_nil_r. reflexivity.
  - destruct (Nat.eqb i (List.length (cstmts cur))); [rewrite app_nil_r; reflexivity|].
    destruct (nth_error (cstmts cur) i) as [[c|n g tk|conds els|tag c body|tag body c|tag|tag|tag op ol cases]|].
    + rewrite app_nil_r. reflexivity.
    + rewrite app_nil_r. reflexivity.
    + destruct (create_if conds els cur i (counter w)) as [[[news br] ret] c']. reflexivity.
    + destruct (create_while c body cur i (counter w)) as [[[news br] ret] c']. reflexivity.
    + destruct (create_dowhile body c cur i (counter w)) as [[[news br] ret] c']. reflexivity.
    + destruct (tm_get (brk w) tag); [|reflexivity]. destruct (split_for_branch cur i (counter w)) as [[post ret] c']. reflexivity.
    + destruct (tm_get (org w) tag); [|reflexivity]. destruct (split_for_branch cur i (counter w)) as [[post ret] c']. reflexivity.
    + destruct (create_switch op ol cases cur i (counter w)) as [[[news br] ret] c']. reflexivity.
    + rewrite app_nil_r. reflexivity.
Qed.

(* ---------- what the statement scan finds ---------- *)
Inductive scan_spec (ss : list stmt) (i : nat) : nat * option bool -> Prop :=
| sc_endret pre c e : ss = pre ++ [SCmd c] -> Forall simple pre -> is_endret (SCmd c) = Some e ->
    scan_spec ss i ((i + List.length pre)%nat, Some e)
| sc_all : Forall simple ss -> scan_spec ss i ((i + List.length ss)%nat, None)
| sc_ctrl pre s rest : ss = pre ++ s :: rest -> Forall simple pre -> is_simple s = false ->
    scan_spec ss i ((i + List.length pre)%nat, None).

Lemma scan_spec_cons s r i x : is_simple s = true -> scan_spec r (S i) x -> scan_spec (s :: r) i x.
Proof.
  intros Hs H. destruct H as [pre c e E F R|F|pre s' rest E F NS].
  - replace (S i + List.length pre)%nat with (i + List.length (s :: pre))%nat by (cbn; lia).
    apply (sc_endret (s :: r) i (s :: pre) c e); [rewrite E; reflexivity|constructor; assumption|assumption].
  - replace (S i + List.length r)%nat with (i + List.length (s :: r))%nat by (cbn; lia). apply sc_all. constructor; assumption.
  - replace (S i + List.length pre)%nat with (i + List.length (s :: pre))%nat by (cbn; lia).
    apply (sc_ctrl (s :: r) i (s :: pre) s' rest); [rewrite E; reflexivity|constructor; assumption|assumption].
Qed.

Lemma scan_spec_here s r i : is_simple s = false -> scan_spec (s :: r) i (i, None).
Proof.
  intros NS. replace i with (i + List.length (@nil stmt))%nat at 2 by (cbn; lia).
  apply (sc_ctrl (s :: r) i [] s r); [reflexivity|constructor|exact NS].
Qed.

Lemma scan_ok : forall ss i n, (i + List.length ss = n)%nat -> scan_spec ss i (scan ss i n).
Proof.
  induction ss as [|s r IH]; intros i n Hn.
  - cbn. replace i with (i + List.length (@nil stmt))%nat at 2 by (cbn; lia). apply sc_all. constructor.
  - cbn [List.length] in Hn.
    destruct s as [c|nm g tk|conds els|tag c body|tag body c|tag|tag|tag op ol cases]; cbn [scan]; try (apply scan_spec_here; reflexivity).
    + destruct (Nat.eqb_spec i (n - 1)) as [E|NE].
      * destruct (is_endret (SCmd c)) as [e|] eqn:ER.
        -- assert (r = []) by (destruct r; [reflexivity|cbn in Hn; lia]). subst r.
           replace i with (i + List.length (@nil stmt))%nat at 2 by (cbn; lia). apply (sc_endret [SCmd c] i [] c e); [reflexivity|constructor|exact ER].
        -- apply scan_spec_cons; [reflexivity|apply IH; lia].
      * apply scan_spec_cons; [reflexivity|apply IH; lia].
    + apply scan_spec_cons; [reflexivity|apply IH; lia].
Qed.

Lemma nth_error_app_here {A} (pre : list A) x rest : nth_error (pre ++ x :: rest) (List.length pre) = Some x.
Proof. induction pre; cbn; auto. Qed.
Lemma firstn_app_here {A} (pre rest : list A) : firstn (List.length pre) (pre ++ rest) = pre.
Proof. induction pre; cbn; [destruct rest; reflexivity|congruence]. Qed.
Lemma skipn_app_here {A} (pre : list A) x rest : skipn (S (List.length pre)) (pre ++ x :: rest) = rest.
Proof. induction pre; cbn; auto. Qed.

(* ---------- generic list facts ---------- *)
Lemma nodup_app_intro {A} (l1 l2 : list A) : NoDup l1 -> NoDup l2 -> (forall x, In x l1 -> ~ In x l2) -> NoDup (l1 ++ l2).
Proof.
  induction l1 as [|a l1 IH]; intros H1 H2 D; [exact H2|]. inversion H1; subst. cbn. constructor.
  - rewrite in_app_iff. intros [I|I]; [contradiction|]. apply (D a); [left; reflexivity|exact I].
  - apply IH; auto. intros x I. apply D. right. exact I.
Qed.
Lemma nodup_app_l {A} (l1 l2 : list A) : NoDup (l1 ++ l2) -> NoDup l1.
Proof. induction l1; intros H; [constructor|]. inversion H; subst. constructor; [rewrite in_app_iff in *; tauto|auto]. Qed.
Lemma nodup_app_r {A} (l1 l2 : list A) : NoDup (l1 ++ l2) -> NoDup l2.
Proof. induction l1; intros H; [exact H|]. inversion H; subst. auto. Qed.
Lemma nodup_app_disj {A} (l1 l2 : list A) x : NoDup (l1 ++ l2) -> In x l1 -> ~ In x l2.
Proof.
  induction l1 as [|a l1 IH]; intros H I; [contradiction|]. inversion H; subst. destruct I as [->|I].
  - rewrite in_app_iff in *. tauto.
  - apply IH; assumption.
Qed.

Definition ids (cs : list chunk) : list Z := map cid cs.
Definition ids_in (lo hi : Z) (cs : list chunk) : Prop := Forall (fun c => (lo < cid c <= hi)%Z) cs.
Lemma ids_in_weaken lo hi lo' hi' cs : (lo' <= lo)%Z -> (hi <= hi')%Z -> ids_in lo hi cs -> ids_in lo' hi' cs.
Proof. intros A B H. unfold ids_in in *. eapply Forall_impl; [|exact H]. cbn. intros; lia. Qed.
Lemma ids_in_app lo hi a b : ids_in lo hi (a ++ b) <-> ids_in lo hi a /\ ids_in lo hi b.
Proof. apply Forall_app. Qed.
Lemma ids_in_In lo hi cs x : ids_in lo hi cs -> In x (ids cs) -> (lo < x <= hi)%Z.
Proof. intros H I. apply in_map_iff in I. destruct I as (c & <- & I). unfold ids_in in H. rewrite Forall_forall in H. apply (H c I). Qed.
Lemma nodup_ranges lo mid hi a b : ids_in lo mid a -> ids_in mid hi b -> NoDup (ids a) -> NoDup (ids b) -> NoDup (ids (a ++ b)).
Proof.
  intros A B Na Nb. unfold ids. rewrite map_app. apply nodup_app_intro; auto.
  intros x I J. pose proof (ids_in_In _ _ _ _ A I). pose proof (ids_in_In _ _ _ _ B J). lia.
Qed.

(* chunks that are created already finished: no statements, a branch *)
Definition prebranched (c : chunk) : Prop := cstmts c = [] /\ cend c = false /\ exists b, cbr c = Some b.
Definition plainchunk (c : chunk) : Prop := cend c = false /\ cbr c = None.
Definition fresh (c : chunk) : Prop := prebranched c \/ plainchunk c.

(* ---------- boolean expressions ---------- *)
Lemma split_bexp_ids : forall e cn su fa fi cs en f2 c2,
  split_bexp e cn su fa fi = (cs, en, f2, c2) -> (0 <= cn)%Z ->
  (cn < en <= c2)%Z /\ ids_in cn c2 cs /\ NoDup (ids cs) /\ Forall prebranched cs /\
  f2 = (if Z.eqb fi (-1) then en else fi).
Proof.
  induction e as [l|o a IHa b IHb]; intros cn su fa fi cs en f2 c2 H Hc.
  - cbn in H. inversion H; subst. split; [lia|]. split; [repeat constructor; cbn; lia|]. split; [repeat constructor; cbn; tauto|].
    split; [repeat constructor; cbn; eauto|reflexivity].
  - destruct o; cbn [split_bexp] in H.
    + destruct (split_bexp a (cn + 1) (cn + 1) fa fi) as [[[ra la] f1] c1] eqn:Ea.
      destruct (split_bexp b c1 su fa f1) as [[[rb lb] f2x] c2x] eqn:Eb. inversion H; subst.
      destruct (IHa _ _ _ _ _ _ _ _ Ea ltac:(lia)) as (A1 & A2 & A3 & A4 & A5).
      destruct (IHb _ _ _ _ _ _ _ _ Eb ltac:(lia)) as (B1 & B2 & B3 & B4 & B5).
      split; [lia|]. split.
      { apply ids_in_app. split; [eapply ids_in_weaken; [| |exact A2]; lia|]. apply ids_in_app. split; [eapply ids_in_weaken; [| |exact B2]; lia|].
        repeat constructor; cbn; lia. }
      split.
      { rewrite app_assoc. unfold ids. rewrite map_app. apply nodup_app_intro.
        - apply (nodup_ranges (cn + 1) c1 c2); assumption.
        - repeat constructor. cbn. tauto.
        - intros x I [J|[]]. cbn in J. subst x. fold (ids (ra ++ rb)) in I.
          assert (K : ids_in (cn + 1) c2 (ra ++ rb)) by (apply ids_in_app; split; eapply ids_in_weaken; try eassumption; lia).
          pose proof (ids_in_In _ _ _ _ K I). lia. }
      split.
      { apply Forall_app. split; [exact A4|]. apply Forall_app. split; [exact B4|]. repeat constructor; cbn; eauto. }
      rewrite B5, A5. destruct (Z.eqb_spec fi (-1)) as [E|NE]; [destruct (Z.eqb_spec en (-1)); [lia|reflexivity]|apply Z.eqb_neq in NE; rewrite NE; reflexivity].
    + destruct (split_bexp a (cn + 1) su (cn + 1) fi) as [[[ra la] f1] c1] eqn:Ea.
      destruct (split_bexp b c1 su fa f1) as [[[rb lb] f2x] c2x] eqn:Eb. inversion H; subst.
      destruct (IHa _ _ _ _ _ _ _ _ Ea ltac:(lia)) as (A1 & A2 & A3 & A4 & A5).
      destruct (IHb _ _ _ _ _ _ _ _ Eb ltac:(lia)) as (B1 & B2 & B3 & B4 & B5).
      split; [lia|]. split.
      { apply ids_in_app. split; [eapply ids_in_weaken; [| |exact A2]; lia|]. apply ids_in_app. split; [eapply ids_in_weaken; [| |exact B2]; lia|].
        repeat constructor; cbn; lia. }
      split.
      { rewrite app_assoc. unfold ids. rewrite map_app. apply nodup_app_intro.
        - apply (nodup_ranges (cn + 1) c1 c2); assumption.
        - repeat constructor. cbn. tauto.
        - intros x I [J|[]]. cbn in J. subst x. fold (ids (ra ++ rb)) in I.
          assert (K : ids_in (cn + 1) c2 (ra ++ rb)) by (apply ids_in_app; split; eapply ids_in_weaken; try eassumption; lia).
          pose proof (ids_in_In _ _ _ _ K I). lia. }
      split.
      { apply Forall_app. split; [exact A4|]. apply Forall_app. split; [exact B4|]. repeat constructor; cbn; eauto. }
      rewrite B5, A5. destruct (Z.eqb_spec fi (-1)) as [E|NE]; [destruct (Z.eqb_spec en (-1)); [lia|reflexivity]|apply Z.eqb_neq in NE; rewrite NE; reflexivity].
Qed.

(* ---------- obligations of pending chunks against a final graph ---------- *)
Section LOCAL.
Variable G : list chunk.
Variables B O : tagmap.

Definition stays (c : chunk) : Prop := get_chunk G (cid c) = Some c.
(* a pending plain chunk must end up translating its statements; a pre-branched chunk must stay as it is *)
Definition obl (c : chunk) : Prop :=
  match cbr c with
  | None => tr_block G B O (cstmts c) (cid c) (cret c)
  | Some _ => stays c
  end.

Lemma obl_prebranched c : prebranched c -> obl c -> stays c.
Proof. intros (_ & _ & b & E). unfold obl. rewrite E. auto. Qed.
Lemma obls_stay cs : Forall prebranched cs -> Forall obl cs -> Forall stays cs.
Proof. intros P Q. rewrite Forall_forall in *. intros c I. apply obl_prebranched; auto. Qed.
Lemma obl_mk_plain i r ss : obl (mk i r ss None) -> tr_block G B O ss i r.
Proof. intros H. exact H. Qed.

Lemma split_bexp_tr : forall e cn su fa fi cs en f2 c2,
  split_bexp e cn su fa fi = (cs, en, f2, c2) -> Forall stays cs -> tr_cond G e en su fa.
Proof.
  induction e as [l|o a IHa b IHb]; intros cn su fa fi cs en f2 c2 H S.
  - cbn in H. inversion H; subst. inversion S as [|? ? S1 _]; subst. unfold stays in S1. cbn in S1.
    eapply tc_leaf; [exact S1|reflexivity|reflexivity].
  - destruct o; cbn [split_bexp] in H.
    + destruct (split_bexp a (cn + 1) (cn + 1) fa fi) as [[[ra la] f1] c1] eqn:Ea.
      destruct (split_bexp b c1 su fa f1) as [[[rb lb] f2x] c2x] eqn:Eb. inversion H; subst.
      apply Forall_app in S. destruct S as [Sa S]. apply Forall_app in S. destruct S as [Sb S]. inversion S as [|? ? S1 _]; subst.
      unfold stays in S1. cbn in S1.
      eapply tc_and; [eapply IHa; eassumption|eapply IHb; eassumption|exact S1|reflexivity|reflexivity].
    + destruct (split_bexp a (cn + 1) su (cn + 1) fi) as [[[ra la] f1] c1] eqn:Ea.
      destruct (split_bexp b c1 su fa f1) as [[[rb lb] f2x] c2x] eqn:Eb. inversion H; subst.
      apply Forall_app in S. destruct S as [Sa S]. apply Forall_app in S. destruct S as [Sb S]. inversion S as [|? ? S1 _]; subst.
      unfold stays in S1. cbn in S1.
      eapply tc_or; [eapply IHa; eassumption|eapply IHb; eassumption|exact S1|reflexivity|reflexivity].
Qed.
End LOCAL.

(* ---------- loop / switch tags of statements ---------- *)
From Coq Require Import Permutation.

Fixpoint tags1 (s : stmt) : list nat :=
  let tl := fix tl (ss : list stmt) : list nat := match ss with [] => [] | x :: r => tags1 x ++ tl r end in
  match s with
  | SIf conds els =>
      (fix go (cs : list (bexp * list stmt)) : list nat := match cs with [] => [] | (_, b) :: r => tl b ++ go r end) conds ++
      match els with Some b => tl b | None => [] end
  | SWhile tg _ b => tg :: tl b
  | SDoWhile tg b _ => tg :: tl b
  | SSwitch tg _ _ cases =>
      tg :: (fix go (cs : list scase) : list nat := match cs with [] => [] | c :: r => tl (sc_body c) ++ go r end) cases
  | _ => []
  end.
Fixpoint tags (ss : list stmt) : list nat := match ss with [] => [] | x :: r => tags1 x ++ tags r end.
Definition tags_local := fix tl (ss : list stmt) : list nat := match ss with [] => [] | x :: r => tags1 x ++ tl r end.
Lemma tags_local_eq ss : tags_local ss = tags ss.
Proof. induction ss as [|x r IH]; [reflexivity|]. cbn. now rewrite IH. Qed.

Definition tags_conds (cs : list (bexp * list stmt)) : list nat := List.concat (map (fun cb => tags (snd cb)) cs).
Definition tags_cases (cs : list scase) : list nat := List.concat (map (fun c => tags (sc_body c)) cs).
Definition tags_opt (o : option (list stmt)) : list nat := match o with Some b => tags b | None => [] end.

Lemma tags1_if conds els : tags1 (SIf conds els) = tags_conds conds ++ tags_opt els.
Proof.
  change (tags1 (SIf conds els)) with
    ((fix go (cs : list (bexp * list stmt)) : list nat := match cs with [] => [] | (_, b) :: r => tags_local b ++ go r end) conds ++
     match els with Some b => tags_local b | None => [] end).
  f_equal.
  - unfold tags_conds. induction conds as [|[e b] r IH]; [reflexivity|]. cbn. rewrite IH, tags_local_eq. reflexivity.
Qed.
Lemma tags1_while tg c b : tags1 (SWhile tg c b) = tg :: tags b.
Proof. change (tags1 (SWhile tg c b)) with (tg :: tags_local b). now rewrite tags_local_eq. Qed.
Lemma tags1_dowhile tg b c : tags1 (SDoWhile tg b c) = tg :: tags b.
Proof. change (tags1 (SDoWhile tg b c)) with (tg :: tags_local b). now rewrite tags_local_eq. Qed.
Lemma tags1_switch tg o ol cases : tags1 (SSwitch tg o ol cases) = tg :: tags_cases cases.
Proof.
  change (tags1 (SSwitch tg o ol cases)) with
    (tg :: (fix go (cs : list scase) : list nat := match cs with [] => [] | c :: r => tags_local (sc_body c) ++ go r end) cases).
  f_equal. unfold tags_cases. induction cases as [|c r IH]; [reflexivity|]. cbn. rewrite IH, tags_local_eq. reflexivity.
Qed.
Lemma tags_app a b : tags (a ++ b) = tags a ++ tags b.
Proof. induction a as [|x r IH]; [reflexivity|]. cbn. now rewrite IH, app_assoc. Qed.
Lemma tags_simple ss : Forall simple ss -> tags ss = [].
Proof. induction 1 as [|x r H _ IH]; [reflexivity|]. cbn. rewrite IH. destruct x; try discriminate H; reflexivity. Qed.

Definition tags_rem (cs : list chunk) : list nat := List.concat (map (fun c => tags (cstmts c)) cs).
Lemma tags_rem_app a b : tags_rem (a ++ b) = tags_rem a ++ tags_rem b.
Proof. unfold tags_rem. now rewrite map_app, List.concat_app. Qed.
Lemma tags_rem_prebranched cs : Forall prebranched cs -> tags_rem cs = [].
Proof. induction 1 as [|c r (E & _) _ IH]; [reflexivity|]. unfold tags_rem in *. cbn. rewrite E, IH. reflexivity. Qed.

(* ---------- the helpers of the create functions ---------- *)
Definition news_ok (cn c' : Z) (news : list chunk) : Prop :=
  (cn <= c')%Z /\ ids_in cn c' news /\ NoDup (ids news) /\ Forall fresh news.

Lemma sfb_spec cur pre s rest' cn post ret c0 :
  cstmts cur = pre ++ s :: rest' -> split_for_branch cur (List.length pre) cn = (post, ret, c0) ->
  (rest' = [] /\ post = [] /\ ret = cret cur /\ c0 = cn) \/
  (rest' <> [] /\ post = [mk (cn + 1) (cret cur) rest' None] /\ ret = (cn + 1)%Z /\ c0 = (cn + 1)%Z).
Proof.
  intros E H. unfold split_for_branch in H. rewrite E in H. rewrite app_length in H. cbn [List.length] in H.
  destruct (Nat.eqb_spec (List.length pre) (List.length pre + S (List.length rest') - 1)) as [Q|Q].
  - left. inversion H; subst. assert (List.length rest' = 0)%nat by lia. destruct rest'; [auto|discriminate].
  - right. rewrite skipn_app_here in H. inversion H; subst. split; [|auto]. intros ->. cbn in Q. lia.
Qed.

Lemma mk_body_chunks_spec : forall bodies cn ret cs c',
  mk_body_chunks bodies cn ret = (cs, c') ->
  (cn <= c')%Z /\ ids_in cn c' cs /\ NoDup (ids cs) /\ Forall plainchunk cs /\
  tags_rem cs = List.concat (map tags bodies) /\ List.length cs = List.length bodies.
Proof.
  induction bodies as [|b r IH]; intros cn ret cs c' H; cbn in H.
  - inversion H; subst. repeat split; try constructor; lia.
  - destruct (mk_body_chunks r (cn + 1) ret) as [cs1 c1] eqn:E. inversion H; subst.
    destruct (IH _ _ _ _ E) as (A1 & A2 & A3 & A4 & A5 & A6). split; [lia|]. split.
    { constructor; [cbn; lia|eapply ids_in_weaken; [| |exact A2]; lia]. }
    split.
    { cbn. constructor; [|exact A3]. intros I. pose proof (ids_in_In _ _ _ _ A2 I). lia. }
    split; [constructor; [split; reflexivity|exact A4]|]. split; [|cbn; lia].
    unfold tags_rem in *. cbn. rewrite A5. reflexivity.
Qed.

Lemma news_ok_app cn c1 c2 a b : news_ok cn c1 a -> news_ok c1 c2 b -> news_ok cn c2 (a ++ b).
Proof.
  intros (A1 & A2 & A3 & A4) (B1 & B2 & B3 & B4). split; [lia|]. split; [|split].
  - apply ids_in_app. split; [eapply ids_in_weaken; [| |exact A2]; lia|eapply ids_in_weaken; [| |exact B2]; lia].
  - eapply nodup_ranges; eassumption.
  - apply Forall_app. split; assumption.
Qed.
Lemma news_ok_nil cn : news_ok cn cn [].
Proof. split; [lia|]. repeat split; constructor. Qed.
Lemma news_ok_one cn c : cid c = (cn + 1)%Z -> fresh c -> news_ok cn (cn + 1) [c].
Proof.
  intros E F. split; [lia|]. split; [constructor; [lia|constructor]|]. split; [repeat constructor; cbn; tauto|]. constructor; [exact F|constructor].
Qed.
Lemma prebranched_fresh cs : Forall prebranched cs -> Forall fresh cs.
Proof. intros H. eapply Forall_impl; [|exact H]. intros c P. left. exact P. Qed.
Lemma plain_fresh cs : Forall plainchunk cs -> Forall fresh cs.
Proof. intros H. eapply Forall_impl; [|exact H]. intros c P. right. exact P. Qed.
Lemma split_bexp_news e cn su fa fi cs en f2 c2 :
  split_bexp e cn su fa fi = (cs, en, f2, c2) -> (0 <= cn)%Z -> news_ok cn c2 cs.
Proof.
  intros H Hc. destruct (split_bexp_ids _ _ _ _ _ _ _ _ _ H Hc) as (A1 & A2 & A3 & A4 & A5).
  split; [lia|]. split; [exact A2|]. split; [exact A3|apply prebranched_fresh; exact A4].
Qed.
Lemma sfb_news cur pre s rest' cn post ret c0 :
  cstmts cur = pre ++ s :: rest' -> split_for_branch cur (List.length pre) cn = (post, ret, c0) ->
  news_ok cn c0 post /\ tags_rem post = tags rest'.
Proof.
  intros E H. destruct (sfb_spec _ _ _ _ _ _ _ _ E H) as [(-> & -> & -> & ->)|(N & -> & -> & ->)].
  - split; [apply news_ok_nil|reflexivity].
  - split; [apply news_ok_one; [reflexivity|right; split; reflexivity]|]. unfold tags_rem. cbn. now rewrite app_nil_r.
Qed.

(* stitch_elifs *)
Lemma stitch_news : forall rl cn fail cs entry c',
  stitch_elifs rl cn fail = (cs, entry, c') -> (0 <= cn)%Z -> news_ok cn c' cs /\ Forall prebranched cs.
Proof.
  induction rl as [|[e id] r IH]; intros cn fail cs entry c' H Hc; cbn in H.
  - inversion H; subst. split; [apply news_ok_nil|constructor].
  - destruct (split_bexp e cn id fail (-1)) as [[[cs0 x] first] c1] eqn:E0.
    destruct (stitch_elifs r c1 first) as [[cs2 entry2] c2] eqn:E2. inversion H; subst.
    destruct (split_bexp_ids _ _ _ _ _ _ _ _ _ E0 Hc) as (A1 & A2 & A3 & A4 & A5).
    destruct (IH _ _ _ _ _ E2 ltac:(lia)) as [B1 B2]. split.
    + eapply news_ok_app; [eapply split_bexp_news; eassumption|exact B1].
    + apply Forall_app. split; assumption.
Qed.

(* ---------- if ---------- *)
Lemma create_if_unfold e b more els cur i cn :
  create_if ((e, b) :: more) els cur i cn =
  let '(post, ret, c0) := split_for_branch cur i cn in
  let '(bodychunks, c1) := mk_body_chunks (b :: map snd more) c0 ret in
  let '(elsechunk, c2, finalfail) :=
      match els with
      | Some eb => let c := (c1 + 1)%Z in ([mk c ret eb None], c, c)
      | None => ([], c1, ret)
      end in
  let '(cs, entryfail, c3) := stitch_elifs (rev (combine (map fst more) (tl (map cid bodychunks)))) c2 finalfail in
  let '(cs1, _, entry, c4) := split_bexp e c3 (hd 0%Z (map cid bodychunks)) entryfail (-1) in
  (post ++ bodychunks ++ elsechunk ++ cs ++ cs1, BrJump entry, ret, c4).
Proof.
  unfold create_if. destruct (split_for_branch cur i cn) as [[post ret] c0]. cbn [map snd].
  destruct (mk_body_chunks (b :: map snd more) c0 ret) as [bodychunks c1] eqn:EB.
  cbn in EB. destruct (mk_body_chunks (map snd more) (c0 + 1) ret) as [cs' c1']. inversion EB; subst.
  destruct els; cbn [map fst combine cid mk hd tl]; reflexivity.
Qed.

Lemma create_if_news e b more els cur pre rest' cn news br ret c' :
  cstmts cur = pre ++ SIf ((e, b) :: more) els :: rest' ->
  create_if ((e, b) :: more) els cur (List.length pre) cn = (news, br, ret, c') -> (0 <= cn)%Z ->
  news_ok cn c' news /\ Permutation (tags_rem news) (tags_conds ((e, b) :: more) ++ tags_opt els ++ tags rest').
Proof.
  intros E H Hc. rewrite create_if_unfold in H.
  destruct (split_for_branch cur (List.length pre) cn) as [[post ret0] c0] eqn:ES.
  destruct (mk_body_chunks (b :: map snd more) c0 ret0) as [bodychunks c1] eqn:EB.
  destruct (sfb_news _ _ _ _ _ _ _ _ E ES) as [P1 P2].
  destruct (mk_body_chunks_spec _ _ _ _ _ EB) as (B1 & B2 & B3 & B4 & B5 & B6).
  assert (NB : news_ok c0 c1 bodychunks) by (split; [exact B1|split; [exact B2|split; [exact B3|apply plain_fresh; exact B4]]]).
  assert (C0 : (cn <= c0)%Z) by (destruct P1; assumption).
  set (EL := match els with Some eb => let c := (c1 + 1)%Z in ([mk c ret0 eb None], c, c) | None => ([], c1, ret0) end) in H.
  assert (NE : news_ok c1 (snd (fst EL)) (fst (fst EL)) /\ tags_rem (fst (fst EL)) = tags_opt els).
  { subst EL. destruct els as [eb|]; cbn.
    - split; [apply news_ok_one; [reflexivity|right; split; reflexivity]|]. unfold tags_rem. cbn. now rewrite app_nil_r.
    - split; [apply news_ok_nil|reflexivity]. }
  destruct EL as [[elsechunk c2] finalfail]. cbn [fst snd] in NE. destruct NE as [NE1 NE2].
  assert (C2 : (c1 <= c2)%Z) by (destruct NE1; assumption).
  destruct (stitch_elifs (rev (combine (map fst more) (tl (map cid bodychunks)))) c2 finalfail) as [[cs entryfail] c3] eqn:EST.
  destruct (stitch_news _ _ _ _ _ _ EST ltac:(lia)) as [S1 S2].
  assert (C3 : (c2 <= c3)%Z) by (destruct S1; assumption).
  destruct (split_bexp e c3 (hd 0%Z (map cid bodychunks)) entryfail (-1)) as [[[cs1 x] entry] c4] eqn:EX.
  pose proof (split_bexp_news _ _ _ _ _ _ _ _ _ EX ltac:(lia)) as X1.
  destruct (split_bexp_ids _ _ _ _ _ _ _ _ _ EX ltac:(lia)) as (_ & _ & _ & X2 & _).
  inversion H; subst. split.
  - eapply news_ok_app; [exact P1|]. eapply news_ok_app; [exact NB|]. eapply news_ok_app; [exact NE1|]. eapply news_ok_app; [exact S1|exact X1].
  - rewrite !tags_rem_app. rewrite (tags_rem_prebranched cs S2), (tags_rem_prebranched cs1 X2), !app_nil_r.
    rewrite P2, B5, NE2. cbn [map List.concat]. unfold tags_conds. cbn [map snd List.concat]. rewrite map_map.
    etransitivity; [apply Permutation_app_comm|]. rewrite <- !app_assoc. reflexivity.
Qed.

Section LOCAL2.
Variable G : list chunk.
Variables B O : tagmap.
Notation stays := (stays G).
Notation obl := (obl G B O).

Lemma sfb_tr cur pre s rest' cn post ret c0 :
  cstmts cur = pre ++ s :: rest' -> split_for_branch cur (List.length pre) cn = (post, ret, c0) ->
  Forall obl post -> tr_rest G B O rest' ret (cret cur).
Proof.
  intros E H F. destruct (sfb_spec _ _ _ _ _ _ _ _ E H) as [(-> & -> & -> & ->)|(N & -> & -> & ->)].
  - constructor.
  - inversion F as [|? ? F1 _]; subst. destruct rest' as [|x r]; [congruence|]. constructor. exact F1.
Qed.

Lemma bodies_tr : forall bodies cn ret cs c',
  mk_body_chunks bodies cn ret = (cs, c') -> Forall obl cs ->
  Forall2 (fun b c => tr_block G B O b (cid c) ret) bodies cs.
Proof.
  induction bodies as [|b r IH]; intros cn ret cs c' H F; cbn in H.
  - inversion H; subst. constructor.
  - destruct (mk_body_chunks r (cn + 1) ret) as [cs1 c1] eqn:E. inversion H; subst. inversion F as [|? ? F1 F2]; subst.
    constructor; [exact F1|eapply IH; eassumption].
Qed.

Definition tproj (x : bexp * list stmt * Z) : bexp * Z := (fst (fst x), snd x).

Lemma stitch_tr : forall (l : list (bexp * list stmt * Z)) cn fail cs entry c' done els r,
  stitch_elifs (map tproj l) cn fail = (cs, entry, c') -> (0 <= cn)%Z -> Forall stays cs ->
  (forall x, In x l -> tr_block G B O (snd (fst x)) (snd x) r) -> tr_chain G B O done els fail r ->
  tr_chain G B O (rev (map fst l) ++ done) els entry r.
Proof.
  induction l as [|[[e b] id] l IH]; intros cn fail cs entry c' done els r H Hc S HB HD; cbn [map tproj fst snd stitch_elifs] in H.
  - inversion H; subst. exact HD.
  - destruct (split_bexp e cn id fail (-1)) as [[[cs0 x] first] c1] eqn:E0.
    destruct (stitch_elifs (map tproj l) c1 first) as [[cs2 entry2] c2] eqn:E2. inversion H; subst.
    apply Forall_app in S. destruct S as [S0 S2].
    destruct (split_bexp_ids _ _ _ _ _ _ _ _ _ E0 Hc) as (A1 & _ & _ & _ & A5). cbn in A5. subst first.
    pose proof (split_bexp_tr G _ _ _ _ _ _ _ _ _ E0 S0) as TC.
    cbn [map fst rev]. rewrite <- app_assoc. cbn [app].
    eapply (IH c1 x _ _ _ ((e, b) :: done)); [exact E2|lia|exact S2| |].
    + intros y I. apply HB. right. exact I.
    + eapply chain_cons; [exact TC| |exact HD]. apply (HB (e, b, id)). left. reflexivity.
Qed.

Lemma combine_tproj : forall (more : list (bexp * list stmt)) (idl : list Z),
  combine (map fst more) idl = map tproj (combine more idl).
Proof. induction more as [|[e b] r IH]; intros [|i idl]; cbn; try reflexivity. now rewrite IH. Qed.
Lemma combine_fst {A C} : forall (a : list A) (b : list C), List.length a = List.length b -> map fst (combine a b) = a.
Proof. induction a as [|x r IH]; intros [|y s] H; cbn in *; try reflexivity; try discriminate. f_equal. apply IH. lia. Qed.

Lemma create_if_tr e b more els cur pre rest' cn news br ret c' :
  cstmts cur = pre ++ SIf ((e, b) :: more) els :: rest' ->
  create_if ((e, b) :: more) els cur (List.length pre) cn = (news, br, ret, c') -> (0 <= cn)%Z ->
  Forall obl news ->
  tr_ctrl G B O (SIf ((e, b) :: more) els) br ret /\ tr_rest G B O rest' ret (cret cur).
Proof.
  intros E H Hc F. rewrite create_if_unfold in H.
  destruct (split_for_branch cur (List.length pre) cn) as [[post ret0] c0] eqn:ES.
  destruct (mk_body_chunks (b :: map snd more) c0 ret0) as [bodychunks c1] eqn:EB.
  destruct (sfb_news _ _ _ _ _ _ _ _ E ES) as [P1 _].
  destruct (mk_body_chunks_spec _ _ _ _ _ EB) as (B1 & _ & _ & B4 & _ & B6).
  assert (C0 : (cn <= c0)%Z) by (destruct P1; assumption).
  set (EL := match els with Some eb => let c := (c1 + 1)%Z in ([mk c ret0 eb None], c, c) | None => ([], c1, ret0) end) in H.
  assert (NE : (c1 <= snd (fst EL))%Z /\
               (Forall obl (fst (fst EL)) -> tr_chain G B O [] els (snd EL) ret0)).
  { subst EL. destruct els as [eb|]; cbn.
    - split; [lia|]. intros Q. inversion Q as [|? ? Q1 _]; subst. apply chain_else. exact Q1.
    - split; [lia|]. intros _. apply chain_none. }
  destruct EL as [[elsechunk c2] finalfail]. cbn [fst snd] in NE. destruct NE as [C2 NE].
  destruct (stitch_elifs (rev (combine (map fst more) (tl (map cid bodychunks)))) c2 finalfail) as [[cs entryfail] c3] eqn:EST.
  destruct (stitch_news _ _ _ _ _ _ EST ltac:(lia)) as [S1 S2].
  assert (C3 : (c2 <= c3)%Z) by (destruct S1; assumption).
  destruct (split_bexp e c3 (hd 0%Z (map cid bodychunks)) entryfail (-1)) as [[[cs1 x] entry] c4] eqn:EX.
  destruct (split_bexp_ids _ _ _ _ _ _ _ _ _ EX ltac:(lia)) as (_ & _ & _ & X2 & X5). cbn in X5. subst entry.
  inversion H; subst. clear H.
  apply Forall_app in F. destruct F as [Fp F]. apply Forall_app in F. destruct F as [Fb F].
  apply Forall_app in F. destruct F as [Fe F]. apply Forall_app in F. destruct F as [Fs Fx].
  split; [|eapply sfb_tr; eassumption].
  pose proof (bodies_tr _ _ _ _ _ EB Fb) as BT.
  destruct bodychunks as [|bc0 bcs]; [inversion BT|]. inversion BT as [|? ? ? ? T0 TM]; subst. cbn [map hd tl cid] in *.
  eapply tcl_if.
  - eapply split_bexp_tr; [exact EX|]. apply (obls_stay G B O); assumption.
  - exact T0.
  - (* the elif chain *)
    rewrite combine_tproj, <- map_rev in EST.
    assert (LEN : List.length more = List.length (map cid bcs)).
    { rewrite map_length. cbn [List.length] in B6. rewrite map_length in B6. lia. }
    pose proof (stitch_tr (rev (combine more (map cid bcs))) c2 finalfail cs entryfail c3 [] els ret EST ltac:(lia)
                  (obls_stay G B O cs S2 Fs)) as ST.
    rewrite <- map_rev, rev_involutive, app_nil_r, (combine_fst more (map cid bcs) LEN) in ST. apply ST; [|apply NE; exact Fe].
    intros y I. apply in_rev in I.
    (* y = (e', b', id) with (b', chunk) related by TM *)
    clear - TM I. revert bcs TM I. induction more as [|[e' b'] r IH]; intros bcs TM I; [destruct I|].
    inversion TM as [|? c ? cs' T1 T2]; subst. cbn in I. destruct I as [<-|I]; [exact T1|]. eapply IH; eassumption.
Qed.
End LOCAL2.

(* ---------- while / do-while ---------- *)
Lemma nodup_ranges2 lo1 hi1 lo2 hi2 a b :
  ids_in lo1 hi1 a -> ids_in lo2 hi2 b -> (hi1 <= lo2 \/ hi2 <= lo1)%Z -> NoDup (ids a) -> NoDup (ids b) -> NoDup (ids (a ++ b)).
Proof.
  intros A B' D Na Nb. unfold ids. rewrite map_app. apply nodup_app_intro; auto.
  intros x I J. pose proof (ids_in_In _ _ _ _ A I). pose proof (ids_in_In _ _ _ _ B' J). lia.
Qed.

Lemma loop_tail_ok c0 body ret en c1 cs :
  (c0 + 2 <= c1)%Z -> ids_in (c0 + 2) c1 cs -> NoDup (ids cs) -> Forall prebranched cs ->
  news_ok c0 c1 (cs ++ [mk (c0 + 2) (c0 + 1) body None; mk (c0 + 1) ret [] (Some (BrJump en))]).
Proof.
  intros Hc I N P. split; [lia|]. split; [|split].
  - apply ids_in_app. split; [eapply ids_in_weaken; [| |exact I]; lia|]. repeat constructor; cbn; lia.
  - apply (nodup_ranges2 (c0 + 2) c1 c0 (c0 + 2)); [exact I|repeat constructor; cbn; lia|right; lia|exact N|].
    cbn. constructor; [cbn; intros [Q|[]]; lia|]. constructor; [intros []|constructor].
  - apply Forall_app. split; [apply prebranched_fresh; exact P|].
    constructor; [right; split; reflexivity|]. constructor; [left; cbn; repeat split; eexists; reflexivity|constructor].
Qed.

Lemma create_while_news tg c body cur pre rest' cn news br ret c' :
  cstmts cur = pre ++ SWhile tg c body :: rest' ->
  create_while c body cur (List.length pre) cn = (news, br, ret, c') -> (0 <= cn)%Z ->
  news_ok cn c' news /\ Permutation (tags_rem news) (tags body ++ tags rest').
Proof.
  intros E H Hc. unfold create_while in H.
  destruct (split_for_branch cur (List.length pre) cn) as [[post ret0] c0] eqn:ES.
  destruct (sfb_news _ _ _ _ _ _ _ _ E ES) as [P1 P2].
  assert (C0 : (cn <= c0)%Z) by (destruct P1; assumption).
  destruct c as [e|].
  - destruct (split_bexp e (c0 + 2) (c0 + 2) ret0 (-1)) as [[[cs x] entry] c1] eqn:EX.
    destruct (split_bexp_ids _ _ _ _ _ _ _ _ _ EX ltac:(lia)) as (X1 & X2 & X3 & X4 & _). inversion H; subst. split.
    + eapply news_ok_app; [exact P1|]. apply loop_tail_ok; try assumption; lia.
    + rewrite !tags_rem_app, P2, (tags_rem_prebranched cs X4). unfold tags_rem. cbn. rewrite !app_nil_r. apply Permutation_app_comm.
  - inversion H; subst. split.
    + eapply news_ok_app; [exact P1|]. apply (loop_tail_ok c0 body ret (c0 + 2) (c0 + 2) []); try constructor; lia.
    + rewrite !tags_rem_app, P2. unfold tags_rem. cbn. rewrite !app_nil_r. apply Permutation_app_comm.
Qed.

Lemma create_dowhile_news tg body e cur pre rest' cn news br ret c' :
  cstmts cur = pre ++ SDoWhile tg body e :: rest' ->
  create_dowhile body e cur (List.length pre) cn = (news, br, ret, c') -> (0 <= cn)%Z ->
  news_ok cn c' news /\ Permutation (tags_rem news) (tags body ++ tags rest').
Proof.
  intros E H Hc. unfold create_dowhile in H.
  destruct (split_for_branch cur (List.length pre) cn) as [[post ret0] c0] eqn:ES.
  destruct (sfb_news _ _ _ _ _ _ _ _ E ES) as [P1 P2].
  assert (C0 : (cn <= c0)%Z) by (destruct P1; assumption).
  destruct (split_bexp e (c0 + 2) (c0 + 2) ret0 (-1)) as [[[cs x] entry] c1] eqn:EX.
  destruct (split_bexp_ids _ _ _ _ _ _ _ _ _ EX ltac:(lia)) as (X1 & X2 & X3 & X4 & _). inversion H; subst. split.
  - eapply news_ok_app; [exact P1|]. apply loop_tail_ok; try assumption; lia.
  - rewrite !tags_rem_app, P2, (tags_rem_prebranched cs X4). unfold tags_rem. cbn. rewrite !app_nil_r. apply Permutation_app_comm.
Qed.

Section LOCAL3.
Variable G : list chunk.
Variables B O : tagmap.
Notation stays := (stays G).
Notation obl := (obl G B O).

Lemma create_while_tr tg c body cur pre rest' cn news br ret c' :
  cstmts cur = pre ++ SWhile tg c body :: rest' ->
  create_while c body cur (List.length pre) cn = (news, br, ret, c') -> (0 <= cn)%Z ->
  Forall obl news ->
  tm_get B tg = Some ret -> tm_get O tg = Some (match br with BrJump d => d | _ => 0%Z end) ->
  tr_ctrl G B O (SWhile tg c body) br ret /\ tr_rest G B O rest' ret (cret cur).
Proof.
  intros E H Hc F TB TO. unfold create_while in H.
  destruct (split_for_branch cur (List.length pre) cn) as [[post ret0] c0] eqn:ES.
  destruct (sfb_news _ _ _ _ _ _ _ _ E ES) as [P1 _].
  assert (C0 : (cn <= c0)%Z) by (destruct P1; assumption).
  destruct c as [e|].
  - destruct (split_bexp e (c0 + 2) (c0 + 2) ret0 (-1)) as [[[cs x] entry] c1] eqn:EX.
    destruct (split_bexp_ids _ _ _ _ _ _ _ _ _ EX ltac:(lia)) as (_ & _ & _ & X4 & X5). cbn in X5. subst entry.
    inversion H; subst. clear H. cbn in TO.
    apply Forall_app in F. destruct F as [Fp F]. apply Forall_app in F. destruct F as [Fc F].
    inversion F as [|? ? Fb F']; subst. inversion F' as [|? ? Fh _]; subst.
    split; [|eapply sfb_tr; eassumption].
    apply tcl_while. eapply tr_while_intro with (ch := mk (c0 + 1) ret [] (Some (BrJump x))) (en := x) (bb := (c0 + 2)%Z);
      [exact Fh|reflexivity|reflexivity| |exact Fb|exact TB|exact TO].
    eapply split_bexp_tr; [exact EX|]. apply (obls_stay G B O); assumption.
  - inversion H; subst. clear H. cbn in TO.
    apply Forall_app in F. destruct F as [Fp F]. inversion F as [|? ? Fb F']; subst. inversion F' as [|? ? Fh _]; subst.
    split; [|eapply sfb_tr; eassumption].
    apply tcl_while. eapply tr_while_intro with (ch := mk (c0 + 1) ret [] (Some (BrJump (c0 + 2)))) (en := (c0 + 2)%Z) (bb := (c0 + 2)%Z);
      [exact Fh|reflexivity|reflexivity|reflexivity|exact Fb|exact TB|exact TO].
Qed.

Lemma create_dowhile_tr tg body e cur pre rest' cn news br ret c' :
  cstmts cur = pre ++ SDoWhile tg body e :: rest' ->
  create_dowhile body e cur (List.length pre) cn = (news, br, ret, c') -> (0 <= cn)%Z ->
  Forall obl news ->
  tm_get B tg = Some ret -> tm_get O tg = Some (match br with BrJump d => d | _ => 0%Z end) ->
  tr_ctrl G B O (SDoWhile tg body e) br ret /\ tr_rest G B O rest' ret (cret cur).
Proof.
  intros E H Hc F TB TO. unfold create_dowhile in H.
  destruct (split_for_branch cur (List.length pre) cn) as [[post ret0] c0] eqn:ES.
  destruct (sfb_news _ _ _ _ _ _ _ _ E ES) as [P1 _].
  assert (C0 : (cn <= c0)%Z) by (destruct P1; assumption).
  destruct (split_bexp e (c0 + 2) (c0 + 2) ret0 (-1)) as [[[cs x] entry] c1] eqn:EX.
  destruct (split_bexp_ids _ _ _ _ _ _ _ _ _ EX ltac:(lia)) as (_ & _ & _ & X4 & X5). cbn in X5. subst entry.
  inversion H; subst. clear H. cbn in TO.
  apply Forall_app in F. destruct F as [Fp F]. apply Forall_app in F. destruct F as [Fc F].
  inversion F as [|? ? Fb F']; subst. inversion F' as [|? ? Fh _]; subst.
  split; [|eapply sfb_tr; eassumption].
  eapply tcl_dowhile. eapply tr_dowhile_intro with (ch := mk (c0 + 1) ret [] (Some (BrJump x))) (en := x);
    [exact Fh|reflexivity|reflexivity| |exact Fb|exact TB|exact TO].
  eapply split_bexp_tr; [exact EX|]. apply (obls_stay G B O); assumption.
Qed.
End LOCAL3.

(* ---------- switch: the case loop, restated on the suffix still to be processed ---------- *)
Definition case_entry (id : Z) (c : scase) : list (text * Z * Z) := if sc_def c then [] else [(sc_val c, sc_line c, id)].

Fixpoint sw_suf (fuel : nat) (suf : list scase) (ret : Z) (st : swst) : swst * bool :=
  match fuel with
  | O => (st, false)
  | S f =>
      match suf with
      | [] => (st, false)
      | c :: r =>
          match sc_body c with
          | _ :: _ =>
              let id := (sw_counter st + 1)%Z in
              sw_suf f r ret {| sw_new := sw_new st ++ [mk id ret (sc_body c) None];
                                sw_cases := sw_cases st ++ case_entry id c;
                                sw_def := if sc_def c then Some id else sw_def st;
                                sw_counter := id |}
          | [] =>
              match find_bodied r 0 with
              | Some (k, cj) =>
                  let id := (sw_counter st + 1)%Z in
                  let shared := c :: firstn k r in
                  sw_suf f (skipn (S k) r) ret
                         {| sw_new := sw_new st ++ [mk id ret (sc_body cj) None];
                            sw_cases := sw_cases st ++ flat_map (case_entry id) shared ++ case_entry id cj;
                            sw_def := if sc_def cj || existsb sc_def shared then Some id else sw_def st;
                            sw_counter := id |}
              | None =>
                  match sw_cases st, sw_def st with
                  | [], None => (st, true)
                  | _, None => (st, false)
                  | _, Some _ =>
                      let id := (sw_counter st + 1)%Z in
                      ({| sw_new := sw_new st ++ [mk id ret [] None];
                          sw_cases := sw_cases st ++ flat_map (case_entry id) suf;
                          sw_def := sw_def st;
                          sw_counter := id |}, false)
                  end
              end
          end
      end
  end.

Lemma find_bodied_shift : forall cs a, find_bodied cs a = match find_bodied cs 0 with Some (k, c) => Some ((k + a)%nat, c) | None => None end.
Proof.
  induction cs as [|c r IH]; intros a; cbn; [reflexivity|]. destruct (sc_body c).
  - rewrite (IH (S a)), (IH 1%nat). destruct (find_bodied r 0) as [[k x]|]; [|reflexivity]. f_equal. f_equal. lia.
  - reflexivity.
Qed.

Lemma skipn_nth {A} : forall (l : list A) i x, nth_error l i = Some x -> skipn i l = x :: skipn (S i) l.
Proof. induction l as [|a l IH]; intros [|i] x H; cbn in *; try discriminate; [inversion H; reflexivity|]. apply IH. exact H. Qed.
Lemma skipn_none {A} : forall (l : list A) i, nth_error l i = None -> skipn i l = [].
Proof. induction l as [|a l IH]; intros [|i] H; cbn in *; try discriminate; auto. Qed.
Lemma skipn_skipn' {A} : forall a b (l : list A), skipn a (skipn b l) = skipn (a + b) l.
Proof. intros a b; revert a. induction b as [|b IH]; intros a l; [now rewrite Nat.add_0_r|]. destruct l; [now rewrite !skipn_nil|]. cbn [skipn]. rewrite IH. replace (a + S b)%nat with (S (a + b)) by lia. reflexivity. Qed.

Lemma sw_loop_suf : forall f all i ret st, sw_loop f all i ret st = sw_suf f (skipn i all) ret st.
Proof.
  induction f as [|f IH]; intros all i ret st; [reflexivity|]. cbn [sw_loop sw_suf].
  destruct (nth_error all i) as [c|] eqn:N.
  - rewrite (skipn_nth _ _ _ N). destruct (sc_body c) as [|s0 b0] eqn:Bc.
    + rewrite (find_bodied_shift (skipn (S i) all) (S i)).
      destruct (find_bodied (skipn (S i) all) 0) as [[k cj]|] eqn:FB.
      * rewrite IH. replace (k + S i - i)%nat with (S k) by lia. cbn [firstn].
        rewrite skipn_skipn'. replace (S k + S i)%nat with (S (k + S i)) by lia.
        unfold case_entry. cbn [flat_map]. reflexivity.
      * unfold case_entry. reflexivity.
    + rewrite IH. unfold case_entry. destruct (sc_def c); [rewrite app_nil_r|]; reflexivity.
  - rewrite (skipn_none _ _ N). reflexivity.
Qed.

(* ---------- facts about the switch selection spec ---------- *)
Definition emptyb (c : scase) : Prop := sc_body c = [].
Definition matches (m : text -> bool) (x : scase) : bool := negb (sc_def x) && m (sc_val x).

Lemma find_bodied_none : forall r a, find_bodied r a = None -> Forall emptyb r.
Proof. induction r as [|c r IH]; intros a H; [constructor|]. cbn in H. destruct (sc_body c) eqn:E; [|discriminate]. constructor; [exact E|eapply IH; exact H]. Qed.

Lemma find_bodied_some : forall r k cj, find_bodied r 0 = Some (k, cj) ->
  exists E r', r = E ++ cj :: r' /\ Forall emptyb E /\ sc_body cj <> [] /\ List.length E = k.
Proof.
  induction r as [|c r IH]; intros k cj H; cbn in H; [discriminate|]. destruct (sc_body c) eqn:E.
  - rewrite find_bodied_shift in H. destruct (find_bodied r 0) as [[k' x]|] eqn:F; [|discriminate]. inversion H; subst.
    destruct (IH _ _ eq_refl) as (E' & r' & -> & A & B' & C). exists (c :: E'), r'. repeat split; auto. cbn. lia.
  - inversion H; subst. exists [], r. repeat split; auto. congruence.
Qed.

Lemma next_body_group E cj r' : Forall emptyb E -> sc_body cj <> [] -> next_body (E ++ cj :: r') = sc_body cj.
Proof.
  induction 1 as [|x E H _ IH]; intros N; cbn.
  - destruct (sc_body cj); [congruence|reflexivity].
  - rewrite H. apply IH. exact N.
Qed.
Lemma next_body_empties T : Forall emptyb T -> next_body T = [].
Proof. induction 1 as [|x T H _ IH]; [reflexivity|]. cbn. rewrite H. exact IH. Qed.

(* a list all of whose non-empty suffixes have the same next body *)
Definition uniform (L : list scase) (b : list stmt) : Prop := forall L1 x L2, L = L1 ++ x :: L2 -> next_body (x :: L2) = b.
Lemma uniform_cons x L b : uniform (x :: L) b -> next_body (x :: L) = b /\ uniform L b.
Proof. intros U. split; [apply (U [] x L); reflexivity|]. intros L1 y L2 E. apply (U (x :: L1) y L2). rewrite E. reflexivity. Qed.
Lemma uniform_group E cj : Forall emptyb E -> sc_body cj <> [] -> uniform (E ++ [cj]) (sc_body cj).
Proof.
  intros HE N L1 x L2 Q. revert L1 Q. induction HE as [|e E He HE' IH]; intros L1 Q.
  - destruct L1 as [|y L1]; cbn in Q.
    + inversion Q; subst. cbn. destruct (sc_body x); [congruence|reflexivity].
    + inversion Q as [[Q1 Q2]]. destruct L1; discriminate.
  - destruct L1 as [|y L1]; cbn in Q.
    + inversion Q; subst. change (x :: E ++ [cj]) with ((x :: E) ++ cj :: []). apply next_body_group; [constructor; assumption|exact N].
    + inversion Q as [[Q1 Q2]]. apply (IH L1). exact Q2.
Qed.
Lemma uniform_empties T : Forall emptyb T -> uniform T [].
Proof.
  intros HT L1 x L2 Q. apply next_body_empties. subst T. apply Forall_app in HT. destruct HT as [_ H]. exact H.
Qed.

Lemma select_match_uniform L b m : uniform L b -> select_match L m = if existsb (matches m) L then Some b else None.
Proof.
  induction L as [|x L IH]; intros U; [reflexivity|]. destruct (uniform_cons _ _ _ U) as [U1 U2]. cbn [select_match existsb]. unfold matches at 1.
  destruct (negb (sc_def x) && m (sc_val x)); [now rewrite U1|]. cbn [orb]. apply IH. exact U2.
Qed.
Lemma select_default_uniform L b : uniform L b -> select_default L = if existsb sc_def L then Some b else None.
Proof.
  induction L as [|x L IH]; intros U; [reflexivity|]. destruct (uniform_cons _ _ _ U) as [U1 U2]. cbn [select_default existsb].
  destruct (sc_def x); [now rewrite U1|]. cbn [orb]. apply IH. exact U2.
Qed.
Lemma first_case_entries id L m : first_case (flat_map (case_entry id) L) m = if existsb (matches m) L then Some id else None.
Proof.
  induction L as [|x L IH]; [reflexivity|]. cbn [flat_map existsb]. unfold case_entry at 1, matches at 1. destruct (sc_def x); cbn [negb andb orb app].
  - exact IH.
  - cbn [first_case]. destruct (m (sc_val x)); [reflexivity|exact IH].
Qed.
Lemma first_case_app a b m : first_case (a ++ b) m = match first_case a m with Some d => Some d | None => first_case b m end.
Proof. induction a as [|[[v l] d] a IH]; [reflexivity|]. cbn. destruct (m v); [reflexivity|exact IH]. Qed.

(* prefixes that end with a case that has a body *)
Fixpoint closedb (P : list scase) : bool :=
  match P with [] => true | c :: r => match r with [] => match sc_body c with [] => false | _ => true end | _ => closedb r end end.
Lemma closedb_snoc P c : sc_body c <> [] -> closedb (P ++ [c]) = true.
Proof. intros N. induction P as [|x P IH]; cbn; [destruct (sc_body c); congruence|]. destruct (P ++ [c]) eqn:E; [destruct P; discriminate|]. exact IH. Qed.
Lemma closedb_app P Q : Q <> [] -> closedb Q = true -> closedb (P ++ Q) = true.
Proof. intros N C. induction P as [|x P IH]; [exact C|]. cbn. destruct (P ++ Q) eqn:E; [destruct P; [cbn in E; congruence|discriminate]|]. exact IH. Qed.
Lemma next_body_closed P S : P <> [] -> closedb P = true -> next_body (P ++ S) = next_body P.
Proof.
  induction P as [|x P IH]; intros N C; [congruence|]. cbn. destruct (sc_body x) eqn:B; [|reflexivity].
  destruct P as [|y P]; [cbn in C; rewrite B in C; discriminate|]. apply IH; [discriminate|exact C].
Qed.
Lemma select_match_closed P S m : closedb P = true ->
  select_match (P ++ S) m = match select_match P m with Some b => Some b | None => select_match S m end.
Proof.
  induction P as [|x P IH]; intros C; [reflexivity|]. cbn [app select_match].
  destruct (negb (sc_def x) && m (sc_val x)).
  - f_equal. apply (next_body_closed (x :: P) S); [discriminate|exact C].
  - apply IH. destruct P; [reflexivity|exact C].
Qed.
Lemma select_default_closed P S : closedb P = true ->
  select_default (P ++ S) = match select_default P with Some b => Some b | None => select_default S end.
Proof.
  induction P as [|x P IH]; intros C; [reflexivity|]. cbn [app select_default].
  destruct (sc_def x).
  - f_equal. apply (next_body_closed (x :: P) S); [discriminate|exact C].
  - apply IH. destruct P; [reflexivity|exact C].
Qed.
Definition ndef (L : list scase) : nat := List.length (filter sc_def L).
Lemma ndef_app a b : ndef (a ++ b) = (ndef a + ndef b)%nat.
Proof. unfold ndef. now rewrite filter_app, app_length. Qed.
Lemma ndef_zero L : ndef L = 0%nat -> existsb sc_def L = false.
Proof. induction L as [|x L IH]; [reflexivity|]. unfold ndef in *. cbn. destruct (sc_def x); cbn; [discriminate|exact IH]. Qed.
Lemma ndef_pos L : existsb sc_def L = true -> (1 <= ndef L)%nat.
Proof. induction L as [|x L IH]; [discriminate|]. unfold ndef in *. cbn. destruct (sc_def x); cbn; [lia|exact IH]. Qed.
Lemma select_default_none L : ndef L = 0%nat -> select_default L = None.
Proof. induction L as [|x L IH]; [reflexivity|]. unfold ndef in *. cbn. destruct (sc_def x); cbn; [discriminate|exact IH]. Qed.

(* ---------- the case loop implements the selection spec ---------- *)
Section SW.
Variable ret : Z.
Definition hasb (st : swst) (b : list stmt) (d : Z) : Prop := In (mk d ret b None) (sw_new st).
Definition tok (st : swst) (b : list stmt) (fc : option Z) (def : option Z) : Prop :=
  match fc, def with
  | Some d, _ => hasb st b d
  | None, Some dd => hasb st b dd
  | None, None => b = []
  end.

Record Pre (P : list scase) (st : swst) : Prop := {
  pre_match : forall m, match select_match P m with
                        | Some b => exists d, first_case (sw_cases st) m = Some d /\ hasb st b d
                        | None => first_case (sw_cases st) m = None
                        end;
  pre_def : match select_default P with
            | Some b => exists dd, sw_def st = Some dd /\ hasb st b dd
            | None => sw_def st = None
            end;
  pre_closed : closedb P = true;
  pre_empty : sw_cases st = [] -> sw_def st = None -> P = [] }.

Definition group_st (st : swst) (id : Z) (Grp : list scase) (b : list stmt) : swst :=
  {| sw_new := sw_new st ++ [mk id ret b None];
     sw_cases := sw_cases st ++ flat_map (case_entry id) Grp;
     sw_def := if existsb sc_def Grp then Some id else sw_def st;
     sw_counter := id |}.

Lemma select_default_some_ndef P b : select_default P = Some b -> (1 <= ndef P)%nat.
Proof. intros H. destruct (ndef P) eqn:E; [rewrite (select_default_none P E) in H; discriminate|lia]. Qed.

Lemma group_step P st E' cj id :
  Pre P st -> Forall emptyb E' -> sc_body cj <> [] -> (ndef (P ++ E' ++ [cj]) <= 1)%nat ->
  Pre (P ++ E' ++ [cj]) (group_st st id (E' ++ [cj]) (sc_body cj)).
Proof.
  intros [PM PD PC PE] HE N ND. pose proof (uniform_group E' cj HE N) as U.
  assert (MONO : forall b d, hasb st b d -> hasb (group_st st id (E' ++ [cj]) (sc_body cj)) b d).
  { intros b d H. unfold hasb, group_st. cbn. apply in_or_app. left. exact H. }
  assert (NEW : hasb (group_st st id (E' ++ [cj]) (sc_body cj)) (sc_body cj) id).
  { unfold hasb, group_st. cbn. apply in_or_app. right. left. reflexivity. }
  constructor.
  - intros m. rewrite (select_match_closed P _ m PC). cbn [group_st sw_cases]. rewrite first_case_app. specialize (PM m).
    destruct (select_match P m) as [b|].
    + destruct PM as (d & F & H). rewrite F. exists d. split; [reflexivity|apply MONO; exact H].
    + rewrite PM. rewrite (select_match_uniform _ _ m U), first_case_entries.
      destruct (existsb (matches m) (E' ++ [cj])); [exists id; split; [reflexivity|exact NEW]|reflexivity].
  - rewrite (select_default_closed P _ PC). cbn [group_st sw_def]. rewrite ndef_app in ND.
    destruct (select_default P) as [b|] eqn:SD.
    + destruct PD as (dd & F & H). pose proof (select_default_some_ndef P b SD).
      rewrite (ndef_zero (E' ++ [cj])) by lia. exists dd. split; [exact F|apply MONO; exact H].
    + rewrite (select_default_uniform _ _ U). destruct (existsb sc_def (E' ++ [cj])); [exists id; split; [reflexivity|exact NEW]|exact PD].
  - apply closedb_app; [destruct E'; discriminate|apply closedb_snoc; exact N].
  - cbn [group_st sw_cases sw_def]. intros C D. exfalso. rewrite flat_map_app in C. cbn [flat_map] in C. rewrite existsb_app in D. cbn [existsb] in D.
    unfold case_entry at 2 in C. destruct (sc_def cj).
    + rewrite orb_true_r in D. discriminate.
    + apply app_eq_nil in C. destruct C as [_ C]. apply app_eq_nil in C. destruct C as [_ C]. discriminate.
Qed.

Lemma sw_suf_spec : forall f S P st st' el,
  sw_suf f S ret st = (st', el) -> (List.length S < f)%nat -> Pre P st -> (ndef (P ++ S) <= 1)%nat ->
  (el = true -> forall m, select_case (P ++ S) m = []) /\
  (el = false -> forall m, tok st' (select_case (P ++ S) m) (first_case (sw_cases st') m) (sw_def st')).
Proof.
  induction f as [|f IH]; intros S P st st' el H L PRE ND; [lia|].
  destruct S as [|c r].
  - (* nothing left *)
    cbn in H. inversion H; subst. split; [discriminate|]. intros _ m. rewrite app_nil_r. unfold select_case, tok.
    destruct PRE as [PM PD _ _]. specialize (PM m). destruct (select_match P m) as [b|].
    + destruct PM as (d & F & Hh). rewrite F. exact Hh.
    + rewrite PM. destruct (select_default P) as [b|].
      * destruct PD as (dd & F & Hh). rewrite F. exact Hh.
      * rewrite PD. reflexivity.
  - cbn [sw_suf] in H. cbn [List.length] in L. destruct (sc_body c) as [|s0 b0] eqn:Bc.
    + destruct (find_bodied r 0) as [[k cj]|] eqn:FB.
      * (* empty cases sharing the next body *)
        destruct (find_bodied_some _ _ _ FB) as (E & r' & -> & HE & N & LEN).
        assert (F1 : firstn k (E ++ cj :: r') = E) by (rewrite <- LEN; apply firstn_app_here).
        assert (F2 : skipn (S k) (E ++ cj :: r') = r') by (rewrite <- LEN; apply skipn_app_here).
        rewrite F1, F2 in H.
        assert (EQ : {| sw_new := sw_new st ++ [mk (sw_counter st + 1) ret (sc_body cj) None];
                        sw_cases := sw_cases st ++ flat_map (case_entry (sw_counter st + 1)) (c :: E) ++ case_entry (sw_counter st + 1) cj;
                        sw_def := if sc_def cj || existsb sc_def (c :: E) then Some (sw_counter st + 1)%Z else sw_def st;
                        sw_counter := (sw_counter st + 1)%Z |} = group_st st (sw_counter st + 1) ((c :: E) ++ [cj]) (sc_body cj)).
        { unfold group_st. f_equal.
          - rewrite flat_map_app. cbn [flat_map]. rewrite app_nil_r. reflexivity.
          - rewrite existsb_app. cbn [existsb]. rewrite orb_false_r, orb_comm. reflexivity. }
        rewrite EQ in H.
        assert (AS : P ++ c :: E ++ cj :: r' = (P ++ (c :: E) ++ [cj]) ++ r') by (rewrite <- !app_assoc; reflexivity).
        rewrite AS. rewrite AS in ND. eapply IH; [exact H| | |exact ND].
        -- rewrite app_length in L. cbn [List.length] in L. lia.
        -- apply group_step; [exact PRE|constructor; [exact Bc|exact HE]|exact N|]. rewrite ndef_app in ND. lia.
      * (* trailing cases without a body *)
        pose proof (find_bodied_none _ _ FB) as HR. assert (HT : Forall emptyb (c :: r)) by (constructor; assumption).
        pose proof (uniform_empties _ HT) as U. destruct PRE as [PM PD PC PE].
        assert (SM : forall m, select_match (P ++ c :: r) m = match select_match P m with Some b => Some b | None => if existsb (matches m) (c :: r) then Some [] else None end).
        { intros m. rewrite (select_match_closed P _ m PC). rewrite (select_match_uniform _ _ m U). reflexivity. }
        assert (SDF : select_default (P ++ c :: r) = match select_default P with Some b => Some b | None => if existsb sc_def (c :: r) then Some [] else None end).
        { rewrite (select_default_closed P _ PC). rewrite (select_default_uniform _ _ U). reflexivity. }
        destruct (sw_def st) as [dd|] eqn:DS.
        -- (* a default exists: explicit exit chunk for the trailing values *)
           assert (H' : ({| sw_new := sw_new st ++ [mk (sw_counter st + 1) ret [] None];
                           sw_cases := sw_cases st ++ flat_map (case_entry (sw_counter st + 1)) (c :: r);
                           sw_def := Some dd; sw_counter := (sw_counter st + 1)%Z |}, false) = (st', el)) by (destruct (sw_cases st); exact H).
           inversion H'; subst. clear H H'. split; [discriminate|]. intros _ m. unfold select_case, tok. rewrite SM, SDF. cbn [sw_cases sw_def].
           change (case_entry (sw_counter st + 1) c ++ flat_map (case_entry (sw_counter st + 1)) r) with (flat_map (case_entry (sw_counter st + 1)) (c :: r)).
           rewrite first_case_app, first_case_entries. specialize (PM m). destruct (select_match P m) as [b|].
           ++ destruct PM as (d & F & Hh). rewrite F. unfold hasb. cbn. apply in_or_app. left. exact Hh.
           ++ rewrite PM. destruct (existsb (matches m) (c :: r)).
              ** unfold hasb. cbn. apply in_or_app. right. left. reflexivity.
              ** destruct (select_default P) as [b|]; [|rewrite PD in DS; discriminate].
                 destruct PD as (dd' & F & Hh). inversion F; subst dd'. unfold hasb. cbn. apply in_or_app. left. exact Hh.
        -- destruct (sw_cases st) as [|e0 es] eqn:CS.
           ++ (* nothing has a body: the switch is elided *)
              inversion H; subst. split; [|discriminate]. intros _ m. rewrite (PE eq_refl eq_refl). cbn [app].
              apply (Check.all_empty_select). rewrite forallb_forall. intros x Hx. rewrite Forall_forall in HT. rewrite (HT x Hx). reflexivity.
           ++ inversion H; subst. split; [discriminate|]. intros _ m. unfold select_case, tok. rewrite SM, SDF, DS. specialize (PM m).
              destruct (select_match P m) as [b|].
              ** destruct PM as (d & F & Hh). rewrite CS, F. exact Hh.
              ** rewrite CS, PM. destruct (select_default P) as [b|]; [destruct PD as (dd' & F & _); discriminate|].
                 destruct (existsb (matches m) (c :: r)); [reflexivity|]. destruct (existsb sc_def (c :: r)); reflexivity.
    + (* a case with a body *)
      assert (EQ : {| sw_new := sw_new st ++ [mk (sw_counter st + 1) ret (s0 :: b0) None];
                      sw_cases := sw_cases st ++ case_entry (sw_counter st + 1) c;
                      sw_def := if sc_def c then Some (sw_counter st + 1)%Z else sw_def st;
                      sw_counter := (sw_counter st + 1)%Z |} = group_st st (sw_counter st + 1) ([] ++ [c]) (sc_body c)).
      { unfold group_st. rewrite Bc. f_equal.
        - cbn [app flat_map]. rewrite app_nil_r. reflexivity.
        - cbn [app existsb]. rewrite orb_false_r. reflexivity. }
      rewrite EQ in H.
      assert (AS : P ++ c :: r = (P ++ [] ++ [c]) ++ r) by (rewrite <- !app_assoc; reflexivity).
      rewrite AS. rewrite AS in ND. eapply IH; [exact H|lia| |exact ND].
      apply group_step; [exact PRE|constructor|rewrite Bc; discriminate|]. rewrite ndef_app in ND. lia.
Qed.
End SW.

Lemma tags_cases_app a b : tags_cases (a ++ b) = tags_cases a ++ tags_cases b.
Proof. unfold tags_cases. now rewrite map_app, List.concat_app. Qed.
Lemma tags_cases_empties T : Forall emptyb T -> tags_cases T = [].
Proof. induction 1 as [|x T H _ IH]; [reflexivity|]. unfold tags_cases in *. cbn. rewrite H, IH. reflexivity. Qed.

Lemma sw_suf_news ret : forall f S st st' el,
  sw_suf f S ret st = (st', el) -> (List.length S < f)%nat ->
  exists extra, sw_new st' = sw_new st ++ extra /\ (sw_counter st <= sw_counter st')%Z /\
    ids_in (sw_counter st) (sw_counter st') extra /\ NoDup (ids extra) /\ Forall plainchunk extra /\
    tags_rem extra = tags_cases S.
Proof.
  induction f as [|f IH]; intros S st st' el H L; [lia|].
  assert (ONE : forall st1 S1 b, sw_suf f S1 ret st1 = (st', el) -> (List.length S1 < f)%nat ->
                 sw_new st1 = sw_new st ++ [mk (sw_counter st + 1) ret b None] -> sw_counter st1 = (sw_counter st + 1)%Z ->
                 exists extra, sw_new st' = sw_new st ++ extra /\ (sw_counter st <= sw_counter st')%Z /\
                   ids_in (sw_counter st) (sw_counter st') extra /\ NoDup (ids extra) /\ Forall plainchunk extra /\
                   tags_rem extra = tags b ++ tags_cases S1).
  { intros st1 S1 b H1 L1 N1 C1. destruct (IH _ _ _ _ H1 L1) as (ex & A1 & A2 & A3 & A4 & A5 & A6). rewrite C1 in *.
    exists (mk (sw_counter st + 1) ret b None :: ex). split; [rewrite A1, N1, <- app_assoc; reflexivity|]. split; [lia|]. split.
    { constructor; [cbn; lia|eapply ids_in_weaken; [| |exact A3]; lia]. }
    split. { cbn. constructor; [|exact A4]. intros I. pose proof (ids_in_In _ _ _ _ A3 I). lia. }
    split; [constructor; [split; reflexivity|exact A5]|]. unfold tags_rem in *. cbn. rewrite A6. reflexivity. }
  destruct S as [|c r].
  - cbn in H. inversion H; subst. exists []. rewrite app_nil_r. repeat split; try constructor; lia.
  - cbn [sw_suf] in H. cbn [List.length] in L. destruct (sc_body c) as [|s0 b0] eqn:Bc.
    + destruct (find_bodied r 0) as [[k cj]|] eqn:FB.
      * destruct (find_bodied_some _ _ _ FB) as (E & r' & -> & HE & N & LEN).
        assert (F2 : skipn (S k) (E ++ cj :: r') = r') by (rewrite <- LEN; apply skipn_app_here). rewrite F2 in H.
        destruct (ONE _ _ (sc_body cj) H) as (ex & A); [rewrite app_length in L; cbn in L; lia|reflexivity|reflexivity|].
        exists ex. destruct A as (A1 & A2 & A3 & A4 & A5 & A6). repeat split; try assumption. rewrite A6.
        change (c :: E ++ cj :: r') with ((c :: E) ++ cj :: r'). rewrite tags_cases_app, (tags_cases_empties (c :: E)) by (constructor; assumption).
        reflexivity.
      * pose proof (find_bodied_none _ _ FB) as HR. assert (HT : Forall emptyb (c :: r)) by (constructor; assumption).
        rewrite (tags_cases_empties _ HT).
        destruct (sw_def st) as [dd|].
        -- assert (H' : ({| sw_new := sw_new st ++ [mk (sw_counter st + 1) ret [] None];
                           sw_cases := sw_cases st ++ flat_map (case_entry (sw_counter st + 1)) (c :: r);
                           sw_def := Some dd; sw_counter := (sw_counter st + 1)%Z |}, false) = (st', el)) by (destruct (sw_cases st); exact H).
           inversion H'; subst. cbn. exists [mk (sw_counter st + 1) ret [] None]. split; [reflexivity|]. split; [lia|].
           split; [repeat constructor; cbn; lia|]. split; [repeat constructor; cbn; tauto|]. split; [repeat constructor|reflexivity].
        -- assert (H' : st' = st) by (destruct (sw_cases st); inversion H; reflexivity). subst st'.
           exists []. rewrite app_nil_r. repeat split; try constructor; lia.
    + destruct (ONE _ _ (sc_body c) H) as (ex & A); [lia|rewrite Bc; reflexivity|reflexivity|].
      exists ex. destruct A as (A1 & A2 & A3 & A4 & A5 & A6). repeat split; assumption.
Qed.

(* ---------- switch: the create function ---------- *)
Lemma create_switch_news tg op ol cases cur pre rest' cn news br ret c' :
  cstmts cur = pre ++ SSwitch tg op ol cases :: rest' ->
  create_switch op ol cases cur (List.length pre) cn = (news, br, ret, c') -> (0 <= cn)%Z ->
  news_ok cn c' news /\ Permutation (tags_rem news) (tags_cases cases ++ tags rest').
Proof.
  intros E H Hc. unfold create_switch in H.
  destruct (split_for_branch cur (List.length pre) cn) as [[post ret0] c0] eqn:ES.
  destruct (sfb_news _ _ _ _ _ _ _ _ E ES) as [P1 P2].
  assert (C0 : (cn <= c0)%Z) by (destruct P1; assumption).
  cbv zeta in H. rewrite sw_loop_suf in H. change (skipn 0 cases) with cases in H.
  match type of H with context[sw_suf ?a ?b ?c ?d] => destruct (sw_suf a b c d) as [st el] eqn:SW end.
  assert (LL : (List.length cases < S (List.length cases))%nat) by lia.
  destruct (sw_suf_news _ _ _ _ _ _ SW LL) as (ex & A1 & A2 & A3 & A4 & A5 & A6). cbn in A1, A2, A3. inversion H; subst. split.
  - eapply news_ok_app; [exact P1|]. eapply (news_ok_app c0 (c0 + 1) _ [_] (sw_new st)).
    + apply news_ok_one; [reflexivity|]. destruct el; [right; split; reflexivity|left; cbn; repeat split; eexists; reflexivity].
    + split; [lia|]. split; [exact A3|]. split; [exact A4|apply plain_fresh; exact A5].
  - rewrite tags_rem_app, P2. unfold tags_rem at 1. cbn [map List.concat cstmts mk tags app]. fold (tags_rem (sw_new st)). rewrite A6. apply Permutation_app_comm.
Qed.

Section LOCAL4.
Variable G : list chunk.
Variables B O : tagmap.
Notation stays := (stays G).
Notation obl := (obl G B O).

Lemma create_switch_tr tg op ol cases cur pre rest' cn news br ret c' :
  cstmts cur = pre ++ SSwitch tg op ol cases :: rest' ->
  create_switch op ol cases cur (List.length pre) cn = (news, br, ret, c') -> (0 <= cn)%Z ->
  (ndef cases <= 1)%nat ->
  Forall obl news -> tm_get B tg = Some ret ->
  tr_ctrl G B O (SSwitch tg op ol cases) br ret /\ tr_rest G B O rest' ret (cret cur).
Proof.
  intros E H Hc ND F TB. unfold create_switch in H.
  destruct (split_for_branch cur (List.length pre) cn) as [[post ret0] c0] eqn:ES.
  cbv zeta in H. rewrite sw_loop_suf in H. change (skipn 0 cases) with cases in H.
  match type of H with context[sw_suf ?a ?b ?c ?d] => destruct (sw_suf a b c d) as [st el] eqn:SW end.
  assert (PRE0 : Pre ret0 [] {| sw_new := []; sw_cases := []; sw_def := None; sw_counter := (c0 + 1)%Z |}).
  { constructor; cbn; auto. }
  assert (LL : (List.length cases < S (List.length cases))%nat) by lia.
  destruct (sw_suf_spec ret0 _ _ [] _ _ _ SW LL PRE0 ND) as [EL NEL]. cbn [app] in EL, NEL.
  inversion H; subst. clear H.
  apply Forall_app in F. destruct F as [Fp F]. inversion F as [|? ? Fsw Fn]; subst.
  split; [|eapply sfb_tr; eassumption].
  assert (HB : forall b d, hasb ret st b d -> tr_block G B O b d ret).
  { intros b d Hh. unfold hasb in Hh. rewrite Forall_forall in Fn. apply (Fn _ Hh). }
  destruct el.
  - (* elided *)
    unfold Worklist.obl in Fsw. cbn in Fsw. inversion Fsw as [? ? c ? GC TS]; subst.
    assert (C : cstmts c = [] /\ cbr c = None /\ cret c = ret /\ cend c = false).
    { inversion TS; subst.
      - auto.
      - exfalso. match goal with Hx : [] = _ ++ _ |- _ => symmetry in Hx; apply app_eq_nil in Hx; destruct Hx; discriminate
                               | Hx : _ ++ _ = [] |- _ => apply app_eq_nil in Hx; destruct Hx; discriminate end.
      - exfalso. match goal with Hx : [] = _ ++ _ |- _ => symmetry in Hx; apply app_eq_nil in Hx; destruct Hx; discriminate
                               | Hx : _ ++ _ = [] |- _ => apply app_eq_nil in Hx; destruct Hx; discriminate end. }
    destruct C as (C1 & C2 & C3 & C4).
    eapply tcl_switch; [exact GC|exact C1|exact TB|]. apply swi_elided; auto.
  - unfold Worklist.obl, Worklist.stays in Fsw. cbn in Fsw.
    eapply tcl_switch; [exact Fsw|reflexivity|exact TB|].
    eapply swi_switch; [reflexivity|]. intros m. specialize (NEL eq_refl m). unfold tok in NEL.
    destruct (first_case (sw_cases st) m) as [d|].
    + apply sto_case. apply HB. exact NEL.
    + destruct (sw_def st) as [dd|].
      * apply sto_def. apply HB. exact NEL.
      * rewrite NEL. apply sto_none. reflexivity.
Qed.
End LOCAL4.

(* ---------- source well-formedness used by the worklist proof ---------- *)
From Pory Require LabelSim.

(* every 'if' has a first condition (the parser never builds SIf [] _) *)
Fixpoint ifok1b (s : stmt) : bool :=
  let okl := fix okl (ss : list stmt) : bool := match ss with [] => true | x :: r => ifok1b x && okl r end in
  match s with
  | SIf conds els =>
      negb (match conds with [] => true | _ => false end) &&
      (fix go (cs : list (bexp * list stmt)) : bool := match cs with [] => true | (_, b) :: r => okl b && go r end) conds &&
      match els with Some b => okl b | None => true end
  | SWhile _ _ b => okl b
  | SDoWhile _ b _ => okl b
  | SSwitch _ _ _ cases =>
      negb (match cases with [] => true | _ => false end) &&
      (fix go (cs : list scase) : bool := match cs with [] => true | c :: r => okl (sc_body c) && go r end) cases
  | _ => true
  end.
Fixpoint ifokb (ss : list stmt) : bool := match ss with [] => true | x :: r => ifok1b x && ifokb r end.
Definition ifok_local := fix okl (ss : list stmt) : bool := match ss with [] => true | x :: r => ifok1b x && okl r end.
Lemma ifok_local_eq ss : ifok_local ss = ifokb ss.
Proof. induction ss as [|x r IH]; [reflexivity|]. cbn. now rewrite IH. Qed.

Definition subblocks (s : stmt) : list (list stmt) :=
  match s with
  | SIf conds els => map snd conds ++ match els with Some b => [b] | None => [] end
  | SWhile _ _ b => [b]
  | SDoWhile _ b _ => [b]
  | SSwitch _ _ _ cases => map (fun c : scase => sc_body c) cases
  | _ => []
  end.

Lemma ifok1_sub s : ifok1b s = true -> forall b, In b (subblocks s) -> ifokb b = true.
Proof.
  destruct s as [c|nm g tk|conds els|tag c body|tag body c|tag|tag|tag op ol cases]; cbn [subblocks]; try (intros _ b I; contradiction).
  - change (ifok1b (SIf conds els)) with
      (negb (match conds with [] => true | _ => false end) &&
       (fix go (cs : list (bexp * list stmt)) : bool := match cs with [] => true | (_, b) :: r => ifok_local b && go r end) conds &&
       match els with Some b => ifok_local b | None => true end).
    intros H b I. apply andb_prop in H. destruct H as [H H2]. apply andb_prop in H. destruct H as [_ H1]. apply in_app_or in I. destruct I as [I|I].
    + clear H2. induction conds as [|[e b'] r IH]; [destruct I|]. apply andb_prop in H1. destruct H1 as [A B']. destruct I as [<-|I]; [cbn; now rewrite <- ifok_local_eq|auto].
    + destruct els as [eb|]; [|destruct I]. destruct I as [<-|[]]. now rewrite <- ifok_local_eq.
  - change (ifok1b (SWhile tag c body)) with (ifok_local body). intros H b [<-|[]]. rewrite <- ifok_local_eq. exact H.
  - change (ifok1b (SDoWhile tag body c)) with (ifok_local body). intros H b [<-|[]]. rewrite <- ifok_local_eq. exact H.
  - change (ifok1b (SSwitch tag op ol cases)) with
      (negb (match cases with [] => true | _ => false end) &&
       (fix go (cs : list scase) : bool := match cs with [] => true | c :: r => ifok_local (sc_body c) && go r end) cases).
    intros H b I. apply andb_prop in H. destruct H as [_ H].
    induction cases as [|c r IH]; [destruct I|]. apply andb_prop in H. destruct H as [A B']. destruct I as [<-|I]; [now rewrite <- ifok_local_eq|auto].
Qed.
Lemma ifok1_switch tg op ol cases : ifok1b (SSwitch tg op ol cases) = true -> cases <> [].
Proof.
  change (ifok1b (SSwitch tg op ol cases)) with
      (negb (match cases with [] => true | _ => false end) &&
       (fix go (cs : list scase) : bool := match cs with [] => true | c :: r => ifok_local (sc_body c) && go r end) cases).
  intros H. destruct cases; [discriminate|discriminate].
Qed.
Lemma ifok1_if conds els : ifok1b (SIf conds els) = true -> conds <> [].
Proof.
  change (ifok1b (SIf conds els)) with
      (negb (match conds with [] => true | _ => false end) &&
       (fix go (cs : list (bexp * list stmt)) : bool := match cs with [] => true | (_, b) :: r => ifok_local b && go r end) conds &&
       match els with Some b => ifok_local b | None => true end).
  intros H. destruct conds; [discriminate|discriminate].
Qed.

Lemma swf1_sub s : LabelSim.swf1b s = true -> forall b, In b (subblocks s) -> LabelSim.swfb b = true.
Proof.
  destruct s as [c|nm g tk|conds els|tag c body|tag body c|tag|tag|tag op ol cases]; cbn [subblocks]; try (intros _ b I; contradiction).
  - intros H b I. destruct (LabelSim.swf_if _ _ H) as [A B']. apply in_app_or in I. destruct I as [I|I].
    + apply in_map_iff in I. destruct I as ([e b'] & <- & I). rewrite Forall_forall in A. apply (A _ I).
    + destruct els as [eb|]; [|destruct I]. destruct I as [<-|[]]. exact B'.
  - intros H b [<-|[]]. apply (LabelSim.swf_while _ _ _ H).
  - intros H b [<-|[]]. apply (LabelSim.swf_dowhile _ _ _ H).
  - intros H b I. destruct (LabelSim.swf_switch _ _ _ _ H) as [_ A]. apply in_map_iff in I. destruct I as (c & <- & I). rewrite Forall_forall in A. apply (A _ I).
Qed.
Lemma swf1_switch_ndef tg op ol cases : LabelSim.swf1b (SSwitch tg op ol cases) = true -> (ndef cases <= 1)%nat.
Proof.
  intros H. destruct (LabelSim.swf_switch _ _ _ _ H) as [W _]. unfold LabelSim.wf_casesb in W. apply andb_prop in W. destruct W as [_ W].
  apply Nat.leb_le in W. exact W.
Qed.

Definition okb (ss : list stmt) : bool := LabelSim.swfb ss && ifokb ss.
Lemma okb_nil : okb [] = true. Proof. reflexivity. Qed.
Lemma swfb_app a b : LabelSim.swfb (a ++ b) = LabelSim.swfb a && LabelSim.swfb b.
Proof. induction a as [|x r IH]; [reflexivity|]. cbn. rewrite IH. now rewrite andb_assoc. Qed.
Lemma ifokb_app a b : ifokb (a ++ b) = ifokb a && ifokb b.
Proof. induction a as [|x r IH]; [reflexivity|]. cbn. rewrite IH. now rewrite andb_assoc. Qed.
Lemma okb_app a b : okb (a ++ b) = true -> okb a = true /\ okb b = true.
Proof.
  unfold okb. rewrite swfb_app, ifokb_app. rewrite !andb_true_iff. tauto.
Qed.
Lemma okb_cons x r : okb (x :: r) = true -> LabelSim.swf1b x = true /\ ifok1b x = true /\ okb r = true.
Proof. unfold okb. cbn. rewrite !andb_true_iff. tauto. Qed.
Lemma ok_sub x b : LabelSim.swf1b x = true -> ifok1b x = true -> In b (subblocks x) -> okb b = true.
Proof. intros A B' I. unfold okb. rewrite (swf1_sub x A b I), (ifok1_sub x B' b I). reflexivity. Qed.
Lemma tags1_sub s : exists own, tags1 s = own ++ List.concat (map tags (subblocks s)) /\
  match s with SWhile tg _ _ | SDoWhile tg _ _ | SSwitch tg _ _ _ => own = [tg] | _ => own = [] end.
Proof.
  destruct s as [c|nm g tk|conds els|tag c body|tag body c|tag|tag|tag op ol cases]; cbn [subblocks]; try (exists []; split; reflexivity).
  - exists []. split; [|reflexivity]. rewrite tags1_if. cbn [app]. rewrite map_app, List.concat_app. unfold tags_conds. rewrite map_map. f_equal.
    destruct els; cbn; [now rewrite app_nil_r|reflexivity].
  - exists [tag]. split; [|reflexivity]. rewrite tags1_while. cbn. now rewrite app_nil_r.
  - exists [tag]. split; [|reflexivity]. rewrite tags1_dowhile. cbn. now rewrite app_nil_r.
  - exists [tag]. split; [|reflexivity]. rewrite tags1_switch. cbn. unfold tags_cases. rewrite map_map. reflexivity.
Qed.

(* ---------- where the statements of new chunks come from ---------- *)
Definition from (allowed : list (list stmt)) (c : chunk) : Prop := cstmts c = [] \/ In (cstmts c) allowed.
Lemma from_incl A1 A2 cs : incl A1 A2 -> Forall (from A1) cs -> Forall (from A2) cs.
Proof. intros I H. eapply Forall_impl; [|exact H]. intros c [E|J]; [left; exact E|right; apply I; exact J]. Qed.
Lemma prebranched_from A cs : Forall prebranched cs -> Forall (from A) cs.
Proof. intros H. eapply Forall_impl; [|exact H]. intros c (E & _). left. exact E. Qed.
Lemma sfb_from cur pre s rest' cn post ret c0 :
  cstmts cur = pre ++ s :: rest' -> split_for_branch cur (List.length pre) cn = (post, ret, c0) -> Forall (from [rest']) post.
Proof.
  intros E H. destruct (sfb_spec _ _ _ _ _ _ _ _ E H) as [(-> & -> & -> & ->)|(N & -> & -> & ->)]; [constructor|].
  constructor; [right; left; reflexivity|constructor].
Qed.
Lemma mk_body_from : forall bodies cn ret cs c', mk_body_chunks bodies cn ret = (cs, c') -> Forall (from bodies) cs.
Proof.
  induction bodies as [|b r IH]; intros cn ret cs c' H; cbn in H.
  - inversion H; subst. constructor.
  - destruct (mk_body_chunks r (cn + 1) ret) as [cs1 c1] eqn:E. inversion H; subst. constructor; [right; left; reflexivity|].
    eapply from_incl; [|eapply IH; exact E]. intros x I. right. exact I.
Qed.

Lemma create_if_from e b more els cur pre rest' cn news br ret c' :
  cstmts cur = pre ++ SIf ((e, b) :: more) els :: rest' ->
  create_if ((e, b) :: more) els cur (List.length pre) cn = (news, br, ret, c') -> (0 <= cn)%Z ->
  Forall (from (rest' :: subblocks (SIf ((e, b) :: more) els))) news.
Proof.
  intros E H Hc. rewrite create_if_unfold in H.
  destruct (split_for_branch cur (List.length pre) cn) as [[post ret0] c0] eqn:ES.
  destruct (mk_body_chunks (b :: map snd more) c0 ret0) as [bodychunks c1] eqn:EB.
  destruct (sfb_news _ _ _ _ _ _ _ _ E ES) as [P1 _]. assert (C0 : (cn <= c0)%Z) by (destruct P1; assumption).
  destruct (mk_body_chunks_spec _ _ _ _ _ EB) as (B1 & _).
  set (EL := match els with Some eb => let c := (c1 + 1)%Z in ([mk c ret0 eb None], c, c) | None => ([], c1, ret0) end) in H.
  assert (NE : (c1 <= snd (fst EL))%Z /\ Forall (from (match els with Some eb => [eb] | None => [] end)) (fst (fst EL))).
  { subst EL. destruct els as [eb|]; cbn; (split; [lia|]); [constructor; [right; left; reflexivity|constructor]|constructor]. }
  destruct EL as [[elsechunk c2] finalfail]. cbn [fst snd] in NE. destruct NE as [C2 NE].
  destruct (stitch_elifs (rev (combine (map fst more) (tl (map cid bodychunks)))) c2 finalfail) as [[cs entryfail] c3] eqn:EST.
  destruct (stitch_news _ _ _ _ _ _ EST ltac:(lia)) as [S1 S2]. assert (C3 : (c2 <= c3)%Z) by (destruct S1; assumption).
  destruct (split_bexp e c3 (hd 0%Z (map cid bodychunks)) entryfail (-1)) as [[[cs1 x] entry] c4] eqn:EX.
  destruct (split_bexp_ids _ _ _ _ _ _ _ _ _ EX ltac:(lia)) as (_ & _ & _ & X2 & _).
  inversion H; subst. cbn [subblocks map snd].
  apply Forall_app. split; [eapply from_incl; [|eapply sfb_from; eassumption]; intros y [<-|[]]; left; reflexivity|].
  apply Forall_app. split; [eapply from_incl; [|eapply mk_body_from; exact EB]; intros y I; right; apply in_or_app; left; exact I|].
  apply Forall_app. split; [eapply from_incl; [|exact NE]; intros y I; right; apply in_or_app; right; exact I|].
  apply Forall_app. split; apply prebranched_from; assumption.
Qed.

Lemma create_while_from tg c body cur pre rest' cn news br ret c' :
  cstmts cur = pre ++ SWhile tg c body :: rest' ->
  create_while c body cur (List.length pre) cn = (news, br, ret, c') -> (0 <= cn)%Z ->
  Forall (from (rest' :: subblocks (SWhile tg c body))) news.
Proof.
  intros E H Hc. unfold create_while in H.
  destruct (split_for_branch cur (List.length pre) cn) as [[post ret0] c0] eqn:ES.
  destruct (sfb_news _ _ _ _ _ _ _ _ E ES) as [P1 _]. assert (C0 : (cn <= c0)%Z) by (destruct P1; assumption).
  assert (FP : Forall (from (rest' :: subblocks (SWhile tg c body))) post).
  { eapply from_incl; [|eapply sfb_from; eassumption]. intros y [<-|[]]. left. reflexivity. }
  destruct c as [e|].
  - destruct (split_bexp e (c0 + 2) (c0 + 2) ret0 (-1)) as [[[cs x] entry] c1] eqn:EX.
    destruct (split_bexp_ids _ _ _ _ _ _ _ _ _ EX ltac:(lia)) as (_ & _ & _ & X4 & _). inversion H; subst.
    apply Forall_app. split; [exact FP|]. apply Forall_app. split; [apply prebranched_from; exact X4|].
    constructor; [right; right; left; reflexivity|]. constructor; [left; reflexivity|constructor].
  - inversion H; subst. apply Forall_app. split; [exact FP|].
    constructor; [right; right; left; reflexivity|]. constructor; [left; reflexivity|constructor].
Qed.

Lemma create_dowhile_from tg body e cur pre rest' cn news br ret c' :
  cstmts cur = pre ++ SDoWhile tg body e :: rest' ->
  create_dowhile body e cur (List.length pre) cn = (news, br, ret, c') -> (0 <= cn)%Z ->
  Forall (from (rest' :: subblocks (SDoWhile tg body e))) news.
Proof.
  intros E H Hc. unfold create_dowhile in H.
  destruct (split_for_branch cur (List.length pre) cn) as [[post ret0] c0] eqn:ES.
  destruct (sfb_news _ _ _ _ _ _ _ _ E ES) as [P1 _]. assert (C0 : (cn <= c0)%Z) by (destruct P1; assumption).
  assert (FP : Forall (from (rest' :: subblocks (SDoWhile tg body e))) post).
  { eapply from_incl; [|eapply sfb_from; eassumption]. intros y [<-|[]]. left. reflexivity. }
  destruct (split_bexp e (c0 + 2) (c0 + 2) ret0 (-1)) as [[[cs x] entry] c1] eqn:EX.
  destruct (split_bexp_ids _ _ _ _ _ _ _ _ _ EX ltac:(lia)) as (_ & _ & _ & X4 & _). inversion H; subst.
  apply Forall_app. split; [exact FP|]. apply Forall_app. split; [apply prebranched_from; exact X4|].
  constructor; [right; right; left; reflexivity|]. constructor; [left; reflexivity|constructor].
Qed.

Lemma sw_suf_from ret : forall f S st st' el,
  sw_suf f S ret st = (st', el) -> (List.length S < f)%nat ->
  exists extra, sw_new st' = sw_new st ++ extra /\ Forall (from (map (fun c : scase => sc_body c) S)) extra.
Proof.
  induction f as [|f IH]; intros S st st' el H L; [lia|].
  destruct S as [|c r].
  - cbn in H. inversion H; subst. exists []. rewrite app_nil_r. split; [reflexivity|constructor].
  - cbn [sw_suf] in H. cbn [List.length] in L. destruct (sc_body c) as [|s0 b0] eqn:Bc.
    + destruct (find_bodied r 0) as [[k cj]|] eqn:FB.
      * destruct (find_bodied_some _ _ _ FB) as (E & r' & -> & HE & N & LEN).
        assert (F2 : skipn (S k) (E ++ cj :: r') = r') by (rewrite <- LEN; apply skipn_app_here). rewrite F2 in H.
        destruct (IH _ _ _ _ H) as (ex & A1 & A2); [rewrite app_length in L; cbn in L; lia|]. cbn [sw_new] in A1.
        exists (mk (sw_counter st + 1) ret (sc_body cj) None :: ex). split; [rewrite A1, <- app_assoc; reflexivity|].
        constructor.
        -- right. cbn [cstmts mk]. apply in_map_iff. exists cj. split; [reflexivity|]. right. apply in_or_app. right. left. reflexivity.
        -- eapply from_incl; [|exact A2]. intros y I. apply in_map_iff in I. destruct I as (z & <- & I). apply in_map_iff. exists z. split; [reflexivity|].
           right. apply in_or_app. right. right. exact I.
      * destruct (sw_def st) as [dd|].
        -- assert (H' : ({| sw_new := sw_new st ++ [mk (sw_counter st + 1) ret [] None];
                           sw_cases := sw_cases st ++ flat_map (case_entry (sw_counter st + 1)) (c :: r);
                           sw_def := Some dd; sw_counter := (sw_counter st + 1)%Z |}, false) = (st', el)) by (destruct (sw_cases st); exact H).
           inversion H'; subst. cbn. exists [mk (sw_counter st + 1) ret [] None]. split; [reflexivity|]. constructor; [left; reflexivity|constructor].
        -- assert (H' : st' = st) by (destruct (sw_cases st); inversion H; reflexivity). subst st'.
           exists []. rewrite app_nil_r. split; [reflexivity|constructor].
    + destruct (IH _ _ _ _ H) as (ex & A1 & A2); [lia|]. cbn [sw_new] in A1.
      exists (mk (sw_counter st + 1) ret (s0 :: b0) None :: ex). split; [rewrite A1, <- app_assoc; reflexivity|].
      constructor.
      * right. cbn [cstmts mk map]. left. exact Bc.
      * eapply from_incl; [|exact A2]. intros y I. right. exact I.
Qed.

Lemma create_switch_from tg op ol cases cur pre rest' cn news br ret c' :
  cstmts cur = pre ++ SSwitch tg op ol cases :: rest' ->
  create_switch op ol cases cur (List.length pre) cn = (news, br, ret, c') -> (0 <= cn)%Z ->
  Forall (from (rest' :: subblocks (SSwitch tg op ol cases))) news.
Proof.
  intros E H Hc. unfold create_switch in H.
  destruct (split_for_branch cur (List.length pre) cn) as [[post ret0] c0] eqn:ES.
  cbv zeta in H. rewrite sw_loop_suf in H. change (skipn 0 cases) with cases in H.
  match type of H with context[sw_suf ?a ?b ?c ?d] => destruct (sw_suf a b c d) as [st el] eqn:SW end.
  assert (LL : (List.length cases < S (List.length cases))%nat) by lia.
  destruct (sw_suf_from _ _ _ _ _ _ SW LL) as (ex & A1 & A2). cbn in A1. inversion H; subst.
  apply Forall_app. split; [eapply from_incl; [|eapply sfb_from; eassumption]; intros y [<-|[]]; left; reflexivity|].
  constructor; [left; reflexivity|]. eapply from_incl; [|exact A2]. intros y I. right. exact I.
Qed.

(* ---------- the invariant of the worklist ---------- *)
Definition ext (m M : tagmap) : Prop := forall k d, tm_get m k = Some d -> tm_get M k = Some d.
Lemma ext_refl m : ext m m. Proof. intros k d H. exact H. Qed.
Lemma ext_trans a b c : ext a b -> ext b c -> ext a c. Proof. intros H1 H2 k d H. apply H2, H1, H. Qed.
Lemma tm_get_keys m k d : tm_get m k = Some d -> In k (map fst m).
Proof. induction m as [|[k' v] r IH]; cbn; [discriminate|]. destruct (Nat.eqb_spec k k'); [intros _; left; auto|intros H; right; auto]. Qed.
Lemma ext_cons m tg v : ~ In tg (map fst m) -> ext m ((tg, v) :: m).
Proof. intros N k d H. cbn. destruct (Nat.eqb_spec k tg) as [->|_]; [exfalso; apply N; eapply tm_get_keys; exact H|exact H]. Qed.
Lemma tm_get_head m tg v : tm_get ((tg, v) :: m) tg = Some v.
Proof. cbn. now rewrite Nat.eqb_refl. Qed.

Record Inv (w : wst) : Prop := {
  inv_cnt : (0 <= counter w)%Z;
  inv_nodup : NoDup (ids (remaining w ++ finals w));
  inv_range : Forall (fun c => (0 <= cid c <= counter w)%Z) (remaining w ++ finals w);
  inv_fresh : Forall fresh (remaining w);
  inv_ok : Forall (fun c => okb (cstmts c) = true) (remaining w);
  inv_tags : NoDup (tags_rem (remaining w) ++ map fst (brk w));
  inv_keys : map fst (org w) = map fst (brk w) }.

Definition own_tag (nt : option (nat * Z * Z)) : list nat := match nt with Some (tg, _, _) => [tg] | None => [] end.

(* what one step produces (all control forms at once) *)
Record step_facts (w : wst) (cur : chunk) (rest : list chunk) (fin : chunk) (news : list chunk) (c' : Z) (nt : option (nat * Z * Z)) : Prop := {
  sf_cid : cid fin = cid cur;
  sf_news : news_ok (counter w) c' news;
  sf_ok : Forall (fun c => okb (cstmts c) = true) news;
  sf_tags : Permutation (own_tag nt ++ tags_rem news) (tags (cstmts cur));
  sf_obl : forall G B O, get_chunk G (cid cur) = Some fin -> Forall (obl G B O) news ->
             ext (match nt with Some (tg, r, _) => (tg, r) :: brk w | None => brk w end) B ->
             ext (match nt with Some (tg, _, d) => (tg, d) :: org w | None => org w end) O ->
             obl G B O cur }.

Lemma from_ok A news : Forall (fun b => okb b = true) A -> Forall (from A) news -> Forall (fun c => okb (cstmts c) = true) news.
Proof.
  intros HA H. eapply Forall_impl; [|exact H]. intros c [E|I]; [rewrite E; reflexivity|]. rewrite Forall_forall in HA. apply HA. exact I.
Qed.

Lemma tags_if_sub conds els : tags_conds conds ++ tags_opt els = List.concat (map tags (subblocks (SIf conds els))).
Proof.
  cbn [subblocks]. rewrite map_app, List.concat_app. unfold tags_conds. rewrite map_map. f_equal. destruct els; cbn; [now rewrite app_nil_r|reflexivity].
Qed.

Lemma wstep_facts w cur rest fin news c' nt :
  Inv w -> remaining w = cur :: rest -> wstep w = SNext fin news c' nt -> step_facts w cur rest fin news c' nt.
Proof.
  intros I R H. unfold wstep in H. rewrite R in H.
  assert (FR : fresh cur) by (pose proof (inv_fresh w I) as F; rewrite R in F; inversion F; assumption).
  assert (OK : okb (cstmts cur) = true) by (pose proof (inv_ok w I) as F; rewrite R in F; inversion F; assumption).
  pose proof (inv_cnt w I) as CN.
  pose proof (scan_ok (cstmts cur) 0 (List.length (cstmts cur)) eq_refl) as SC.
  destruct (scan (cstmts cur) 0 (List.length (cstmts cur))) as [i er]. inversion SC as [pre c e E F ER Q1|F Q1|pre s rest' E F NS Q1]; subst.
  - (* a final end / return *)
    cbn [Nat.add] in H. inversion H; subst. clear H.
    assert (PL : plainchunk cur). { destruct FR as [(E0 & _)|P]; [rewrite E0 in E; destruct pre; discriminate|exact P]. }
    destruct PL as [PE PB]. constructor.
    + reflexivity.
    + apply news_ok_nil.
    + constructor.
    + cbn. rewrite E, tags_app, (tags_simple pre F). cbn. constructor.
    + intros G B O GC _ _ _. unfold obl. rewrite PB. eapply tr_block_intro; [exact GC|]. cbn [cstmts]. rewrite E. rewrite firstn_app_here.
      eapply ts_endret; [exact F|exact ER|reflexivity|reflexivity|reflexivity].
  - (* only simple statements *)
    cbn [Nat.add] in H. rewrite Nat.eqb_refl in H. inversion H; subst. clear H. constructor.
    + reflexivity.
    + apply news_ok_nil.
    + constructor.
    + cbn. rewrite (tags_simple _ F). constructor.
    + intros G B O GC _ _ _. unfold obl. destruct FR as [(E0 & _ & b & PB)|[PE PB]].
      * rewrite PB. exact GC.
      * rewrite PB. eapply tr_block_intro; [exact GC|]. apply ts_plain; [exact F|exact PB|reflexivity|exact PE].
  - (* a control statement *)
    cbn [Nat.add] in H.
    assert (NE : Nat.eqb (List.length pre) (List.length (cstmts cur)) = false).
    { apply Nat.eqb_neq. rewrite E, app_length. cbn. lia. }
    rewrite NE in H. rewrite E in H at 1. rewrite nth_error_app_here in H.
    assert (FN : firstn (List.length pre) (cstmts cur) = pre) by (rewrite E; apply firstn_app_here).
    rewrite FN in H.
    assert (PL : plainchunk cur). { destruct FR as [(E0 & _)|P]; [rewrite E0 in E; destruct pre; discriminate|exact P]. }
    destruct PL as [PE PB].
    rewrite E in OK. apply okb_app in OK. destruct OK as [_ OK]. apply okb_cons in OK. destruct OK as (W1 & W2 & OKR).
    assert (SUB : Forall (fun b => okb b = true) (rest' :: subblocks s)).
    { constructor; [exact OKR|]. rewrite Forall_forall. intros b Hb. eapply ok_sub; eassumption. }
    assert (TG : tags (cstmts cur) = tags1 s ++ tags rest').
    { rewrite E, tags_app, (tags_simple pre F). reflexivity. }
    assert (OBL : forall G B O br ret, get_chunk G (cid cur) = Some {| cid := cid cur; cret := ret; cend := false; cstmts := pre; cbr := Some br |} ->
                  tr_ctrl G B O s br ret -> tr_rest G B O rest' ret (cret cur) -> obl G B O cur).
    { intros G B O br ret GC TC TR. unfold obl. rewrite PB. eapply tr_block_intro; [exact GC|]. cbn [cstmts]. rewrite E.
      eapply ts_ctrl; [exact F|exact NS|reflexivity|exact TC|exact TR]. }
    destruct s as [c|nm g tk|conds els|tag c body|tag body c|tag|tag|tag op ol cases]; try discriminate NS.
    + (* if *)
      destruct conds as [|[e b] more]; [apply ifok1_if in W2; congruence|].
      destruct (create_if ((e, b) :: more) els cur (List.length pre) (counter w)) as [[[news0 br] ret] c0] eqn:CR. inversion H; subst. clear H.
      destruct (create_if_news _ _ _ _ _ _ _ _ _ _ _ _ E CR CN) as [N1 N2]. constructor.
      * reflexivity.
      * exact N1.
      * eapply from_ok; [exact SUB|]. eapply create_if_from; eassumption.
      * cbn [own_tag app]. rewrite TG, tags1_if. rewrite <- app_assoc. exact N2.
      * intros G B O GC FO _ _. destruct (create_if_tr G B O _ _ _ _ _ _ _ _ _ _ _ _ E CR CN FO) as [T1 T2]. eapply OBL; eassumption.
    + (* while *)
      destruct (create_while c body cur (List.length pre) (counter w)) as [[[news0 br] ret] c0] eqn:CR. inversion H; subst. clear H.
      destruct (create_while_news _ _ _ _ _ _ _ _ _ _ _ E CR CN) as [N1 N2]. constructor.
      * reflexivity.
      * exact N1.
      * eapply from_ok; [exact SUB|]. eapply create_while_from; eassumption.
      * cbn [own_tag app]. rewrite TG, tags1_while. cbn [app]. apply perm_skip. exact N2.
      * intros G B O GC FO EB EO. destruct (create_while_tr G B O _ _ _ _ _ _ _ _ _ _ _ E CR CN FO) as [T1 T2];
          [apply EB; apply tm_get_head|apply EO; apply tm_get_head|]. eapply OBL; eassumption.
    + (* do-while *)
      destruct (create_dowhile body c cur (List.length pre) (counter w)) as [[[news0 br] ret] c0] eqn:CR. inversion H; subst. clear H.
      destruct (create_dowhile_news _ _ _ _ _ _ _ _ _ _ _ E CR CN) as [N1 N2]. constructor.
      * reflexivity.
      * exact N1.
      * eapply from_ok; [exact SUB|]. eapply create_dowhile_from; eassumption.
      * cbn [own_tag app]. rewrite TG, tags1_dowhile. cbn [app]. apply perm_skip. exact N2.
      * intros G B O GC FO EB EO. destruct (create_dowhile_tr G B O _ _ _ _ _ _ _ _ _ _ _ E CR CN FO) as [T1 T2];
          [apply EB; apply tm_get_head|apply EO; apply tm_get_head|]. eapply OBL; eassumption.
    + (* break *)
      destruct (tm_get (brk w) tag) as [d|] eqn:TB; [|discriminate].
      destruct (split_for_branch cur (List.length pre) (counter w)) as [[post ret] c0] eqn:ES. inversion H; subst. clear H.
      destruct (sfb_news _ _ _ _ _ _ _ _ E ES) as [P1 P2]. constructor.
      * reflexivity.
      * exact P1.
      * eapply from_ok; [exact SUB|]. eapply from_incl; [|eapply sfb_from; eassumption]. intros y [<-|[]]. left. reflexivity.
      * cbn [own_tag app]. rewrite TG, P2. reflexivity.
      * intros G B O GC FO EB _. eapply OBL; [exact GC| |eapply sfb_tr; eassumption]. apply tcl_break. apply EB. exact TB.
    + (* continue *)
      destruct (tm_get (org w) tag) as [d|] eqn:TB; [|discriminate].
      destruct (split_for_branch cur (List.length pre) (counter w)) as [[post ret] c0] eqn:ES. inversion H; subst. clear H.
      destruct (sfb_news _ _ _ _ _ _ _ _ E ES) as [P1 P2]. constructor.
      * reflexivity.
      * exact P1.
      * eapply from_ok; [exact SUB|]. eapply from_incl; [|eapply sfb_from; eassumption]. intros y [<-|[]]. left. reflexivity.
      * cbn [own_tag app]. rewrite TG, P2. reflexivity.
      * intros G B O GC FO _ EO. eapply OBL; [exact GC| |eapply sfb_tr; eassumption]. apply tcl_continue. apply EO. exact TB.
    + (* switch *)
      destruct (create_switch op ol cases cur (List.length pre) (counter w)) as [[[news0 br] ret] c0] eqn:CR. inversion H; subst. clear H.
      destruct (create_switch_news _ _ _ _ _ _ _ _ _ _ _ _ E CR CN) as [N1 N2]. constructor.
      * reflexivity.
      * exact N1.
      * eapply from_ok; [exact SUB|]. eapply create_switch_from; eassumption.
      * cbn [own_tag app]. rewrite TG, tags1_switch. cbn [app]. apply perm_skip. exact N2.
      * intros G B O GC FO EB _. destruct (create_switch_tr G B O _ _ _ _ _ _ _ _ _ _ _ _ E CR CN (swf1_switch_ndef _ _ _ _ W1) FO) as [T1 T2];
          [apply EB; apply tm_get_head|]. eapply OBL; eassumption.
Qed.

Lemma perm4 {A} (T O N R K : list A) : Permutation (O ++ N) T -> Permutation (T ++ R ++ K) ((R ++ N) ++ O ++ K).
Proof.
  intros P. etransitivity; [apply Permutation_app_tail; symmetry; exact P|].
  rewrite <- !app_assoc. etransitivity; [apply Permutation_app_swap_app|].
  etransitivity; [apply Permutation_app_head; apply Permutation_app_swap_app|]. apply Permutation_app_swap_app.
Qed.

Lemma get_chunk_set_final fs c i : get_chunk (set_final fs c) i = if Z.eqb (cid c) i then Some c else get_chunk fs i.
Proof.
  unfold set_final. cbn [get_chunk]. destruct (Z.eqb_spec (cid c) i) as [E|N]; [reflexivity|].
  induction fs as [|x r IH]; [reflexivity|]. cbn [filter]. destruct (Z.eqb_spec (cid x) (cid c)) as [E2|N2]; cbn [negb].
  - cbn [get_chunk]. destruct (Z.eqb_spec (cid x) i); [congruence|exact IH].
  - cbn [get_chunk]. destruct (Z.eqb_spec (cid x) i); [reflexivity|exact IH].
Qed.
Lemma set_final_fresh fs c : ~ In (cid c) (ids fs) -> set_final fs c = c :: fs.
Proof.
  intros N. unfold set_final. f_equal. induction fs as [|x r IH]; [reflexivity|]. cbn. destruct (Z.eqb_spec (cid x) (cid c)) as [E|_]; cbn.
  - exfalso. apply N. left. exact E.
  - f_equal. apply IH. intros I. apply N. right. exact I.
Qed.
Lemma get_chunk_nodup' fs : NoDup (ids fs) -> forall c, In c fs -> get_chunk fs (cid c) = Some c.
Proof.
  induction fs as [|x r IH]; intros N c I; [destruct I|]. inversion N; subst. cbn. destruct I as [->|I]; [now rewrite Z.eqb_refl|].
  destruct (Z.eqb_spec (cid x) (cid c)) as [E|_]; [|apply IH; assumption]. exfalso. match goal with K : ~ In _ _ |- _ => apply K end. rewrite E. apply in_map. exact I.
Qed.

Lemma wstep_inv w cur rest fin news c' nt :
  Inv w -> remaining w = cur :: rest -> wstep w = SNext fin news c' nt -> Inv (wnext w fin news c' nt) /\
  finals (wnext w fin news c' nt) = fin :: finals w /\ ~ In (cid cur) (ids (finals w)) /\
  (forall tg, In tg (own_tag nt) -> ~ In tg (map fst (brk w))).
Proof.
  intros I R H. pose proof (wstep_facts _ _ _ _ _ _ _ I R H) as [SC (N1 & N2 & N3 & N4) SO ST _].
  destruct I as [I1 I2 I3 I4 I5 I6 I7]. rewrite R in *. cbn [app ids map] in I2. inversion I2 as [|? ? NI ND]; subst.
  assert (NF : ~ In (cid cur) (ids (finals w))). { intros J. apply NI. unfold ids. rewrite map_app. apply in_or_app. right. exact J. }
  assert (SF : set_final (finals w) fin = fin :: finals w) by (apply set_final_fresh; rewrite SC; exact NF).
  assert (TAGS : NoDup ((tags_rem (rest ++ news)) ++ own_tag nt ++ map fst (brk w))).
  { eapply Permutation_NoDup; [|exact I6]. unfold tags_rem at 1. cbn [map List.concat]. fold (tags_rem rest). rewrite <- app_assoc.
    rewrite tags_rem_app. apply perm4. exact ST. }
  split; [|split; [exact SF|split; [exact NF|]]].
  - unfold wnext. rewrite R. cbn [tl]. constructor; cbn [remaining finals counter brk org].
    + lia.
    + rewrite SF. unfold ids. rewrite map_app. cbn [map]. rewrite SC.
      (* ids rest ++ ids news ++ cid cur :: ids finals *)
      rewrite map_app. rewrite <- app_assoc.
      apply nodup_app_intro.
      * apply (nodup_app_l _ (map cid (finals w))). unfold ids in ND. rewrite map_app in ND. exact ND.
      * apply nodup_app_intro; [exact N3| |].
        -- constructor; [exact NF|]. apply (nodup_app_r (map cid rest)). unfold ids in ND. rewrite map_app in ND. exact ND.
        -- intros x Hx [<-|Hy].
           ++ pose proof (ids_in_In _ _ _ _ N2 Hx). inversion I3 as [|? ? Q _]; subst. lia.
           ++ pose proof (ids_in_In _ _ _ _ N2 Hx). inversion I3 as [|? ? _ Q]; subst. rewrite Forall_forall in Q.
              apply in_map_iff in Hy. destruct Hy as (y & <- & Hy). specialize (Q y ltac:(apply in_or_app; right; exact Hy)). cbn in Q. lia.
      * intros x Hx Hy. apply in_app_or in Hy. destruct Hy as [Hy|[<-|Hy]].
        -- pose proof (ids_in_In _ _ _ _ N2 Hy). inversion I3 as [|? ? _ Q]; subst. rewrite Forall_forall in Q.
           apply in_map_iff in Hx. destruct Hx as (y & <- & Hx). specialize (Q y ltac:(apply in_or_app; left; exact Hx)). cbn in Q. lia.
        -- apply NI. unfold ids. rewrite map_app. apply in_or_app. left. exact Hx.
        -- unfold ids in ND. rewrite map_app in ND. apply (nodup_app_disj _ _ _ ND Hx Hy).
    + rewrite SF. inversion I3 as [|? ? Q1 Q2]; subst. apply Forall_app in Q2. destruct Q2 as [Q2 Q3].
      apply Forall_app. split; [apply Forall_app; split|constructor].
      * eapply Forall_impl; [|exact Q2]. cbn. intros; lia.
      * eapply Forall_impl; [|exact N2]. cbn. intros; lia.
      * rewrite SC. lia.
      * eapply Forall_impl; [|exact Q3]. cbn. intros; lia.
    + inversion I4; subst. apply Forall_app. split; assumption.
    + inversion I5; subst. apply Forall_app. split; assumption.
    + destruct nt as [[[tg r] d]|]; cbn [own_tag map fst app] in *; exact TAGS.
    + destruct nt as [[[tg r] d]|]; cbn [map fst]; congruence.
  - intros tg Ht J. apply nodup_app_r in TAGS. exact (nodup_app_disj _ _ tg TAGS Ht J).
Qed.

(* ---------- the main induction ---------- *)
Theorem work_establishes_obligations : forall f w w',
  Inv w -> work f w = Ok w' ->
  Inv w' /\ remaining w' = [] /\
  (forall c, In c (finals w) -> get_chunk (finals w') (cid c) = Some c) /\
  ext (brk w) (brk w') /\ ext (org w) (org w') /\
  Forall (obl (finals w') (brk w') (org w')) (remaining w).
Proof.
  induction f as [|f IH]; intros w w' I H; [discriminate|]. rewrite work_S in H.
  destruct (wstep w) as [|fin news c' nt| |] eqn:WS; try discriminate.
  - (* worklist empty *)
    inversion H; subst. unfold wstep in WS. destruct (remaining w') as [|cur rest] eqn:R.
    + split; [exact I|]. split; [reflexivity|]. split.
      * intros c Hc. apply get_chunk_nodup'; [|exact Hc]. pose proof (inv_nodup w' I) as N. rewrite R in N. exact N.
      * split; [apply ext_refl|]. split; [apply ext_refl|constructor].
    + exfalso. destruct (scan (cstmts cur) 0 (List.length (cstmts cur))) as [i [e|]]; [discriminate|].
      destruct (Nat.eqb i (List.length (cstmts cur))); [discriminate|].
      destruct (nth_error (cstmts cur) i) as [[c|n g tk|conds els|tag c body|tag body c|tag|tag|tag op ol cases]|]; try discriminate.
      * destruct (create_if conds els cur i (counter w')) as [[[? ?] ?] ?]. discriminate.
      * destruct (create_while c body cur i (counter w')) as [[[? ?] ?] ?]. discriminate.
      * destruct (create_dowhile body c cur i (counter w')) as [[[? ?] ?] ?]. discriminate.
      * destruct (tm_get (brk w') tag); [|discriminate]. destruct (split_for_branch cur i (counter w')) as [[? ?] ?]. discriminate.
      * destruct (tm_get (org w') tag); [|discriminate]. destruct (split_for_branch cur i (counter w')) as [[? ?] ?]. discriminate.
      * destruct (create_switch op ol cases cur i (counter w')) as [[[? ?] ?] ?]. discriminate.
  - (* one step, then the rest *)
    destruct (remaining w) as [|cur rest] eqn:R; [unfold wstep in WS; rewrite R in WS; discriminate|].
    destruct (wstep_inv _ _ _ _ _ _ _ I R WS) as (I1 & SF & NF & NT).
    pose proof (wstep_facts _ _ _ _ _ _ _ I R WS) as [SC _ _ _ OB].
    destruct (IH _ _ I1 H) as (I' & RE & FP & EB & EO & FO).
    split; [exact I'|]. split; [exact RE|].
    assert (EB0 : ext (brk w) (brk (wnext w fin news c' nt))).
    { unfold wnext. cbn [brk]. destruct nt as [[[tg r] d]|]; [|apply ext_refl]. apply ext_cons. apply NT. left. reflexivity. }
    assert (EO0 : ext (org w) (org (wnext w fin news c' nt))).
    { unfold wnext. cbn [org]. destruct nt as [[[tg r] d]|]; [|apply ext_refl]. apply ext_cons. rewrite (inv_keys w I). apply NT. left. reflexivity. }
    split; [|split; [eapply ext_trans; eassumption|split; [eapply ext_trans; eassumption|]]].
    + intros c Hc. apply FP. rewrite SF. right. exact Hc.
    + unfold wnext in FO. cbn [remaining] in FO. rewrite R in FO. cbn [tl] in FO. apply Forall_app in FO. destruct FO as [FR FN].
      constructor; [|exact FR].
      apply OB; [|exact FN| |].
      * rewrite <- SC. apply FP. rewrite SF. left. reflexivity.
      * exact EB.
      * exact EO.
Qed.

(* ---------- Lemma 1 ---------- *)
Definition src_ok (body : list stmt) : Prop := okb body = true /\ NoDup (tags body).

Local Opaque work_fuel work.
Theorem worklist_establishes_tr_block body w :
  emit_graph body = Ok w -> src_ok body ->
  tr_block (finals w) (brk w) (org w) body 0 (-1) /\
  (forall i c, get_chunk (finals w) i = Some c -> (0 <= i)%Z) /\
  NoDup (ids (finals w)).
Proof.
  intros H [OK ND]. unfold emit_graph in H.
  assert (I0 : Inv {| remaining := [mk 0 (-1) body None]; finals := []; counter := 0; brk := []; org := [] |}).
  { constructor; cbn.
    - lia.
    - repeat constructor. intros [].
    - repeat constructor; cbn; lia.
    - constructor; [right; split; reflexivity|constructor].
    - constructor; [exact OK|constructor].
    - unfold tags_rem. cbn. rewrite !app_nil_r. exact ND.
    - reflexivity. }
  destruct (work_establishes_obligations _ _ _ I0 H) as (I' & RE & _ & _ & _ & FO). cbn [remaining] in FO.
  inversion FO as [|? ? F0 _]; subst. split; [exact F0|]. split.
  - intros i c GC. pose proof (inv_range w I') as RG. rewrite RE in RG. cbn [app] in RG. rewrite Forall_forall in RG.
    assert (IN : In c (finals w)). { clear - GC. induction (finals w) as [|x r IHr]; cbn in GC; [discriminate|]. destruct (Z.eqb (cid x) i); [inversion GC; left; reflexivity|right; auto]. }
    assert (E : cid c = i). { clear - GC. induction (finals w) as [|x r IHr]; cbn in GC; [discriminate|]. destruct (Z.eqb_spec (cid x) i); [inversion GC; subst; reflexivity|auto]. }
    specialize (RG c IN). cbn in RG. lia.
  - pose proof (inv_nodup w I') as N. rewrite RE in N. exact N.
Qed.

(* ---------- C03: the case table built for a switch implements the selection of the source semantics ---------- *)
Theorem switch_table_selects cases ret sid st el :
  (ndef cases <= 1)%nat ->
  sw_loop (S (List.length cases)) cases 0 ret {| sw_new := []; sw_cases := []; sw_def := None; sw_counter := sid |} = (st, el) ->
  (el = true -> forall m, select_case cases m = []) /\
  (el = false -> forall m,
     match first_case (sw_cases st) m with
     | Some d => In (mk d ret (select_case cases m) None) (sw_new st)
     | None => match sw_def st with
               | Some dd => In (mk dd ret (select_case cases m) None) (sw_new st)
               | None => select_case cases m = []
               end
     end).
Proof.
  intros ND H. rewrite sw_loop_suf in H. change (skipn 0 cases) with cases in H.
  assert (PRE0 : Pre ret [] {| sw_new := []; sw_cases := []; sw_def := None; sw_counter := sid |}) by (constructor; cbn; auto).
  assert (LL : (List.length cases < S (List.length cases))%nat) by lia.
  destruct (sw_suf_spec ret _ _ [] _ _ _ H LL PRE0 ND) as [EL NEL]. cbn [app] in EL, NEL. split; [exact EL|].
  intros E m. specialize (NEL E m). unfold tok, hasb in NEL. destruct (first_case (sw_cases st) m); [exact NEL|]. destruct (sw_def st); exact NEL.
Qed.
