(* Prototype emitter model on the shared AST (chunk worklist + render + top-level emitters). *)
From Coq Require Import List String Ascii ZArith NArith Lia Bool.
From Pory Require Import Lexer Ast.
Import ListNotations.
Open Scope list_scope.

Fixpoint dec_aux (fuel : nat) (n : N) (acc : text) : text :=
  match fuel with
  | O => acc
  | S f => let d := (48 + N.modulo n 10)%N in
           let q := N.div n 10 in
           if N.eqb q 0 then d :: acc else dec_aux f q (d :: acc)
  end.
Definition dec (n : nat) : text := dec_aux 40 (N.of_nat n) [].
Definition decZ (z : Z) : text := if Z.ltb z 0 then t "-" ++ dec (Z.to_nat (- z)) else dec (Z.to_nat z).

(* branch behaviours *)
Inductive brancher :=
| BrJump (d : Z)
| BrBreak (d : Z)
| BrLeaf (l : leaf) (truthy : Z) (falsey : Z)
| BrSwitch (operand : text) (oline : Z) (cases : list (text * Z * Z)) (* value, line, dest *) (def : option Z) (dest : Z).

Record chunk := { cid : Z; cret : Z; cend : bool; cstmts : list stmt; cbr : option brancher }.

Definition mk (i r : Z) (ss : list stmt) (b : option brancher) : chunk :=
  {| cid := i; cret := r; cend := false; cstmts := ss; cbr := b |}.

(* split_for_branch: returns (new remaining additions, returnID, counter) *)
Definition split_for_branch (cur : chunk) (i : nat) (counter : Z) : list chunk * Z * Z :=
  if Nat.eqb i (List.length (cstmts cur) - 1) then ([], cret cur, counter)
  else let c := (counter + 1)%Z in
       ([mk c (cret cur) (skipn (S i) (cstmts cur)) None], c, c).

(* splitBooleanExpressionChunks: returns (appended chunks in order, entry-of-this-expr id, firstID, counter) *)
Fixpoint split_bexp (e : bexp) (counter : Z) (succ fail : Z) (firstID : Z) : list chunk * Z * Z * Z :=
  match e with
  | BLeaf l =>
      let c := (counter + 1)%Z in
      let ch := mk c 0 [] (Some (BrLeaf l succ fail)) in
      ([ch], c, (if Z.eqb firstID (-1) then c else firstID), c)
  | BBin BAnd a b =>
      let sc := (counter + 1)%Z in
      let '(ra, la, f1, c1) := split_bexp a sc sc fail firstID in
      let '(rb, lb, f2, c2) := split_bexp b c1 succ fail f1 in
      (ra ++ rb ++ [mk sc 0 [] (Some (BrJump lb))], la, f2, c2)
  | BBin BOr a b =>
      let fc := (counter + 1)%Z in
      let '(ra, la, f1, c1) := split_bexp a fc succ fc firstID in
      let '(rb, lb, f2, c2) := split_bexp b c1 succ fail f1 in
      (ra ++ rb ++ [mk fc 0 [] (Some (BrJump lb))], la, f2, c2)
  end.

(* if statement *)
Fixpoint mk_body_chunks (bodies : list (list stmt)) (counter : Z) (ret : Z) : list chunk * Z :=
  match bodies with
  | [] => ([], counter)
  | b :: r => let c := (counter + 1)%Z in
              let '(cs, c') := mk_body_chunks r c ret in
              (mk c ret b None :: cs, c')
  end.

(* stitch elifs back to front. conds and their chunk ids given in source order (elifs only) *)
Fixpoint stitch_elifs (rev_elifs : list (bexp * Z)) (counter : Z) (fail : Z) : list chunk * Z * Z :=
  match rev_elifs with
  | [] => ([], fail, counter)
  | (e, bodyid) :: r =>
      let '(cs, _, first, c1) := split_bexp e counter bodyid fail (-1) in
      let '(cs2, entry, c2) := stitch_elifs r c1 first in
      (cs ++ cs2, entry, c2)
  end.

Definition create_if (conds : list (bexp * list stmt)) (els : option (list stmt))
           (cur : chunk) (i : nat) (counter : Z) : list chunk * brancher * Z * Z :=
  let '(post, ret, c0) := split_for_branch cur i counter in
  let '(bodychunks, c1) := mk_body_chunks (map snd conds) c0 ret in
  let '(elsechunk, c2, finalfail) :=
      match els with
      | Some b => let c := (c1 + 1)%Z in ([mk c ret b None], c, c)
      | None => ([], c1, ret)
      end in
  let ids := map cid bodychunks in
  let paired := combine (map fst conds) ids in
  match paired with
  | [] => (post, BrJump (-1), ret, c2)
  | first :: elifs =>
      let '(cs, entryfail, c3) := stitch_elifs (rev elifs) c2 finalfail in
      let '(cs1, _, entry, c4) := split_bexp (fst first) c3 (snd first) entryfail (-1) in
      (post ++ bodychunks ++ elsechunk ++ cs ++ cs1, BrJump entry, ret, c4)
  end.

Definition create_while (c : option bexp) (body : list stmt) (cur : chunk) (i : nat) (counter : Z)
  : list chunk * brancher * Z * Z :=
  let '(post, ret, c0) := split_for_branch cur i counter in
  let h := (c0 + 1)%Z in
  let b := (c0 + 2)%Z in
  match c with
  | None => (post ++ [mk b h body None; mk h ret [] (Some (BrJump b))], BrJump h, ret, b)
  | Some e =>
      let '(cs, _, entry, c1) := split_bexp e b b ret (-1) in
      (post ++ cs ++ [mk b h body None; mk h ret [] (Some (BrJump entry))], BrJump h, ret, c1)
  end.

Definition create_dowhile (body : list stmt) (e : bexp) (cur : chunk) (i : nat) (counter : Z)
  : list chunk * brancher * Z * Z :=
  let '(post, ret, c0) := split_for_branch cur i counter in
  let h := (c0 + 1)%Z in
  let b := (c0 + 2)%Z in
  let '(cs, _, entry, c1) := split_bexp e b b ret (-1) in
  (post ++ cs ++ [mk b h body None; mk h ret [] (Some (BrJump entry))], BrJump b, ret, c1).

(* switch: faithful to the *unfixed* Go code, including the duplicate default chunk *)
Definition scase := (bool * text * Z * list stmt)%type.
Definition sc_def (c : scase) := fst (fst (fst c)).
Definition sc_val (c : scase) := snd (fst (fst c)).
Definition sc_line (c : scase) := snd (fst c).
Definition sc_body (c : scase) := snd c.

Fixpoint find_bodied (cs : list scase) (j : nat) : option (nat * scase) :=
  match cs with
  | [] => None
  | c :: r => match sc_body c with [] => find_bodied r (S j) | _ => Some (j, c) end
  end.

Record swst := { sw_new : list chunk; sw_cases : list (text * Z * Z); sw_def : option Z; sw_counter : Z }.

(* process cases from index i with fuel *)
Fixpoint sw_loop (fuel : nat) (all : list scase) (i : nat) (ret : Z) (st : swst) : swst * bool (* elided *) :=
  match fuel with
  | O => (st, false)
  | S f =>
      match nth_error all i with
      | None => (st, false)
      | Some c =>
          match sc_body c with
          | _ :: _ =>
              let id := (sw_counter st + 1)%Z in
              let st1 := {| sw_new := sw_new st ++ [mk id ret (sc_body c) None];
                            sw_cases := if sc_def c then sw_cases st else sw_cases st ++ [(sc_val c, sc_line c, id)];
                            sw_def := if sc_def c then Some id else sw_def st;
                            sw_counter := id |} in
              sw_loop f all (S i) ret st1
          | [] =>
              match find_bodied (skipn (S i) all) (S i) with
              | Some (j, cj) =>
                  let id := (sw_counter st + 1)%Z in
                  let newc := mk id ret (sc_body cj) None in
                  (* shared cases i..j-1 *)
                  let shared := firstn (j - i) (skipn i all) in
                  let cs' := flat_map (fun c' : scase => if sc_def c' then [] else [(sc_val c', sc_line c', id)]) shared in
                  let anydef := existsb sc_def shared in
                  let st1 := {| sw_new := sw_new st ++ [newc];
                                sw_cases := sw_cases st ++ cs' ++ (if sc_def cj then [] else [(sc_val cj, sc_line cj, id)]);
                                sw_def := if sc_def cj || anydef then Some id else sw_def st;
                                sw_counter := id |} in
                  sw_loop f all (S j) ret st1
              | None =>
                  match sw_cases st, sw_def st with
                  | [], None => (st, true)
                  | _, None => (st, false)
                  | _, Some _ =>
                      let id := (sw_counter st + 1)%Z in
                      let trailing := skipn i all in
                      let cs' := flat_map (fun c' : scase => if sc_def c' then [] else [(sc_val c', sc_line c', id)]) trailing in
                      ({| sw_new := sw_new st ++ [mk id ret [] None];
                          sw_cases := sw_cases st ++ cs';
                          sw_def := sw_def st;
                          sw_counter := id |}, false)
                  end
              end
          end
      end
  end.

Definition create_switch (operand : text) (oline : Z) (cases : list scase) (cur : chunk) (i : nat) (counter : Z)
  : list chunk * brancher * Z * Z :=
  let '(post, ret, c0) := split_for_branch cur i counter in
  let sid := (c0 + 1)%Z in
  let '(st, elided) := sw_loop (S (List.length cases)) cases 0 ret {| sw_new := []; sw_cases := []; sw_def := None; sw_counter := sid |} in
  let br := if elided then None else Some (BrSwitch operand oline (sw_cases st) (sw_def st) (match sw_def st with Some _ => 0%Z | None => ret end)) in
  (* NB: Go appends switchChunk to remaining *before* the case chunks *)
  (post ++ [mk sid ret [] br] ++ sw_new st, BrJump sid, ret, sw_counter st).

(* main worklist *)
Definition is_simple (s : stmt) : bool := match s with SCmd _ | SLabel _ _ _ => true | _ => false end.
Fixpoint simple_prefix (ss : list stmt) : nat :=
  match ss with s :: r => if is_simple s then S (simple_prefix r) else 0 | [] => 0 end.

Definition is_endret (s : stmt) : option bool :=
  match s with
  | SCmd c => match cargs c with
              | [] => if text_eqb (cname c) (t "end") then Some true else if text_eqb (cname c) (t "return") then Some false else None
              | _ :: _ => None   (* repair D22: written with arguments it is an ordinary command line; the terminator has none *)
              end
  | _ => None
  end.

(* Go: scans; at index i if command is last stmt and end/return -> finalize. Labels are skipped.
   i stops at first non-simple. *)
Fixpoint scan (ss : list stmt) (i : nat) (n : nat) : nat * option bool :=
  match ss with
  | [] => (i, None)
  | s :: r =>
      match s with
      | SLabel _ _ _ => scan r (S i) n
      | SCmd c => if Nat.eqb i (n - 1) then match is_endret s with Some e => (i, Some e) | None => scan r (S i) n end
                  else scan r (S i) n
      | _ => (i, None)
      end
  end.

Definition tagmap := list (nat * Z).
Fixpoint tm_get (m : tagmap) (k : nat) : option Z :=
  match m with [] => None | (k', v) :: r => if Nat.eqb k k' then Some v else tm_get r k end.

Record wst := { remaining : list chunk; finals : list chunk; counter : Z; brk : tagmap; org : tagmap }.

Inductive res (A : Type) := Ok (a : A) | ErrBreak | ErrContinue | OutOfFuel | ErrLabel (tk : token) (istext : bool).
Arguments Ok {A}. Arguments ErrBreak {A}. Arguments ErrContinue {A}. Arguments OutOfFuel {A}. Arguments ErrLabel {A}.

Definition set_final (fs : list chunk) (c : chunk) : list chunk :=
  c :: filter (fun x => negb (Z.eqb (cid x) (cid c))) fs.

Fixpoint work (fuel : nat) (w : wst) : res wst :=
  match fuel with
  | O => OutOfFuel
  | S f =>
      match remaining w with
      | [] => Ok w
      | cur :: rest =>
          let ss := cstmts cur in
          let '(i, er) := scan ss 0 (List.length ss) in
          match er with
          | Some e =>
              work f {| remaining := rest;
                        finals := set_final (finals w) {| cid := cid cur; cret := (-1)%Z; cend := e; cstmts := firstn i ss; cbr := None |};
                        counter := counter w; brk := brk w; org := org w |}
          | None =>
              if Nat.eqb i (List.length ss) then
                work f {| remaining := rest; finals := set_final (finals w) cur; counter := counter w; brk := brk w; org := org w |}
              else
                let fin (ret : Z) (b : option brancher) := {| cid := cid cur; cret := ret; cend := false; cstmts := firstn i ss; cbr := b |} in
                match nth_error ss i with
                | Some (SIf conds els) =>
                    let '(news, br, ret, c') := create_if conds els cur i (counter w) in
                    work f {| remaining := rest ++ news; finals := set_final (finals w) (fin ret (Some br)); counter := c'; brk := brk w; org := org w |}
                | Some (SWhile tag c body) =>
                    let '(news, br, ret, c') := create_while c body cur i (counter w) in
                    let d := match br with BrJump d => d | _ => 0%Z end in
                    work f {| remaining := rest ++ news; finals := set_final (finals w) (fin ret (Some br)); counter := c';
                              brk := (tag, ret) :: brk w; org := (tag, d) :: org w |}
                | Some (SDoWhile tag body c) =>
                    let '(news, br, ret, c') := create_dowhile body c cur i (counter w) in
                    let d := match br with BrJump d => d | _ => 0%Z end in
                    work f {| remaining := rest ++ news; finals := set_final (finals w) (fin ret (Some br)); counter := c';
                              brk := (tag, ret) :: brk w; org := (tag, d) :: org w |}
                | Some (SSwitch tag operand oline cases) =>
                    let '(news, br, ret, c') := create_switch operand oline cases cur i (counter w) in
                    let d := match br with BrJump d => d | _ => 0%Z end in
                    work f {| remaining := rest ++ news; finals := set_final (finals w) (fin ret (Some br)); counter := c';
                              brk := (tag, ret) :: brk w; org := (tag, d) :: org w |}
                | Some (SBreak tag) =>
                    match tm_get (brk w) tag with
                    | None => ErrBreak
                    | Some d =>
                        let '(post, ret, c') := split_for_branch cur i (counter w) in
                        work f {| remaining := rest ++ post; finals := set_final (finals w) (fin ret (Some (BrBreak d))); counter := c'; brk := brk w; org := org w |}
                    end
                | Some (SContinue tag) =>
                    match tm_get (org w) tag with
                    | None => ErrContinue
                    | Some d =>
                        let '(post, ret, c') := split_for_branch cur i (counter w) in
                        work f {| remaining := rest ++ post; finals := set_final (finals w) (fin ret (Some (BrBreak d))); counter := c'; brk := brk w; org := org w |}
                    end
                | _ => work f {| remaining := rest; finals := set_final (finals w) (fin (cret cur) None); counter := counter w; brk := brk w; org := org w |}
                end
          end
      end
  end.

(* ---------- rendering: structured instructions, then text ---------- *)
Inductive instr :=
| ILabel (name : text) (glob : bool)
| ICmd (c : cmd)
| IGoto (l : text)
| IGotoIfSet (f l : text)
| IGotoIfUnset (f l : text)
| ICompare (strict : bool) (v x : text)
| IGotoIfCmp (o : cmpop) (l : text)
| ICheckTrainer (tr : text)
| IGotoIf (b : bool) (l : text)
| ISwitch (v : text)
| ICase (x l : text)
| IReturn
| IEnd
| IMarker (line : Z)
| IBlank
| IData (directive content : text)
| ILine (s : text).          (* verbatim line: raw text, movement step, .byte / .2byte / .align *)

Definition nl : text := [10%N].
Definition tab : text := [9%N].
Definition lbl (name : text) (d : Z) : text := name ++ t "_" ++ decZ d.

Fixpoint join (sep : text) (l : list text) : text :=
  match l with [] => [] | [x] => x | x :: r => x ++ sep ++ join sep r end.

Definition render_cmd (c : cmd) : text :=
  tab ++ cname c ++ (match cargs c with [] => [] | _ => t " " ++ join (t ", ") (cargs c) end) ++ nl.

Definition opname (o : cmpop) : text :=
  match o with OEq => t "eq" | ONe => t "ne" | OLt => t "lt" | OLe => t "le" | OGt => t "gt" | OGe => t "ge" end.

Definition esc_path (p : text) : text := flat_map (fun c => if (c =? 92)%N then [92%N; 92%N] else [c]) p.

Definition print_instr (path : text) (i : instr) : text :=
  match i with
  | ILabel n g => n ++ (if g then t "::" else t ":") ++ nl
  | ICmd c => render_cmd c
  | IGoto l => tab ++ t "goto " ++ l ++ nl
  | IGotoIfSet f l => tab ++ t "goto_if_set " ++ f ++ t ", " ++ l ++ nl
  | IGotoIfUnset f l => tab ++ t "goto_if_unset " ++ f ++ t ", " ++ l ++ nl
  | ICompare st v x => tab ++ (if st then t "compare_var_to_value " else t "compare ") ++ v ++ t ", " ++ x ++ nl
  | IGotoIfCmp o l => tab ++ t "goto_if_" ++ opname o ++ t " " ++ l ++ nl
  | ICheckTrainer tr => tab ++ t "checktrainerflag " ++ tr ++ nl
  | IGotoIf b l => tab ++ t "goto_if " ++ (if b then t "1" else t "0") ++ t ", " ++ l ++ nl
  | ISwitch v => tab ++ t "switch " ++ v ++ nl
  | ICase x l => tab ++ t "case " ++ x ++ t ", " ++ l ++ nl
  | IReturn => tab ++ t "return" ++ nl
  | IEnd => tab ++ t "end" ++ nl
  | IMarker line => [35%N; 32%N] ++ decZ line ++ [32%N; 34%N] ++ esc_path path ++ [34%N; 10%N]
  | IBlank => nl
  | IData d c => tab ++ t "." ++ d ++ t " " ++ [34%N] ++ c ++ [34%N] ++ nl
  | ILine s => s ++ nl
  end.
Definition print_instrs (mpath : option text) (is : list instr) : text :=
  flat_map (print_instr (match mpath with Some p => p | None => [] end)) is.

Section RENDER.
Variable mpath : option text.      (* Some path = line markers enabled with a non-empty path *)
Definition marker (line : Z) : list instr := match mpath with None => [] | Some _ => [IMarker line] end.
Variable text_labels : list text.

Definition render_stmt (s : stmt) : list instr :=
  match s with
  | SCmd c => marker (tline (ctok c)) ++ [ICmd c]
  | SLabel n g tk => marker (tline tk) ++ [ILabel n g]
  | _ => []
  end.

Definition flag_truthy (l : leaf) : bool :=
  match lop l with
  | OEq => text_eqb (lvalue l) (t "TRUE")
  | ONe => text_eqb (lvalue l) (t "FALSE")
  | _ => false
  end.

Definition render_leaf_cmp (name : text) (l : leaf) (d : Z) : list instr :=
  match lk l with
  | KFlag => [if flag_truthy l then IGotoIfSet (loperand l) (lbl name d) else IGotoIfUnset (loperand l) (lbl name d)]
  | KVar => [ICompare (lstrict l) (loperand l) (lvalue l); IGotoIfCmp (lop l) (lbl name d)]
  | KDefeated => [ICheckTrainer (loperand l); IGotoIf (flag_truthy l) (lbl name d)]
  end.

(* returns (instrs, registered ids, fallthrough) *)
Definition goto_or_fall (name : text) (d next : Z) (minus1_return : bool) : list instr * list Z * bool :=
  if andb minus1_return (Z.eqb d (-1)) then ([IReturn], [], false)
  else if Z.eqb d next then ([], [], true)
  else ([IGoto (lbl name d)], [d], false).

Definition render_branch (name : text) (c : chunk) (next : Z) : list instr * list Z * bool :=
  match cbr c with
  | Some (BrJump d) => goto_or_fall name d next false
  | Some (BrBreak d) => goto_or_fall name d next true
  | Some (BrLeaf l tr fa) =>
      let pre := match lpre l with Some p => [ICmd p] | None => [] end in
      let '(x, regs, fall) := goto_or_fall name fa next true in
      (pre ++ marker (lline l) ++ render_leaf_cmp name l tr ++ x, tr :: regs, fall)
  | Some (BrSwitch operand ol cases def dest) =>
      let hd := marker ol ++ [ISwitch operand] in
      let cs := flat_map (fun '(v, vl, d) => marker vl ++ [ICase v (lbl name d)]) cases in
      let regs := map (fun '(_, _, d) => d) cases in
      match def with
      | Some dd => if Z.eqb dd next then (hd ++ cs, regs, true)
                   else (hd ++ cs ++ [IGoto (lbl name dd)], regs ++ [dd], false)
      | None => if Z.eqb dest next then (hd ++ cs, regs, true)
                else if Z.eqb dest (-1) then (hd ++ cs ++ [IReturn], regs, false)
                else (hd ++ cs ++ [IGoto (lbl name dest)], regs ++ [dest], false)
      end
  | None =>
      if Z.eqb (cret c) (-1) then ([if cend c then IEnd else IReturn], [], false)
      else if Z.eqb (cret c) next then ([], [], true)
      else ([IGoto (lbl name (cret c))], [cret c], false)
  end.

Fixpoint get_chunk (fs : list chunk) (i : Z) : option chunk :=
  match fs with [] => None | c :: r => if Z.eqb (cid c) i then Some c else get_chunk r i end.

Definition chunk_label (name : text) (c : chunk) : text := if Z.eqb (cid c) 0 then name else lbl name (cid c).
Fixpoint clash (labels : list text) (ss : list stmt) : option (token * bool) :=
  match ss with
  | [] => None
  | SLabel n _ tk :: r => if existsb (text_eqb n) labels then Some (tk, false)
                          else if existsb (text_eqb n) text_labels then Some (tk, true) else clash labels r
  | _ :: r => clash labels r
  end.

Fixpoint render_bodies (name : text) (fs : list chunk) (labels : list text) (order : list Z) : res (list (Z * list instr) * list Z) :=
  match order with
  | [] => Ok ([], [])
  | i :: r =>
      let next := match r with n :: _ => n | [] => (-1)%Z end in
      match get_chunk fs i with
      | None => render_bodies name fs labels r
      | Some c =>
          match clash labels (cstmts c) with
          | Some (tk, b) => ErrLabel tk b
          | None =>
              let '(b, regs, fall) := render_branch name c next in
              let body := flat_map render_stmt (cstmts c) ++ b ++ (if fall then [] else [IBlank]) in
              match render_bodies name fs labels r with
              | Ok (rest, regs') => Ok ((i, body) :: rest, regs ++ regs')
              | e => e
              end
          end
      end
  end.

Definition zmem (x : Z) (l : list Z) := existsb (Z.eqb x) l.

Definition render_chunks (name : text) (glob : bool) (fs : list chunk) (order : list Z) : res (list instr) :=
  match render_bodies name fs (map (chunk_label name) fs) order with
  | Ok (bodies, regs) =>
      Ok (flat_map (fun '(i, b) =>
        (if Z.eqb i 0 then [ILabel name glob]
         else if zmem i regs then [ILabel (lbl name i) false] else []) ++ b) bodies)
  | ErrBreak => ErrBreak | ErrContinue => ErrContinue | OutOfFuel => OutOfFuel | ErrLabel tk b => ErrLabel tk b
  end.

(* orders *)
Fixpoint range (n : nat) (from : Z) : list Z := match n with O => [] | S k => from :: range k (from + 1)%Z end.

Definition tail_of (c : chunk) : Z :=
  match cbr c with
  | Some (BrJump d) | Some (BrBreak d) => d
  | Some (BrLeaf _ _ fa) => fa
  | Some (BrSwitch _ _ _ (Some dd) _) => dd
  | Some (BrSwitch _ _ _ None d) => d
  | None => cret c
  end.

Fixpoint first_unvisited (fuel : nat) (i : Z) (n : Z) (visited : list Z) : option Z :=
  match fuel with
  | O => None
  | S f => if Z.ltb i n then (if zmem i visited then first_unvisited f (i + 1)%Z n visited else Some i) else None
  end.

Fixpoint opt_order (fuel : nat) (fs : list chunk) (n : nat) (acc : list Z) (* reversed *) : list Z :=
  match fuel with
  | O => rev acc
  | S f =>
      if Nat.leb n (List.length acc) then rev acc else
      match acc with
      | [] => opt_order f fs n [0%Z]
      | last :: _ =>
          let nxt := match get_chunk fs last with Some c => tail_of c | None => (-1)%Z end in
          if andb (negb (Z.eqb nxt (-1))) (andb (negb (zmem nxt acc)) (match get_chunk fs nxt with Some _ => true | None => false end))
          then opt_order f fs n (nxt :: acc)
          else match first_unvisited (S n) 1 (Z.of_nat n) acc with
               | Some i => opt_order f fs n (i :: acc)
               | None => rev acc
               end
      end
  end.

(* the chunk graph of a body (fuel: far more than any script needs; exhausted fuel is reported, never silently wrong) *)
Definition work_fuel : nat := 10000.
Definition emit_graph (body : list stmt) : res wst :=
  work work_fuel {| remaining := [mk 0 (-1) body None]; finals := []; counter := 0; brk := []; org := [] |}.
(* the chunk order: ascending ids, or the fall-through chains of optimizeChunkOrder *)
Definition order_of (optimize : bool) (G : list chunk) : list Z :=
  let n := List.length G in if optimize then opt_order (S (2 * n)) G n [] else range n 0.

Definition emit_script (name : text) (glob : bool) (optimize : bool) (body : list stmt) : res (list instr) :=
  match emit_graph body with
  | Ok w => render_chunks name glob (finals w) (order_of optimize (finals w))
  | ErrBreak => ErrBreak | ErrContinue => ErrContinue | OutOfFuel => OutOfFuel | ErrLabel tk b => ErrLabel tk b
  end.


(* ---------- top-level emitters ---------- *)
Fixpoint split_nl (s : text) (cur : text) : list text :=
  match s with
  | [] => [rev cur]
  | c :: r => if (c =? 10)%N then rev cur :: split_nl r [] else split_nl r (c :: cur)
  end.

Definition emit_text (x : textdef) : list instr :=
  [ILabel (xname x) (xglob x)] ++ marker (tline (xtok x)) ++
  map (fun line => IData (match xtype x with [] => t "string" | ty => ty end) line) (split_nl (xvalue x) []).

Fixpoint emit_steps (steps : list token) : list instr :=
  match steps with
  | [] => [ILine (tab ++ t "step_end")]
  | s :: r => marker (tline s) ++ [ILine (tab ++ tlit s)] ++ (if text_eqb (tlit s) (t "step_end") then [] else emit_steps r)
  end.
Definition emit_movement (name : text) (glob : bool) (tk : token) (steps : list token) : list instr :=
  marker (tline tk) ++ [ILabel name glob] ++ emit_steps steps.

Fixpoint emit_items (items : list text) (itoks : list token) : list instr :=
  match items, itoks with
  | i :: r, tk :: rt => if text_eqb i (t "ITEM_NONE") then [] else marker (tline tk) ++ [ILine (tab ++ t ".2byte " ++ i)] ++ emit_items r rt
  | _, _ => []
  end.
Definition emit_mart (name : text) (glob : bool) (tk : token) (items : list text) (itoks : list token) : list instr :=
  [ILine (tab ++ t ".align 2")] ++ marker (tline tk) ++ [ILabel name glob] ++ emit_items items itoks ++ [ILine (tab ++ t ".2byte ITEM_NONE")].

Fixpoint emit_raw_lines (lines : list text) (line : Z) : list instr :=
  match lines with
  | [] => []
  | l :: r => marker line ++ [ILine l] ++ emit_raw_lines r (line + 1)%Z
  end.
(* one ILine per source line in both modes: prints the same text as writing the value whole *)
Definition emit_raw (v : text) (line : Z) : list instr := emit_raw_lines (split_nl v []) line.

Definition bind_i {A B} (r : res A) (f : A -> res B) : res B :=
  match r with Ok x => f x | ErrBreak => ErrBreak | ErrContinue => ErrContinue | OutOfFuel => OutOfFuel | ErrLabel tk b => ErrLabel tk b end.

Fixpoint emit_scripts (optimize : bool) (l : list (text * option (list stmt))) : res (list instr) :=
  match l with
  | [] => Ok []
  | (n, None) :: r => emit_scripts optimize r
  | (n, Some b) :: r => bind_i (emit_script n false optimize b) (fun x => bind_i (emit_scripts optimize r) (fun y => Ok (x ++ y)))
  end.

Fixpoint emit_tables (optimize : bool) (l : list tablems) : res (list instr) :=
  match l with
  | [] => Ok []
  | tb :: r =>
      let head := [ILabel (tmName tb) false] ++
                  flat_map (fun e => marker (tline (teCond e)) ++ [ILine (tab ++ t "map_script_2 " ++ teCondLit e ++ t ", " ++ teCmp e ++ t ", " ++ teName e)]) (tmEntries tb) ++
                  [ILine (tab ++ t ".2byte 0"); IBlank] in
      bind_i (emit_scripts optimize (map (fun e => (teName e, teScript e)) (tmEntries tb))) (fun x =>
      bind_i (emit_tables optimize r) (fun y => Ok (head ++ x ++ y)))
  end.

Definition emit_mapscripts (optimize : bool) (name : text) (glob : bool) (plain : list mapscript) (tables : list tablems) : res (list instr) :=
  let hdr := [ILabel name glob] ++
             flat_map (fun m => marker (tline (msType m)) ++ [ILine (tab ++ t "map_script " ++ tlit (msType m) ++ t ", " ++ msName m)]) plain ++
             flat_map (fun tb => marker (tline (tmType tb)) ++ [ILine (tab ++ t "map_script " ++ tlit (tmType tb) ++ t ", " ++ tmName tb)]) tables ++
             [ILine (tab ++ t ".byte 0"); IBlank] in
  bind_i (emit_scripts optimize (map (fun m => (msName m, msScript m)) plain)) (fun inl =>
  bind_i (emit_tables optimize tables) (fun tt => Ok (hdr ++ inl ++ tt))).

Definition emit_top (optimize : bool) (tp : top) : option (res (list instr)) :=
  match tp with
  | TScript n g b => Some (emit_script n g optimize b)
  | TRaw v ln => Some (Ok (emit_raw v ln))
  | TTextStmt => None
  | TMovement n g tk steps => Some (Ok (emit_movement n g tk steps))
  | TMart n g tk items itoks => Some (Ok (emit_mart n g tk items itoks))
  | TMapScripts n g plain tables => Some (emit_mapscripts optimize n g plain tables)
  end.

Fixpoint emit_tops (optimize : bool) (l : list top) (i : nat) : res (list instr * nat) :=
  match l with
  | [] => Ok ([], i)
  | tp :: r =>
      match emit_top optimize tp with
      | None => emit_tops optimize r i
      | Some rt =>
          bind_i rt (fun x => bind_i (emit_tops optimize r (S i)) (fun '(y, n) =>
            Ok ((match i with O => [] | _ => [IBlank] end) ++ x ++ y, n)))
      end
  end.

Fixpoint emit_texts (l : list textdef) (k : nat) : list instr :=
  match l with
  | [] => []
  | x :: r => (match k with O => [] | _ => [IBlank] end) ++ emit_text x ++ emit_texts r (S k)
  end.

End RENDER.

Definition emit_program_instrs (optimize : bool) (mpath : option text) (p : program) : res (list instr) :=
  let tl := map xname (texts p) in
  match emit_tops mpath tl optimize (tops p) 0 with
  | Ok (x, n) => Ok (x ++ emit_texts mpath (texts p) n)
  | ErrBreak => ErrBreak | ErrContinue => ErrContinue | OutOfFuel => OutOfFuel | ErrLabel tk b => ErrLabel tk b
  end.

Definition emit_program (optimize : bool) (mpath : option text) (p : program) : res text :=
  match emit_program_instrs optimize mpath p with
  | Ok is => Ok (print_instrs mpath is)
  | ErrBreak => ErrBreak | ErrContinue => ErrContinue | OutOfFuel => OutOfFuel | ErrLabel tk b => ErrLabel tk b
  end.

