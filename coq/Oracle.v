(* Prototype: the C01/C02/C03/C11 oracle: source semantics of the model-parsed scripts vs. the target
   semantics of the instructions read back from the implementation's output text. *)
From Coq Require Import List String Ascii ZArith NArith Bool.
From Pory Require Import Lexer Ast Parser Emitter Format Compile Sem2 SemTgt Tr Check EmitProps RenderSim RenderCheck LabelSim C01Final Worklist C01Main.
Import ListNotations.

Section O.
Variable is_letter_hi is_digit_hi is_space_hi : N -> bool.
Variable autovars : list (text * autovar).
Variable switches : list (text * text).
Variable fc : fontcfg.

(* returns, for every script of the program, the first oracle seed on which the implementation's
   output disagrees with the source semantics (None = agreed on all seeds) *)
Definition oracle (src out : text) (nseeds fs ft : nat) : option (list (text * option N)) :=
  let ts := lex is_letter_hi is_digit_hi is_space_hi src in
  match parse_program autovars switches true (parse_format fc [] 0%Z true) ts with
  | Parser.Ok p =>
      let code := read_asm out in
      Some (flat_map (fun tp => match tp with
                                | TScript n _ b => [(n, first_disagreement fs ft b code n nseeds)]
                                | _ => []
                                end) (tops p))
  | _ => None
  end.

(* the verified relation checker on the model's own chunk graph of every script *)
Definition check_script (body : list stmt) : bool :=
  match emit_graph body with
  | Emitter.Ok w => chk_block (finals w) (brk w) (org w) 400 body 0 (-1)
  | _ => false
  end.

Definition scripts_of (p : program) : list (text * list stmt) :=
  flat_map (fun tp => match tp with
                      | TScript n _ b => [(n, b)]
                      | TMapScripts _ _ plain tables =>
                          flat_map (fun m => match msScript m with Some b => [(msName m, b)] | None => [] end) plain ++
                          flat_map (fun tb => flat_map (fun e => match teScript e with Some b => [(teName e, b)] | None => [] end) (tmEntries tb)) tables
                      | _ => []
                      end) (tops p).

Definition checker (src : text) : option (list (text * bool)) :=
  let ts := lex is_letter_hi is_digit_hi is_space_hi src in
  match parse_program autovars switches true (parse_format fc [] 0%Z true) ts with
  | Parser.Ok p => Some (map (fun nb : text * list stmt => let '(n, b) := nb in (n, check_script b)) (scripts_of p))
  | _ => None
  end.

(* the source check of theorem emit_script_correct (src_okb), its two validators (wf_render, labels_okb) and - redundantly since lemma 1 - the relation checker, on the model's own graph, order and code of every script *)
Definition validate_script (mp : option text) (tl : list text) (name : text) (glob optimize : bool) (body : list stmt) : bool :=
  match emit_graph body with
  | Emitter.Ok w =>
      let G := finals w in
      let order := order_of optimize G in
      match render_chunks mp tl name glob G order with
      | Emitter.Ok code => src_okb body && chk_block G (brk w) (org w) 400 body 0 (-1) && wf_render mp name G order code && labels_okb body G
      | _ => true      (* label clash: an error is returned, nothing is emitted *)
      end
  | _ => false
  end.

Definition validator (optimize : bool) (src : text) : option (list (text * bool)) :=
  let ts := lex is_letter_hi is_digit_hi is_space_hi src in
  match parse_program autovars switches true (parse_format fc [] 0%Z true) ts with
  | Parser.Ok p =>
      let tl := map xname (texts p) in
      Some (flat_map (fun tp => match tp with
                                | TScript n g b => [(n, validate_script None tl n g optimize b)]
                                | TMapScripts _ _ plain tables =>
                                    flat_map (fun m => match msScript m with Some b => [(msName m, validate_script None tl (msName m) false optimize b)] | None => [] end) plain ++
                                    flat_map (fun tb => flat_map (fun e => match teScript e with Some b => [(teName e, validate_script None tl (teName e) false optimize b)] | None => [] end) (tmEntries tb)) tables
                                | _ => []
                                end) (tops p))
  | _ => None
  end.

(* the model's parse of a source (what the author wrote: names, labels, scopes, inline texts), for the direct oracles *)
Definition parse_model (env_errors : bool) (cli_font : text) (cli_maxlen : Z) (src : text) : option program :=
  let ts := lex is_letter_hi is_digit_hi is_space_hi src in
  match parse_program autovars switches env_errors (parse_format fc cli_font cli_maxlen env_errors) ts with
  | Parser.Ok p => Some p
  | _ => None
  end.
End O.
