(* Prototype: one-step semantics (source, normalised; chunk graph) + generic iteration lemmas. *)
From Coq Require Import List String Ascii ZArith NArith Lia Bool.
From Pory Require Import Lexer Ast Emitter.
Import ListNotations.
Open Scope list_scope.

Inductive outcome := OReturn | OEnd | OJumpOut (l : text) | OStopped | OStuck.
Inductive status := Done (o : outcome) | Running.
Definition event := cmd.
Definition result := (list event * status)%type.

(* ---------- generic iteration of a deterministic step function ---------- *)
Section ITER.
Variable State St : Type.
Variable final : State -> option outcome.
Variable step : State -> St -> list event * State * St.

Fixpoint run (n : nat) (a : State) (s : St) : result :=
  match final a with
  | Some o => ([], Done o)
  | None =>
      match n with
      | O => ([], Running)
      | S k => let '(ev, a', s') := step a s in
               let '(tr, st) := run k a' s' in (ev ++ tr, st)
      end
  end.

(* a takes j steps to b emitting ev *)
Inductive steps : nat -> State -> St -> list event -> State -> St -> Prop :=
| steps_O a s : steps 0 a s [] a s
| steps_S j a s ev a1 s1 ev' b s' :
    final a = None -> step a s = (ev, a1, s1) -> steps j a1 s1 ev' b s' ->
    steps (S j) a s (ev ++ ev') b s'.

Lemma steps_trans j1 j2 a s e1 b s1 e2 c s2 :
  steps j1 a s e1 b s1 -> steps j2 b s1 e2 c s2 -> steps (j1 + j2) a s (e1 ++ e2) c s2.
Proof.
  induction 1; intros H2; cbn; auto.
  rewrite <- app_assoc. econstructor; eauto.
Qed.

Lemma steps_one a s ev b s' : final a = None -> step a s = (ev, b, s') -> steps 1 a s ev b s'.
Proof. intros. replace ev with (ev ++ []) by apply app_nil_r. econstructor; eauto. constructor. Qed.

Lemma run_steps j a s ev b s' : steps j a s ev b s' ->
  forall m, run (j + m) a s = (ev ++ fst (run m b s'), snd (run m b s')).
Proof.
  induction 1; intros m; cbn [plus].
  - cbn. destruct (run m a s); reflexivity.
  - cbn [run]. rewrite H, H0. rewrite IHsteps. cbn. rewrite app_assoc. reflexivity.
Qed.

Lemma run_final n a s o : final a = Some o -> run n a s = ([], Done o).
Proof. intros H. destruct n; cbn; rewrite H; reflexivity. Qed.

Definition prefix {A} (l1 l2 : list A) := exists r, l2 = l1 ++ r.
Definition res_le (r1 r2 : result) :=
  prefix (fst r1) (fst r2) /\ (forall o, snd r1 = Done o -> r2 = r1).

Lemma res_le_refl r : res_le r r.
Proof. split; [exists []; now rewrite app_nil_r | auto]. Qed.

Lemma run_mono n : forall a s m, n <= m -> res_le (run n a s) (run m a s).
Proof.
  induction n; intros a s m Hle.
  - cbn. destruct (final a) eqn:F.
    + rewrite (run_final m _ _ _ F). apply res_le_refl.
    + split; [exists (fst (run m a s)); reflexivity | cbn; discriminate].
  - destruct m; [lia|]. cbn. destruct (final a) eqn:F; [apply res_le_refl|].
    destruct (step a s) as [[ev a'] s'].
    specialize (IHn a' s' m ltac:(lia)).
    destruct (run n a' s') as [t1 st1], (run m a' s') as [t2 st2].
    destruct IHn as [[r Hr] Hd]. cbn in *. split.
    + exists r. cbn. subst. now rewrite app_assoc.
    + cbn. intros o Ho. specialize (Hd o Ho). inversion Hd; subst. reflexivity.
Qed.
End ITER.
Arguments steps {State St}.
Arguments run {State St}.
Arguments res_le_refl : clear implicits.

(* ---------- oracles ---------- *)
Section SEM.
Variable St : Type.
Inductive stepres := Continue (s : St) | Stop.
Variable exec : cmd -> St -> stepres.
Variable flag_set : text -> St -> bool.
Variable trainer_beaten : text -> St -> bool.
Variable cmp_var : text -> text -> St -> comparison.
Variable cmp_var_value : text -> text -> St -> comparison.
Variable case_matches : text -> text -> St -> bool.

Definition cmp_holds (o : cmpop) (c : comparison) : bool :=
  match o, c with
  | OEq, Eq => true | ONe, Lt => true | ONe, Gt => true
  | OLt, Lt => true | OLe, Lt => true | OLe, Eq => true
  | OGt, Gt => true | OGe, Gt => true | OGe, Eq => true
  | _, _ => false
  end.

Definition leaf_holds (l : leaf) (s : St) : bool :=
  match lk l with
  | KFlag => Bool.eqb (flag_set (loperand l) s) (flag_truthy l)
  | KDefeated => Bool.eqb (trainer_beaten (loperand l) s) (flag_truthy l)
  | KVar => cmp_holds (lop l) ((if lstrict l then cmp_var_value else cmp_var) (loperand l) (lvalue l) s)
  end.

(* evaluation of a leaf incl. preamble *)
Definition eval_leaf (l : leaf) (s : St) : list event * St * option bool :=
  match lpre l with
  | None => ([], s, Some (leaf_holds l s))
  | Some p => match exec p s with
              | Continue s' => ([p], s', Some (leaf_holds l s'))
              | Stop => ([p], s, None)
              end
  end.

Fixpoint eval_bexp (e : bexp) (s : St) : list event * St * option bool :=
  match e with
  | BLeaf l => eval_leaf l s
  | BBin o a b =>
      match eval_bexp a s with
      | (ev, s1, None) => (ev, s1, None)
      | (ev, s1, Some va) =>
          let short := match o with BAnd => negb va | BOr => va end in
          if short then (ev, s1, Some va)
          else let '(ev2, s2, r) := eval_bexp b s1 in (ev ++ ev2, s2, r)
      end
  end.

(* if / elif chain: which body *)
Fixpoint eval_conds (cs : list (bexp * list stmt)) (s : St) : list event * St * option (option (list stmt)) :=
  match cs with
  | [] => ([], s, Some None)
  | (e, b) :: more =>
      match eval_bexp e s with
      | (ev, s', None) => (ev, s', None)
      | (ev, s', Some true) => (ev, s', Some (Some b))
      | (ev, s', Some false) => let '(ev2, s2, r) := eval_conds more s' in (ev ++ ev2, s2, r)
      end
  end.

(* ---------- source ---------- *)
Inductive cont :=
| Kstop
| Kseq (ss : list stmt) (k : cont)
| Kwhile (tag : nat) (c : option bexp) (body : list stmt) (k : cont)
| Kdowhile (tag : nat) (body : list stmt) (c : bexp) (k : cont)
| Kswitch (tag : nat) (k : cont).

Definition kseq (r : list stmt) (k : cont) : cont := match r with [] => k | _ => Kseq r k end.

Inductive sstate :=
| SRun (s : stmt) (rest : list stmt) (k : cont)
| SLoopW (tag : nat) (c : option bexp) (b : list stmt) (k : cont)
| SLoopD (tag : nat) (b : list stmt) (c : bexp) (k : cont)
| SFinal (o : outcome).

Fixpoint resume (k : cont) : sstate :=
  match k with
  | Kstop => SFinal OReturn
  | Kseq [] k' => resume k'
  | Kseq (s :: r) k' => SRun s r k'
  | Kswitch _ k' => resume k'
  | Kwhile t c b k' => SLoopW t c b k'
  | Kdowhile t b c k' => SLoopD t b c k'
  end.
Definition enter (ss : list stmt) (k : cont) : sstate :=
  match ss with [] => resume k | s :: r => SRun s r k end.

(* switch selection spec *)
Fixpoint next_body (cs : list scase) : list stmt :=
  match cs with
  | [] => []
  | c :: r => match sc_body c with [] => next_body r | b => b end
  end.
Fixpoint select_match (cs : list scase) (m : text -> bool) : option (list stmt) :=
  match cs with
  | [] => None
  | c :: r => if andb (negb (sc_def c)) (m (sc_val c)) then Some (next_body cs) else select_match r m
  end.
Fixpoint select_default (cs : list scase) : option (list stmt) :=
  match cs with
  | [] => None
  | c :: r => if sc_def c then Some (next_body cs) else select_default r
  end.
Definition select_case (cs : list scase) (m : text -> bool) : list stmt :=
  match select_match cs m with
  | Some b => b
  | None => match select_default cs with Some b => b | None => [] end
  end.

(* lexical break / continue *)
Fixpoint pop_break (k : cont) : option cont :=
  match k with
  | Kstop => None
  | Kseq _ k' => pop_break k'
  | Kwhile _ _ _ k' | Kdowhile _ _ _ k' | Kswitch _ k' => Some k'
  end.
Fixpoint pop_continue (k : cont) : option sstate :=
  match k with
  | Kstop => None
  | Kseq _ k' | Kswitch _ k' => pop_continue k'
  | Kwhile t c b k' => Some (SLoopW t c b k')
  | Kdowhile t b c k' => Some (enter b (Kdowhile t b c k'))
  end.

Definition is_name (c : cmd) (n : string) := text_eqb (cname c) (t n).

Definition loop_test_w (tg : nat) (c : option bexp) (b : list stmt) (k : cont) (s : St) : list event * sstate * St :=
  match c with
  | None => ([], enter b (Kwhile tg c b k), s)
  | Some e => match eval_bexp e s with
              | (ev, s', None) => (ev, SFinal OStopped, s')
              | (ev, s', Some true) => (ev, enter b (Kwhile tg c b k), s')
              | (ev, s', Some false) => (ev, resume k, s')
              end
  end.

Section WITHBODY.
Variable find_label : text -> option sstate.   (* body-specific; defined later *)

Definition sstep (a : sstate) (s : St) : list event * sstate * St :=
  match a with
  | SFinal o => ([], a, s)
  | SLoopW tg c b k => loop_test_w tg c b k s
  | SLoopD tg b e k =>
      match eval_bexp e s with
      | (ev, s', None) => (ev, SFinal OStopped, s')
      | (ev, s', Some true) => (ev, enter b (Kdowhile tg b e k), s')
      | (ev, s', Some false) => (ev, resume k, s')
      end
  | SRun st rest k =>
      match st with
      | SLabel _ _ _ => ([], enter rest k, s)
      | SCmd c =>
          if is_name c "end" then ([], SFinal OEnd, s)
          else if is_name c "return" then ([], SFinal OReturn, s)
          else if is_name c "goto" then
            match cargs c with
            | [l] => match find_label l with
                     | Some a' => ([], a', s)
                     | None => ([], SFinal (OJumpOut l), s)
                     end
            | _ => ([], SFinal OStuck, s)
            end
          else match exec c s with
               | Continue s' => ([c], enter rest k, s')
               | Stop => ([c], SFinal OStopped, s)
               end
      | SIf conds els =>
          match eval_conds conds s with
          | (ev, s', None) => (ev, SFinal OStopped, s')
          | (ev, s', Some (Some b)) => (ev, enter b (kseq rest k), s')
          | (ev, s', Some None) =>
              match els with
              | Some b => (ev, enter b (kseq rest k), s')
              | None => (ev, enter rest k, s')
              end
          end
      | SWhile tg c b => loop_test_w tg c b (kseq rest k) s
      | SDoWhile tg b e => ([], enter b (Kdowhile tg b e (kseq rest k)), s)
      | SBreak _ => match pop_break k with
                    | Some k' => ([], resume k', s)
                    | None => ([], SFinal OStuck, s)
                    end
      | SContinue _ => match pop_continue k with
                       | Some a' => ([], a', s)
                       | None => ([], SFinal OStuck, s)
                       end
      | SSwitch tg operand _ cases =>
          ([], enter (select_case cases (fun v => case_matches operand v s)) (Kswitch tg (kseq rest k)), s)
      end
  end.
Definition sfinal (a : sstate) : option outcome := match a with SFinal o => Some o | _ => None end.
End WITHBODY.

(* ---------- chunk graph ---------- *)
Variable G : list chunk.

Inductive gstate := GAt (c : chunk) (rem : list stmt) | GFinal (o : outcome).
Definition gfinal (a : gstate) : option outcome := match a with GFinal o => Some o | _ => None end.

Definition ggoto (d : Z) : gstate :=
  match get_chunk G d with Some c => GAt c (cstmts c) | None => GFinal OStuck end.
Definition ggoto_ret (d : Z) : gstate := if Z.eqb d (-1) then GFinal OReturn else ggoto d.

Fixpoint first_case (cs : list (text * Z * Z)) (m : text -> bool) : option Z :=
  match cs with [] => None | (v, _, d) :: r => if m v then Some d else first_case r m end.

Fixpoint after_label (l : text) (ss : list stmt) : option (list stmt) :=
  match ss with
  | [] => None
  | SLabel n _ _ :: r => if text_eqb n l then Some r else after_label l r
  | _ :: r => after_label l r
  end.
Fixpoint graph_find_label (l : text) (cs : list chunk) : option gstate :=
  match cs with
  | [] => None
  | c :: r => match after_label l (cstmts c) with Some ss => Some (GAt c ss) | None => graph_find_label l r end
  end.

Definition gstep (a : gstate) (s : St) : list event * gstate * St :=
  match a with
  | GFinal _ => ([], a, s)
  | GAt c (st :: rest) =>
      match st with
      | SLabel _ _ _ => ([], GAt c rest, s)
      | SCmd cm =>
          if is_name cm "end" then ([], GFinal OEnd, s)
          else if is_name cm "return" then ([], GFinal OReturn, s)
          else if is_name cm "goto" then
            match cargs cm with
            | [l] => match graph_find_label l G with
                     | Some a' => ([], a', s)
                     | None => ([], GFinal (OJumpOut l), s)
                     end
            | _ => ([], GFinal OStuck, s)
            end
          else match exec cm s with
               | Continue s' => ([cm], GAt c rest, s')
               | Stop => ([cm], GFinal OStopped, s)
               end
      | _ => ([], GFinal OStuck, s)
      end
  | GAt c [] =>
      match cbr c with
      | None => if Z.eqb (cret c) (-1) then ([], GFinal (if cend c then OEnd else OReturn), s) else ([], ggoto (cret c), s)
      | Some (BrJump d) => ([], ggoto d, s)
      | Some (BrBreak d) => ([], ggoto_ret d, s)
      | Some (BrLeaf l tr fa) =>
          match eval_leaf l s with
          | (ev, s', None) => (ev, GFinal OStopped, s')
          | (ev, s', Some true) => (ev, ggoto tr, s')
          | (ev, s', Some false) => (ev, ggoto_ret fa, s')
          end
      | Some (BrSwitch operand _ cases def dest) =>
          match first_case cases (fun v => case_matches operand v s) with
          | Some d => ([], ggoto d, s)
          | None => match def with
                    | Some dd => ([], ggoto dd, s)
                    | None => ([], ggoto_ret dest, s)
                    end
          end
      end
  end.

End SEM.
