(* C12 - poryswitch in STATEMENT position inside the body of an INLINE MAP SCRIPT
   ( mapscripts M { TYPE { ... poryswitch(V) {...} ... } } ), the analogue of TwinProgram.v for parse_mapscripts / ms_entries.

   The twin of a token stream  U ++ z  with a statement poryswitch at z is  U ++ body ++ rest : body = the tokens of the
   statements of the selected case (the last case labelled with the -s value, else the last case labelled '_'), rest = the
   tokens behind the closing brace of the poryswitch; every token keeps its position.

   Position of the poryswitch: the top-level loop reaches the `mapscripts` keyword (Independence.tops_run from the initial
   state, any top-level statements in front); header  [scope] mapscripts NAME {  ; the entry loop ms_entries runs over ANY
   number of complete entries of ANY of the three forms ( TYPE: label / TYPE { script } / TYPE [ table, also with inline
   scripts ] ) - relation ms_run - and reaches an entry  TYPE {  ; in its block a run b1 of statements (TwinParse.srun) leads
   to the poryswitch at z.  Entries behind that entry and top-level statements behind the mapscripts statement are arbitrary
   (they only have to parse); other poryswitches may occur anywhere else, also inside the selected case.

   MAIN STATEMENTS (all closed under the global context; pf = the format() operator with format_advs / format_local /
   format_lt, theorems for Format.parse_format; the *_compile theorems are about Compile.compile itself)

   twin_mapscripts_at    parse_mapscripts c f (U ++ z) = Ok (tp, imp, y)  ==>  there is ONE injective renaming G of the ids
                         (loop / switch tags, command ids) with  parse_mapscripts c f (U ++ body ++ rest) =
                         Ok (g_top G tp, g_imp G imp, y) : the twin statement is the original one up to ids.
   twin_ms_program_at    parse_program (U ++ z) = Ok p1  ==>  exists p2, parse_program (U ++ body ++ rest) = Ok p2 /\
                         TagRename.shape_program p1 = TagRename.shape_program p2, and the twin is strictly shorter.
                         Selected case GIVEN by its tokens (body ++ ra behind the header, a run of statements that gives
                         exactly the selected entry of the case table, ra starts with '}' or a case label).
   twin_ms_program       the same with the selected case FOUND (TwinParse.twin_block_step): exists l key l1 l2 tsc ra tsn body,
                         case table = rev l, l = l1 ++ (key, (ss, imp')) :: l2, key not in l2, key = the switch value or
                         ('_' and the value labels no case), the case is written at tsc, adv (adv tsc) = body ++ ra.
   twin_ms_compile_at    lex src = U ++ z, lex src' = U ++ body ++ rest, src parses  ==>
                         Compile.compile .. src = Compile.compile .. src'  (same text, or same emitter error).
   twin_ms_compile       the existential form of it.
   no_case_ms_program, no_case_ms_compile    same position, no case for the -s value and no '_', normal mode: parse_program
                         answers the error "no poryswitch case found" at the poryswitch token; Compile.compile = OutErr of it.
   Proof steps: ms_run_entries (the loop goes on from the end of a run), ms_entries_acc (accumulators are only appended to),
   ms_run_swap (a run does not see the end of the stream: Independence.parse_block_swap / ms_table_swap per entry),
   block_range / ms_table_range / ms_entries_range / ms_run_range (where the ids of entries lie), one_renaming_pt (the shift of
   the entries and statements in front, the shift of the case body and the identity behind are ONE injective renaming),
   TwinProgram.twin_script_block_at (the block step: the body of an inline map script is parsed by the same parse_block),
   Independence.patch_top_g / add_implicit_g (hoisting and patching commute with the renaming), tops_run_context.
   Examples: twin_ms_compile_example (hypotheses of twin_ms_compile_at on a program with a text statement, a mapscripts
   statement with label entry, table with inline script, inline script, the entry with a 3-case poryswitch, one more entry,
   and a script behind), twin_ms_compile_example_nontrivial (it compiles to text; the two ASTs differ), no_case_ms_example.

   ANY DEPTH (Part 8): the poryswitch nested in control constructs inside the inline map script (TwinIf.nest2: bodies of
   if / elif / else / while / do-while and switch cases, any depth; bsz / csz = the break / continue scopes at the poryswitch):
   twin_mapscripts_nested   the statement-level twin with ONE injective renaming G (TwinIf.nest2_twin for the block),
   ms_program_lift          the lift from ANY statement-level twin "up to one injective renaming" to parse_program,
   twin_ms_nested_program_at, twin_ms_nested_compile_at   the program-level and compile-level twins; extra premise as in TwinIf:
                         csz = [] \/ TwinParse.LC ra rest (boundary B1: a case body that ends with `continue` inside a loop).

   NOT PROVED HERE: the poryswitch inside the inline script of a TABLE entry ( TYPE [ a, b { .. poryswitch .. } ] ); the
   existential ("case FOUND") and no-case forms at depth > 0; a concrete Example for the nested theorems (the direct ones have
   Examples); the case "the original does not parse" (all cases are parsed: TwinProgram.other_case_error_counterexample). *)
From Coq Require Import List String Ascii ZArith NArith Lia Bool.
From Pory Require Import Lexer Ast Parser Consume Independence.
From Pory Require PorySwitchLists FuelOk TagRename ProgSrc TwinParse SrcWf HoistProgram ParseWf LabelSim Worklist Tr Compile Format TwinProgram TwinNested TwinIf.
Import ListNotations.
Open Scope list_scope.

(* ------------------------------------------------------------------------------------------------------------ *)
(* Part 1: the entry loop of a mapscripts statement as a run over complete entries                               *)
(* ------------------------------------------------------------------------------------------------------------ *)
Section RUN.
Variable av : list (text * autovar).
Variable sw : list (text * text).
Variable ee : bool.
Variable pf : toks -> res (token * text * text * toks).
Variable c : list (text * text).
Local Notation P_block := (parse_block av sw ee pf c).
Local Notation M_entries := (ms_entries av sw ee pf c).
Local Notation M_table := (ms_table av sw ee pf c).

(* ms_run name f x p q i f' x' p' q' i' : started at x (fuel f, accumulators p q i) the loop ms_entries reads complete
   entries and arrives at x' with fuel f' and accumulators p' q' i' *)
Inductive ms_run (name : text) : nat -> toks -> list mapscript -> list tablems -> impdata ->
                                 nat -> toks -> list mapscript -> list tablems -> impdata -> Prop :=
| mr_nil f x p q i : ms_run name f x p q i f x p q i
| mr_label f x p q i ts2 f' x' p' q' i' :
    curis RBRACE x = false -> curis IDENT x = true -> curis COLON (adv x) = true ->
    expect_peek IDENT (adv x) = Some ts2 ->
    ms_run name f (adv ts2) (p ++ [{| msType := cur x; msName := tlit (cur ts2); msScript := None |}]) q i f' x' p' q' i' ->
    ms_run name (S f) x p q i f' x' p' q' i'
| mr_script f x p q i b imp' ts2 f' x' p' q' i' :
    curis RBRACE x = false -> curis IDENT x = true -> curis COLON (adv x) = false -> curis LBRACE (adv x) = true ->
    P_block f (name ++ t "_" ++ tlit (cur x)) [] [] (cur (adv x)) (adv (adv x)) [] imp0 = Ok (b, imp', ts2) ->
    ms_run name f (adv ts2) (p ++ [{| msType := cur x; msName := name ++ t "_" ++ tlit (cur x); msScript := Some b |}]) q (impadd i imp')
           f' x' p' q' i' ->
    ms_run name (S f) x p q i f' x' p' q' i'
| mr_table f x p q i es imp' ts2 f' x' p' q' i' :
    curis RBRACE x = false -> curis IDENT x = true -> curis COLON (adv x) = false -> curis LBRACE (adv x) = false ->
    curis LBRACKET (adv x) = true ->
    M_table f name (tlit (cur x)) (adv (adv x)) 0 [] imp0 = Ok (es, imp', ts2) ->
    ms_run name f (adv ts2) p (q ++ [{| tmType := cur x; tmName := name ++ t "_" ++ tlit (cur x); tmEntries := es |}]) (impadd i imp')
           f' x' p' q' i' ->
    ms_run name (S f) x p q i f' x' p' q' i'.

(* the loop goes on from there as if it had been started there *)
Lemma ms_run_entries name f x p q i f' x' p' q' i' :
  ms_run name f x p q i f' x' p' q' i' -> M_entries f name x p q i = M_entries f' name x' p' q' i'.
Proof.
  induction 1 as [f x p q i
                 |f x p q i ts2 f' x' p' q' i' NR CI CC EP R IH
                 |f x p q i b imp' ts2 f' x' p' q' i' NR CI CC CL PB R IH
                 |f x p q i es imp' ts2 f' x' p' q' i' NR CI CC CL CK MT R IH]; [reflexivity| | |].
  - cbn [ms_entries]. rewrite NR, CI. cbn [negb]. cbv zeta. rewrite CC, EP. exact IH.
  - cbn [ms_entries]. rewrite NR, CI. cbn [negb]. cbv zeta. rewrite CC, CL, PB. exact IH.
  - cbn [ms_entries]. rewrite NR, CI. cbn [negb]. cbv zeta. rewrite CC, CL, CK, MT. exact IH.
Qed.

(* one entry  TYPE { block }  *)
Lemma ms_entries_script_step name f x p q i :
  curis RBRACE x = false -> curis IDENT x = true -> curis COLON (adv x) = false -> curis LBRACE (adv x) = true ->
  M_entries (S f) name x p q i =
  match P_block f (name ++ t "_" ++ tlit (cur x)) [] [] (cur (adv x)) (adv (adv x)) [] imp0 with
  | Ok (b, imp', ts2) =>
      M_entries f name (adv ts2) (p ++ [{| msType := cur x; msName := name ++ t "_" ++ tlit (cur x); msScript := Some b |}]) q (impadd i imp')
  | Err e => Err e | Panic => Panic | Fuel => Fuel end.
Proof.
  intros NR CI CC CL. cbn [ms_entries]. rewrite NR, CI. cbn [negb]. cbv zeta. rewrite CC, CL.
  destruct (P_block f (name ++ t "_" ++ tlit (cur x)) [] [] (cur (adv x)) (adv (adv x)) [] imp0) as [[[b imp'] ts2]| | |]; reflexivity.
Qed.

(* the accumulators are only appended to *)
Lemma ms_entries_acc name : forall f x p q i,
  M_entries f name x p q i =
  match M_entries f name x [] [] imp0 with
  | Ok (p', q', i', y) => Ok (p ++ p', q ++ q', impadd i i', y) | Err e => Err e | Panic => Panic | Fuel => Fuel end.
Proof.
  induction f as [|f IH]; intros x p q i; [reflexivity|]. cbn [ms_entries].
  destruct (curis RBRACE x); [rewrite !app_nil_r, TwinParse.impadd_imp0_r; reflexivity|].
  destruct (negb (curis IDENT x)); [reflexivity|]. cbv zeta.
  destruct (curis COLON (adv x)).
  - destruct (expect_peek IDENT (adv x)) as [ts2|]; [|reflexivity].
    rewrite (IH (adv ts2) (p ++ _) q i). rewrite (IH (adv ts2) ([] ++ _) [] imp0).
    destruct (M_entries f name (adv ts2) [] [] imp0) as [[[[p' q'] i'] y]| | |]; try reflexivity.
    cbn [app]. rewrite <- app_assoc, TwinParse.impadd_imp0_l. reflexivity.
  - destruct (curis LBRACE (adv x)).
    + destruct (P_block f (name ++ t "_" ++ tlit (cur x)) [] [] (cur (adv x)) (adv (adv x)) [] imp0) as [[[b imp'] ts2]| | |]; try reflexivity.
      cbv beta iota.
      rewrite (IH (adv ts2) (p ++ _) q (impadd i imp')). rewrite (IH (adv ts2) ([] ++ _) [] (impadd imp0 imp')).
      destruct (M_entries f name (adv ts2) [] [] imp0) as [[[[p' q'] i'] y]| | |]; try reflexivity.
      cbn [app]. rewrite <- app_assoc, TwinParse.impadd_imp0_l, TwinParse.impadd_assoc. reflexivity.
    + destruct (curis LBRACKET (adv x)); [|reflexivity].
      destruct (M_table f name (tlit (cur x)) (adv (adv x)) 0 [] imp0) as [[[es imp'] ts2]| | |]; try reflexivity.
      cbv beta iota.
      rewrite (IH (adv ts2) p (q ++ _) (impadd i imp')). rewrite (IH (adv ts2) [] ([] ++ _) (impadd imp0 imp')).
      destruct (M_entries f name (adv ts2) [] [] imp0) as [[[[p' q'] i'] y]| | |]; try reflexivity.
      cbn [app]. rewrite <- app_assoc, TwinParse.impadd_imp0_l, TwinParse.impadd_assoc. reflexivity.
Qed.

Hypothesis pf_advs : format_advs pf.

Lemma ms_run_advs name f x p q i f' x' p' q' i' : ms_run name f x p q i f' x' p' q' i' -> advs x x'.
Proof.
  induction 1 as [f x p q i
                 |f x p q i ts2 f' x' p' q' i' NR CI CC EP R IH
                 |f x p q i b imp' ts2 f' x' p' q' i' NR CI CC CL PB R IH
                 |f x p q i es imp' ts2 f' x' p' q' i' NR CI CC CL CK MT R IH]; [apply advs_refl| | |].
  - eapply advs_trans; [|exact IH]. apply advs_adv_r. rewrite (expect_peek_some _ _ _ EP). apply advs_adv_r, advs_adv_r, advs_refl.
  - eapply advs_trans; [|exact IH]. apply advs_adv_r. eapply parse_block_advs; [exact pf_advs|exact PB|]. apply advs_adv_r, advs_adv_r, advs_refl.
  - eapply advs_trans; [|exact IH]. apply advs_adv_r. eapply ms_table_advs; [exact pf_advs|exact MT|]. apply advs_adv_r, advs_adv_r, advs_refl.
Qed.

(* fuel: every entry costs one unit and at least one token *)
Lemma ms_run_fuel name k f x p q i f' x' p' q' i' : ms_run name f x p q i f' x' p' q' i' -> eof_ended x ->
  (5 * len x + k <= f)%nat -> (5 * len x' + k <= f')%nat.
Proof.
  induction 1 as [f x p q i
                 |f x p q i ts2 f' x' p' q' i' NR CI CC EP R IH
                 |f x p q i b imp' ts2 f' x' p' q' i' NR CI CC CL PB R IH
                 |f x p q i es imp' ts2 f' x' p' q' i' NR CI CC CL CK MT R IH]; intros E B; [exact B| | |].
  all: assert (NE : ttype (cur x) <> EOF) by (apply TwinParse.curis_eof_ne; apply (TwinParse.curis_excl IDENT EOF); [exact CI|discriminate]).
  all: pose proof (adv_strict x E NE) as L1.
  - assert (A : advs x (adv ts2)) by (apply advs_adv_r; rewrite (expect_peek_some _ _ _ EP); apply advs_adv_r, advs_adv_r, advs_refl).
    assert (A' : advs (adv x) (adv ts2)) by (apply advs_adv_r; rewrite (expect_peek_some _ _ _ EP); apply advs_adv_r, advs_refl).
    pose proof (advs_len _ _ A') as L2. apply IH; [eapply advs_eof; [exact A|exact E]|lia].
  - assert (A' : advs (adv x) (adv ts2)) by (apply advs_adv_r; eapply parse_block_advs; [exact pf_advs|exact PB|]; apply advs_adv_r, advs_refl).
    pose proof (advs_len _ _ A') as L2. apply IH; [eapply advs_eof; [eapply advs_trans; [apply advs_adv_r, advs_refl|exact A']|exact E]|lia].
  - assert (A' : advs (adv x) (adv ts2)) by (apply advs_adv_r; eapply ms_table_advs; [exact pf_advs|exact MT|]; apply advs_adv_r, advs_refl).
    pose proof (advs_len _ _ A') as L2. apply IH; [eapply advs_eof; [eapply advs_trans; [apply advs_adv_r, advs_refl|exact A']|exact E]|lia].
Qed.
End RUN.

(* ------------------------------------------------------------------------------------------------------------ *)
(* Part 2: a run of entries does not see what follows it (the end ra of the stream replaced by rb)               *)
(* ------------------------------------------------------------------------------------------------------------ *)
Section RUNSWAP.
Variables ra rb : toks.
Hypothesis ra_ne : ra <> [].
Hypothesis rb_ne : rb <> [].
Variable av : list (text * autovar).
Variable sw : list (text * text).
Variable ee : bool.
Variable pf : toks -> res (token * text * text * toks).
Variable c : list (text * text).
Hypothesis pf_advs : format_advs pf.
Hypothesis pf_local : format_local pf.
Local Notation swp := (swap ra rb).
Local Notation s := (sh ra rb).

Lemma ms_run_swap name f x p q i f' x' p' q' i' :
  ms_run av sw ee pf c name f x p q i f' x' p' q' i' -> Gw ra 1 x' ->
  ms_run av sw ee pf c name f (swp x) (map (g_ms s) p) (map (g_tm s) q) (g_imp s i)
                            f' (swp x') (map (g_ms s) p') (map (g_tm s) q') (g_imp s i').
Proof.
  induction 1 as [f x p q i
                 |f x p q i ts2 f' x' p' q' i' NR CI CC EP R IH
                 |f x p q i b imp' ts2 f' x' p' q' i' NR CI CC CL PB R IH
                 |f x p q i es imp' ts2 f' x' p' q' i' NR CI CC CL CK MT R IH]; intros GS; [apply mr_nil| | |].
  - specialize (IH GS). pose proof (ms_run_advs av sw ee pf c pf_advs _ _ _ _ _ _ _ _ _ _ _ R) as AR.
    pose proof (expect_peek_some _ _ _ EP) as Q2.
    assert (G1 : Gw ra 1 (adv ts2)) by (eapply G_advs; [exact AR|exact GS]).
    assert (G2 : Gw ra 2 ts2) by (apply (G_adv_inv ra ra_ne); [lia|exact G1]).
    assert (G3 : Gw ra 3 (adv x)) by (apply (G_adv_inv ra ra_ne); [lia|rewrite <- Q2; exact G2]).
    assert (G4 : Gw ra 4 x) by (apply (G_adv_inv ra ra_ne); [lia|exact G3]).
    assert (Gx : Gw ra 1 x) by (eapply G_le; [|exact G4]; lia).
    assert (Gax : Gw ra 1 (adv x)) by (eapply G_le; [|exact G3]; lia).
    rewrite map_app in IH. cbn [map] in IH. unfold g_ms at 2 in IH. cbn [msType msName msScript g_ostmts] in IH.
    rewrite <- (swap_adv ra rb ra_ne rb_ne ts2) in IH by (eapply G_le; [|exact G2]; lia).
    eapply mr_label.
    + rewrite swap_curis by exact Gx. exact NR.
    + rewrite swap_curis by exact Gx. exact CI.
    + rewrite (swap_adv ra rb ra_ne rb_ne x Gx), swap_curis by exact Gax. exact CC.
    + rewrite (swap_adv ra rb ra_ne rb_ne x Gx). rewrite (swap_expect_peek ra rb ra_ne rb_ne IDENT (adv x)) by (eapply G_le; [|exact G3]; lia).
      rewrite EP. reflexivity.
    + rewrite (swap_cur ra rb x Gx). rewrite (swap_cur ra rb ts2) by (eapply G_le; [|exact G2]; lia). exact IH.
  - specialize (IH GS). pose proof (ms_run_advs av sw ee pf c pf_advs _ _ _ _ _ _ _ _ _ _ _ R) as AR.
    assert (G1 : Gw ra 1 (adv ts2)) by (eapply G_advs; [exact AR|exact GS]).
    assert (G2 : Gw ra 2 ts2) by (apply (G_adv_inv ra ra_ne); [lia|exact G1]).
    assert (A2 : advs (adv (adv x)) ts2) by (eapply parse_block_advs; [exact pf_advs|exact PB|apply advs_refl]).
    assert (G2' : Gw ra 2 (adv (adv x))) by (eapply G_advs; [exact A2|exact G2]).
    assert (G3 : Gw ra 3 (adv x)) by (apply (G_adv_inv ra ra_ne); [lia|exact G2']).
    assert (G4 : Gw ra 4 x) by (apply (G_adv_inv ra ra_ne); [lia|exact G3]).
    assert (Gx : Gw ra 1 x) by (eapply G_le; [|exact G4]; lia).
    assert (Gax : Gw ra 1 (adv x)) by (eapply G_le; [|exact G3]; lia).
    assert (Gts2 : Gw ra 1 ts2) by (eapply G_le; [|exact G2]; lia).
    pose proof (parse_block_swap ra rb ra_ne rb_ne av sw pf pf_advs (pf_local ra rb ra_ne rb_ne) ee c f _ _ _ _ _ _ _ _ _ _ PB Gts2) as PB'.
    cbn [map] in PB'. change (g_imp s imp0) with imp0 in PB'.
    rewrite map_app, TwinParse.g_imp_add in IH. cbn [map] in IH. unfold g_ms at 2 in IH. cbn [msType msName msScript g_ostmts] in IH.
    rewrite <- (swap_adv ra rb ra_ne rb_ne ts2 Gts2) in IH.
    eapply mr_script.
    + rewrite swap_curis by exact Gx. exact NR.
    + rewrite swap_curis by exact Gx. exact CI.
    + rewrite (swap_adv ra rb ra_ne rb_ne x Gx), swap_curis by exact Gax. exact CC.
    + rewrite (swap_adv ra rb ra_ne rb_ne x Gx), swap_curis by exact Gax. exact CL.
    + rewrite (swap_cur ra rb x Gx). rewrite (swap_adv ra rb ra_ne rb_ne x Gx). rewrite (swap_cur ra rb (adv x) Gax).
      rewrite (swap_adv ra rb ra_ne rb_ne (adv x) Gax). exact PB'.
    + rewrite (swap_cur ra rb x Gx). exact IH.
  - specialize (IH GS). pose proof (ms_run_advs av sw ee pf c pf_advs _ _ _ _ _ _ _ _ _ _ _ R) as AR.
    assert (G1 : Gw ra 1 (adv ts2)) by (eapply G_advs; [exact AR|exact GS]).
    assert (G2 : Gw ra 2 ts2) by (apply (G_adv_inv ra ra_ne); [lia|exact G1]).
    assert (A2 : advs (adv (adv x)) ts2) by (eapply ms_table_advs; [exact pf_advs|exact MT|apply advs_refl]).
    assert (G2' : Gw ra 2 (adv (adv x))) by (eapply G_advs; [exact A2|exact G2]).
    assert (G3 : Gw ra 3 (adv x)) by (apply (G_adv_inv ra ra_ne); [lia|exact G2']).
    assert (G4 : Gw ra 4 x) by (apply (G_adv_inv ra ra_ne); [lia|exact G3]).
    assert (Gx : Gw ra 1 x) by (eapply G_le; [|exact G4]; lia).
    assert (Gax : Gw ra 1 (adv x)) by (eapply G_le; [|exact G3]; lia).
    assert (Gts2 : Gw ra 1 ts2) by (eapply G_le; [|exact G2]; lia).
    pose proof (ms_table_swap ra rb ra_ne rb_ne av sw pf pf_advs (pf_local ra rb ra_ne rb_ne) ee c f _ _ _ _ _ _ _ _ _ MT Gts2) as MT'.
    cbn [map] in MT'. change (g_imp s imp0) with imp0 in MT'.
    rewrite map_app, TwinParse.g_imp_add in IH. cbn [map] in IH. unfold g_tm at 2 in IH. cbn [tmType tmName tmEntries] in IH.
    rewrite <- (swap_adv ra rb ra_ne rb_ne ts2 Gts2) in IH.
    eapply mr_table.
    + rewrite swap_curis by exact Gx. exact NR.
    + rewrite swap_curis by exact Gx. exact CI.
    + rewrite (swap_adv ra rb ra_ne rb_ne x Gx), swap_curis by exact Gax. exact CC.
    + rewrite (swap_adv ra rb ra_ne rb_ne x Gx), swap_curis by exact Gax. exact CL.
    + rewrite (swap_adv ra rb ra_ne rb_ne x Gx), swap_curis by exact Gax. exact CK.
    + rewrite (swap_cur ra rb x Gx). rewrite (swap_adv ra rb ra_ne rb_ne x Gx).
      rewrite (swap_adv ra rb ra_ne rb_ne (adv x) Gax). exact MT'.
    + rewrite (swap_cur ra rb x Gx). exact IH.
Qed.
End RUNSWAP.

(* ------------------------------------------------------------------------------------------------------------ *)
(* Part 3: the ids (loop / switch tags, command ids, inline-data ids) of the entries of a mapscripts statement     *)
(* ------------------------------------------------------------------------------------------------------------ *)
Definition oids (o : option (list stmt)) : list nat := match o with Some b => TwinProgram.ids b | None => [] end.
Definition ms_ids (p : list mapscript) : list nat := flat_map (fun m => oids (msScript m)) p.
Definition te_ids (es : list tableentry) : list nat := flat_map (fun e => oids (teScript e)) es.
Definition tm_ids (q : list tablems) : list nat := flat_map (fun tb => te_ids (tmEntries tb)) q.

Lemma ms_ids_snoc p m n : In n (ms_ids (p ++ [m])) <-> In n (ms_ids p) \/ In n (oids (msScript m)).
Proof. unfold ms_ids. rewrite flat_map_app, in_app_iff. cbn [flat_map]. rewrite app_nil_r. tauto. Qed.
Lemma te_ids_snoc p m n : In n (te_ids (p ++ [m])) <-> In n (te_ids p) \/ In n (oids (teScript m)).
Proof. unfold te_ids. rewrite flat_map_app, in_app_iff. cbn [flat_map]. rewrite app_nil_r. tauto. Qed.
Lemma tm_ids_snoc p m n : In n (tm_ids (p ++ [m])) <-> In n (tm_ids p) \/ In n (te_ids (tmEntries m)).
Proof. unfold tm_ids. rewrite flat_map_app, in_app_iff. cbn [flat_map]. rewrite app_nil_r. tauto. Qed.
Lemma ms_ids_app a b n : In n (ms_ids (a ++ b)) <-> In n (ms_ids a) \/ In n (ms_ids b).
Proof. unfold ms_ids. rewrite flat_map_app, in_app_iff. tauto. Qed.
Lemma tm_ids_app a b n : In n (tm_ids (a ++ b)) <-> In n (tm_ids a) \/ In n (tm_ids b).
Proof. unfold tm_ids. rewrite flat_map_app, in_app_iff. tauto. Qed.

Lemma g_ostmts_ext g g' o : (forall n, In n (oids o) -> g n = g' n) -> g_ostmts g o = g_ostmts g' o.
Proof. destruct o as [b|]; [|reflexivity]. intros H. cbn [g_ostmts]. f_equal. apply TwinProgram.g_stmts_ext. exact H. Qed.
Lemma g_ostmts_id o : g_ostmts (fun n => n) o = o.
Proof. destruct o as [b|]; [|reflexivity]. cbn [g_ostmts]. rewrite TwinProgram.g_stmts_id. reflexivity. Qed.

Lemma g_ms_ext g g' p : (forall n, In n (ms_ids p) -> g n = g' n) -> map (g_ms g) p = map (g_ms g') p.
Proof.
  intros H. apply map_ext_in. intros m Hm. unfold g_ms. f_equal. apply g_ostmts_ext. intros n Hn. apply H.
  unfold ms_ids. apply in_flat_map. exists m. split; assumption.
Qed.
Lemma g_te_ext g g' es : (forall n, In n (te_ids es) -> g n = g' n) -> map (g_te g) es = map (g_te g') es.
Proof.
  intros H. apply map_ext_in. intros m Hm. unfold g_te. f_equal. apply g_ostmts_ext. intros n Hn. apply H.
  unfold te_ids. apply in_flat_map. exists m. split; assumption.
Qed.
Lemma g_tm_ext g g' q : (forall n, In n (tm_ids q) -> g n = g' n) -> map (g_tm g) q = map (g_tm g') q.
Proof.
  intros H. apply map_ext_in. intros tb Hm. unfold g_tm. f_equal. apply g_te_ext. intros n Hn. apply H.
  unfold tm_ids. apply in_flat_map. exists tb. split; assumption.
Qed.
Lemma g_ms_id p : map (g_ms (fun n => n)) p = p.
Proof. rewrite <- (map_id p) at 2. apply map_ext. intros [a b o]. unfold g_ms. cbn [msType msName msScript]. rewrite g_ostmts_id. reflexivity. Qed.
Lemma g_te_id p : map (g_te (fun n => n)) p = p.
Proof.
  rewrite <- (map_id p) at 2. apply map_ext. intros [a b c0 d o]. unfold g_te. cbn [teCond teCondLit teCmp teName teScript].
  rewrite g_ostmts_id. reflexivity.
Qed.
Lemma g_tm_id p : map (g_tm (fun n => n)) p = p.
Proof. rewrite <- (map_id p) at 2. apply map_ext. intros [a b o]. unfold g_tm. cbn [tmType tmName tmEntries]. rewrite g_te_id. reflexivity. Qed.

Section RANGE.
Variable av : list (text * autovar).
Variable sw : list (text * text).
Variable ee : bool.
Variable pf : toks -> res (token * text * text * toks).
Variable c : list (text * text).
Hypothesis pf_advs : format_advs pf.

(* the ids of a block lie between the length of the stream at its closing brace and the length of the stream at its start *)
Lemma block_range f script start x b imp y : eof_ended x ->
  parse_block av sw ee pf c f script [] [] start x [] imp0 = Ok (b, imp, y) ->
  forall n, In n (TwinProgram.ids b) \/ In n (TwinProgram.imp_ids imp) -> (len y <= n <= len x)%nat.
Proof.
  intros E H.
  destruct (SrcWf.gw_all av sw pf c pf_advs ee f) as (_ & Gblock & _).
  pose proof (Gblock _ _ _ _ _ _ _ _ _ _ (len x) E H (Nat.le_refl _) (SrcWf.good_nil _ _)) as (_ & GT & _).
  pose proof (ParseWf.parse_block_scoped av sw ee pf c _ _ _ _ _ _ _ H) as SC.
  pose proof (HoistProgram.parse_block_span av sw ee pf pf_advs x c _ _ _ _ _ _ _ (advs_refl x) H) as SP.
  destruct (TwinProgram.span_ids _ _ _ _ _ _ _ _ _ SP) as [C1 C2].
  intros n [Hn|Hn]; [|apply C2; exact Hn].
  unfold TwinProgram.ids in Hn. apply in_app_or in Hn. destruct Hn as [Hn|Hn]; [|apply C1; exact Hn].
  apply (TagRename.atags_in_tags _ _ SC) in Hn. rewrite Forall_forall in GT. specialize (GT n Hn). lia.
Qed.

Lemma ms_table_range : forall f mapname tyname x i acc imp es imp' y lo hi,
  ms_table av sw ee pf c f mapname tyname x i acc imp = Ok (es, imp', y) -> eof_ended x ->
  (lo <= len y)%nat -> (len x <= hi)%nat ->
  (forall n, In n (te_ids acc) \/ In n (TwinProgram.imp_ids imp) -> (lo <= n <= hi)%nat) ->
  (forall n, In n (te_ids es) \/ In n (TwinProgram.imp_ids imp') -> (lo <= n <= hi)%nat).
Proof.
  induction f as [|f IH]; intros mapname tyname x i acc imp es imp' y lo hi H E L1 L2 Hacc; [discriminate|].
  cbn [ms_table] in H. destruct (curis RBRACKET x); [inversion H; subst; exact Hacc|]. cbv zeta in H.
  destruct (ms_collect c f (is COMMA) x []) as [[cond ts1]|] eqn:C1; [|discriminate].
  destruct cond as [|c0 cond]; [discriminate|].
  destruct (ms_collect c f _ (adv ts1) []) as [[cmp ts3]|] eqn:C3; [|discriminate].
  destruct cmp as [|c1 cmp]; [discriminate|].
  assert (A1 : advs x ts1) by (eapply ms_collect_advs; [exact C1|apply advs_refl]).
  assert (A3 : advs x ts3) by (eapply ms_collect_advs; [exact C3|apply advs_adv_r; exact A1]).
  pose proof (advs_len _ _ A3) as L3. pose proof (adv_len ts3) as L4.
  destruct (curis COLON ts3).
  - destruct (expect_peek IDENT ts3) as [ts4|] eqn:P4; [|discriminate]. apply expect_peek_some in P4. subst ts4.
    pose proof (adv_len (adv ts3)) as L5.
    eapply (IH _ _ _ _ _ _ _ _ _ lo hi H); [eapply advs_eof; [apply advs_adv_r, advs_adv_r; exact A3|exact E]|exact L1|lia|].
    intros n [Hn|Hn]; [|apply Hacc; right; exact Hn]. apply te_ids_snoc in Hn. cbn [teScript oids] in Hn.
    destruct Hn as [Hn|[]]. apply Hacc. left. exact Hn.
  - destruct (parse_block av sw ee pf c f _ [] [] (cur ts3) (adv ts3) [] imp0) as [[[b imp1] ts4]| | |] eqn:E4; try discriminate H.
    cbv beta iota in H.
    assert (A4 : advs (adv ts3) ts4) by (eapply parse_block_advs; [exact pf_advs|exact E4|apply advs_refl]).
    assert (Ea : eof_ended (adv ts3)) by (eapply advs_eof; [apply advs_adv_r; exact A3|exact E]).
    pose proof (advs_len _ _ A4) as L5. pose proof (adv_len ts4) as L6.
    pose proof (block_range _ _ _ _ _ _ _ Ea E4) as BR.
    assert (Ay : advs (adv ts4) y) by (eapply ms_table_advs; [exact pf_advs|exact H|apply advs_refl]).
    pose proof (advs_len _ _ Ay) as L7.
    eapply (IH _ _ _ _ _ _ _ _ _ lo hi H); [eapply advs_eof; [apply advs_adv_r; exact A4|exact Ea]|exact L1|lia|].
    intros n [Hn|Hn].
    + apply te_ids_snoc in Hn. cbn [teScript oids] in Hn. destruct Hn as [Hn|Hn]; [apply Hacc; left; exact Hn|].
      specialize (BR n (or_introl Hn)). lia.
    + apply TwinProgram.imp_ids_add in Hn. destruct Hn as [Hn|Hn]; [apply Hacc; right; exact Hn|].
      specialize (BR n (or_intror Hn)). lia.
Qed.

Lemma ms_entries_range : forall f name x p q i p' q' i' y lo hi,
  ms_entries av sw ee pf c f name x p q i = Ok (p', q', i', y) -> eof_ended x ->
  (lo <= len y)%nat -> (len x <= hi)%nat ->
  (forall n, In n (ms_ids p) \/ In n (tm_ids q) \/ In n (TwinProgram.imp_ids i) -> (lo <= n <= hi)%nat) ->
  (forall n, In n (ms_ids p') \/ In n (tm_ids q') \/ In n (TwinProgram.imp_ids i') -> (lo <= n <= hi)%nat).
Proof.
  induction f as [|f IH]; intros name x p q i p' q' i' y lo hi H E L1 L2 Hacc; [discriminate|].
  cbn [ms_entries] in H. destruct (curis RBRACE x); [inversion H; subst; exact Hacc|].
  destruct (negb (curis IDENT x)); [discriminate|]. cbv zeta in H.
  pose proof (adv_len x) as La. pose proof (adv_len (adv x)) as Laa.
  assert (Eaa : eof_ended (adv (adv x))) by (eapply advs_eof; [apply advs_adv_r, advs_adv_r, advs_refl|exact E]).
  destruct (curis COLON (adv x)).
  - destruct (expect_peek IDENT (adv x)) as [ts2|] eqn:P2; [|discriminate]. apply expect_peek_some in P2. subst ts2.
    pose proof (adv_len (adv (adv x))) as L5.
    eapply (IH _ _ _ _ _ _ _ _ _ lo hi H); [eapply advs_eof; [apply advs_adv_r, advs_refl|exact Eaa]|exact L1|lia|].
    intros n [Hn|Hn]; [|apply Hacc; right; exact Hn]. apply ms_ids_snoc in Hn. cbn [msScript oids] in Hn.
    destruct Hn as [Hn|[]]. apply Hacc. left. exact Hn.
  - destruct (curis LBRACE (adv x)).
    + destruct (parse_block av sw ee pf c f _ [] [] (cur (adv x)) (adv (adv x)) [] imp0) as [[[b imp1] ts2]| | |] eqn:E2; try discriminate H.
      cbv beta iota in H.
      assert (A2 : advs (adv (adv x)) ts2) by (eapply parse_block_advs; [exact pf_advs|exact E2|apply advs_refl]).
      pose proof (advs_len _ _ A2) as L5. pose proof (adv_len ts2) as L6.
      pose proof (block_range _ _ _ _ _ _ _ Eaa E2) as BR.
      assert (Ay : advs (adv ts2) y) by (eapply ms_entries_advs; [exact pf_advs|exact H|apply advs_refl]).
      pose proof (advs_len _ _ Ay) as L7.
      eapply (IH _ _ _ _ _ _ _ _ _ lo hi H); [eapply advs_eof; [apply advs_adv_r; exact A2|exact Eaa]|exact L1|lia|].
      intros n [Hn|[Hn|Hn]].
      * apply ms_ids_snoc in Hn. cbn [msScript oids] in Hn. destruct Hn as [Hn|Hn]; [apply Hacc; left; exact Hn|].
        specialize (BR n (or_introl Hn)). lia.
      * apply Hacc. right. left. exact Hn.
      * apply TwinProgram.imp_ids_add in Hn. destruct Hn as [Hn|Hn]; [apply Hacc; right; right; exact Hn|].
        specialize (BR n (or_intror Hn)). lia.
    + destruct (curis LBRACKET (adv x)); [|discriminate].
      destruct (ms_table av sw ee pf c f name _ (adv (adv x)) 0 [] imp0) as [[[es imp1] ts2]| | |] eqn:E2; try discriminate H.
      cbv beta iota in H.
      assert (A2 : advs (adv (adv x)) ts2) by (eapply ms_table_advs; [exact pf_advs|exact E2|apply advs_refl]).
      pose proof (advs_len _ _ A2) as L5. pose proof (adv_len ts2) as L6.
      assert (Ay : advs (adv ts2) y) by (eapply ms_entries_advs; [exact pf_advs|exact H|apply advs_refl]).
      pose proof (advs_len _ _ Ay) as L7.
      assert (BR : forall n, In n (te_ids es) \/ In n (TwinProgram.imp_ids imp1) -> (lo <= n <= hi)%nat).
      { eapply (ms_table_range _ _ _ _ _ _ _ _ _ _ lo hi E2 Eaa); [lia|lia|]. intros n [[]|[]]. }
      eapply (IH _ _ _ _ _ _ _ _ _ lo hi H); [eapply advs_eof; [apply advs_adv_r; exact A2|exact Eaa]|exact L1|lia|].
      intros n [Hn|[Hn|Hn]].
      * apply Hacc. left. exact Hn.
      * apply tm_ids_snoc in Hn. cbn [tmEntries] in Hn. destruct Hn as [Hn|Hn]; [apply Hacc; right; left; exact Hn|].
        apply BR. left. exact Hn.
      * apply TwinProgram.imp_ids_add in Hn. destruct Hn as [Hn|Hn]; [apply Hacc; right; right; exact Hn|].
        apply BR. right. exact Hn.
Qed.

Lemma ms_run_range name f x p q i f' x' p' q' i' lo hi :
  ms_run av sw ee pf c name f x p q i f' x' p' q' i' -> eof_ended x ->
  (lo <= len x')%nat -> (len x <= hi)%nat ->
  (forall n, In n (ms_ids p) \/ In n (tm_ids q) \/ In n (TwinProgram.imp_ids i) -> (lo <= n <= hi)%nat) ->
  (forall n, In n (ms_ids p') \/ In n (tm_ids q') \/ In n (TwinProgram.imp_ids i') -> (lo <= n <= hi)%nat).
Proof.
  induction 1 as [f x p q i
                 |f x p q i ts2 f' x' p' q' i' NR CI CC EP R IH
                 |f x p q i b imp' ts2 f' x' p' q' i' NR CI CC CL PB R IH
                 |f x p q i es imp' ts2 f' x' p' q' i' NR CI CC CL CK MT R IH]; intros E L1 L2 Hacc; [exact Hacc| | |].
  all: pose proof (adv_len x) as La; pose proof (adv_len (adv x)) as Laa.
  all: assert (Eaa : eof_ended (adv (adv x))) by (eapply advs_eof; [apply advs_adv_r, advs_adv_r, advs_refl|exact E]).
  all: pose proof (advs_len _ _ (ms_run_advs av sw ee pf c pf_advs _ _ _ _ _ _ _ _ _ _ _ R)) as L7.
  - apply expect_peek_some in EP. subst ts2. pose proof (adv_len (adv (adv x))) as L5.
    apply IH; [eapply advs_eof; [apply advs_adv_r, advs_refl|exact Eaa]|exact L1|lia|].
    intros n [Hn|Hn]; [|apply Hacc; right; exact Hn]. apply ms_ids_snoc in Hn. cbn [msScript oids] in Hn.
    destruct Hn as [Hn|[]]. apply Hacc. left. exact Hn.
  - assert (A2 : advs (adv (adv x)) ts2) by (eapply parse_block_advs; [exact pf_advs|exact PB|apply advs_refl]).
    pose proof (advs_len _ _ A2) as L5. pose proof (adv_len ts2) as L6.
    pose proof (block_range _ _ _ _ _ _ _ Eaa PB) as BR.
    apply IH; [eapply advs_eof; [apply advs_adv_r; exact A2|exact Eaa]|exact L1|lia|].
    intros n [Hn|[Hn|Hn]].
    * apply ms_ids_snoc in Hn. cbn [msScript oids] in Hn. destruct Hn as [Hn|Hn]; [apply Hacc; left; exact Hn|].
      specialize (BR n (or_introl Hn)). lia.
    * apply Hacc. right. left. exact Hn.
    * apply TwinProgram.imp_ids_add in Hn. destruct Hn as [Hn|Hn]; [apply Hacc; right; right; exact Hn|].
      specialize (BR n (or_intror Hn)). lia.
  - assert (A2 : advs (adv (adv x)) ts2) by (eapply ms_table_advs; [exact pf_advs|exact MT|apply advs_refl]).
    pose proof (advs_len _ _ A2) as L5. pose proof (adv_len ts2) as L6.
    assert (BR : forall n, In n (te_ids es) \/ In n (TwinProgram.imp_ids imp') -> (lo <= n <= hi)%nat).
    { eapply (ms_table_range _ _ _ _ _ _ _ _ _ _ lo hi MT Eaa); [lia|lia|]. intros n [[]|[]]. }
    apply IH; [eapply advs_eof; [apply advs_adv_r; exact A2|exact Eaa]|exact L1|lia|].
    intros n [Hn|[Hn|Hn]].
    * apply Hacc. left. exact Hn.
    * apply tm_ids_snoc in Hn. cbn [tmEntries] in Hn. destruct Hn as [Hn|Hn]; [apply Hacc; right; left; exact Hn|].
      apply BR. left. exact Hn.
    * apply TwinProgram.imp_ids_add in Hn. destruct Hn as [Hn|Hn]; [apply Hacc; right; right; exact Hn|].
      apply BR. right. exact Hn.
Qed.
End RANGE.

(* ------------------------------------------------------------------------------------------------------------ *)
(* Part 4: the shifts of the three regions are ONE injective renaming (pointwise form of TwinProgram.one_renaming) *)
(* ------------------------------------------------------------------------------------------------------------ *)
Lemma one_renaming_pt (z tw ra rest : toks) lbody (L1 L2 L3 : list nat) :
  len tw = (lbody + len rest)%nat -> (len rest < len ra)%nat -> (lbody + len ra < len z)%nat ->
  (forall n, In n L1 -> (len z < n)%nat) ->
  (forall n, In n L2 -> (len ra < n <= lbody + len ra)%nat) ->
  (forall n, In n L3 -> (n <= len rest)%nat) ->
  exists G : nat -> nat, (forall a b, G a = G b -> a = b) /\
    (forall n, In n L1 -> sh z tw n = G n) /\ (forall n, In n L2 -> sh ra rest n = G n) /\ (forall n, In n L3 -> n = G n).
Proof.
  intros Ltw Lr Lz H1 H2 H3.
  set (G0 := fun n => if (len z <? n)%nat then sh z tw n else if (len ra <? n)%nat then sh ra rest n else n).
  set (T := L1 ++ L2 ++ L3).
  assert (R : forall n, In n T -> (len z < n)%nat \/ (len ra < n <= lbody + len ra)%nat \/ (n <= len rest)%nat).
  { intros n Hn. unfold T in Hn. rewrite !in_app_iff in Hn. destruct Hn as [Hn|[Hn|Hn]]; [left; auto|right; left; auto|right; right; auto]. }
  assert (S1 : forall n, sh z tw n = (n - (len z - len tw))%nat).
  { intros n. unfold sh. destruct (Nat.leb_spec (len z) (len tw)); [lia|reflexivity]. }
  assert (S2 : forall n, sh ra rest n = (n - (len ra - len rest))%nat).
  { intros n. unfold sh. destruct (Nat.leb_spec (len ra) (len rest)); [lia|reflexivity]. }
  assert (INJ : TagRename.inj_on G0 T).
  { intros a b Ha Hb. unfold G0. rewrite !S1, !S2. pose proof (R a Ha) as Ra. pose proof (R b Hb) as Rb.
    destruct (Nat.ltb_spec (len z) a); destruct (Nat.ltb_spec (len ra) a);
      destruct (Nat.ltb_spec (len z) b); destruct (Nat.ltb_spec (len ra) b); lia. }
  exists (TagRename.extend G0 T). split; [apply TagRename.extend_inj; exact INJ|].
  assert (AG : forall n, In n T -> TagRename.extend G0 T n = G0 n) by (intros n Hn; apply TagRename.extend_agree; exact Hn).
  split; [|split].
  - intros n Hn. rewrite AG by (unfold T; rewrite !in_app_iff; auto). unfold G0. specialize (H1 n Hn).
    destruct (Nat.ltb_spec (len z) n); [reflexivity|lia].
  - intros n Hn. rewrite AG by (unfold T; rewrite !in_app_iff; auto). unfold G0. specialize (H2 n Hn).
    destruct (Nat.ltb_spec (len z) n); [lia|]. destruct (Nat.ltb_spec (len ra) n); [reflexivity|lia].
  - intros n Hn. rewrite AG by (unfold T; rewrite !in_app_iff; auto). unfold G0. specialize (H3 n Hn).
    destruct (Nat.ltb_spec (len z) n); [lia|]. destruct (Nat.ltb_spec (len ra) n); [lia|reflexivity].
Qed.

(* ------------------------------------------------------------------------------------------------------------ *)
(* Part 5: the twin of a mapscripts STATEMENT: poryswitch directly in the block of an inline script entry          *)
(* ------------------------------------------------------------------------------------------------------------ *)
Section MAPSCRIPTS.
Variable av : list (text * autovar).
Variable sw : list (text * text).
Variable ee : bool.
Variable pf : toks -> res (token * text * text * toks).
Variable c : list (text * text).
Hypothesis pf_advs : format_advs pf.
Hypothesis pf_local : format_local pf.
Hypothesis pf_lt : format_lt pf.
Local Notation srun := (TwinParse.srun av sw ee pf c).

Lemma parse_mapscripts_eq f xs g t1 t2 t3 :
  scope_modifier true xs = Ok (g, t1) -> expect_peek IDENT t1 = Some t2 -> expect_peek LBRACE t2 = Some t3 ->
  parse_mapscripts av sw ee pf c f xs =
  match ms_entries av sw ee pf c f (tlit (cur t2)) (adv t3) [] [] imp0 with
  | Ok (plain, tables, imp, ts4) => Ok (TMapScripts (tlit (cur t2)) g plain tables, imp, ts4)
  | Err e => Err e | Panic => Panic | Fuel => Fuel end.
Proof.
  intros H1 H2 H3. unfold parse_mapscripts. rewrite H1. cbv beta iota zeta. rewrite H2, H3.
  destruct (ms_entries av sw ee pf c f (tlit (cur t2)) (adv t3) [] [] imp0) as [[[[plain tables] imp] ts4]| | |]; reflexivity.
Qed.

Theorem twin_mapscripts_at f xs g t1 t2 t3 f' x' p1 q1 j1 b1 i1 z sc sv ts1 F cases ts2 ss imp' body ra tp imp y :
  let name := tlit (cur t2) in let sname := name ++ t "_" ++ tlit (cur x') in
  eof_ended xs -> (5 * len xs + 3 <= f)%nat ->
  scope_modifier true xs = Ok (g, t1) -> expect_peek IDENT t1 = Some t2 -> expect_peek LBRACE t2 = Some t3 ->
  ms_run av sw ee pf c name f (adv t3) [] [] imp0 f' x' p1 q1 j1 ->
  curis RBRACE x' = false -> curis IDENT x' = true -> curis COLON (adv x') = false -> curis LBRACE (adv x') = true ->
  srun sname [] [] (adv (adv x')) b1 i1 z ->
  curis PORYSWITCH z = true -> poryswitch_header sw ee z = Ok (sc, sv, ts1) -> (5 * len z <= F)%nat ->
  parse_pory_cases av sw ee pf c F sname [] [] (cur ts1) ts1 [] = Ok (cases, ts2) ->
  PorySwitchLists.pory_select cases sv = Some (ss, imp') ->
  advs ts1 (body ++ ra) -> srun sname [] [] (body ++ ra) ss imp' ra -> advs ra ts2 ->
  (curis RBRACE ra = true \/ curis IDENT ra = true \/ curis INT ra = true) ->
  parse_mapscripts av sw ee pf c f xs = Ok (tp, imp, y) ->
  exists U G,
    xs = U ++ z /\ Gw z 5 xs /\ advs xs z /\ eof_ended z /\ eof_ended (body ++ adv ts2) /\ (len (body ++ adv ts2) < len z)%nat /\ (forall a b, G a = G b -> a = b) /\
    parse_mapscripts av sw ee pf c f (U ++ body ++ adv ts2) = Ok (g_top G tp, g_imp G imp, y).
Proof.
  intros name sname E Bf SM EP1 EP2 RUN NR CI CC CL R1 CP HH BF HC SEL AB RR AR RAK HP.
  rewrite (parse_mapscripts_eq _ _ _ _ _ _ SM EP1 EP2) in HP. fold name in HP.
  destruct (ms_entries av sw ee pf c f name (adv t3) [] [] imp0) as [[[[plain tables] impM] y0]| | |] eqn:ME; try discriminate HP.
  injection HP as <- <- <-.
  (* stream facts *)
  pose proof (expect_peek_some _ _ _ EP1) as Q2. pose proof (expect_peek_some _ _ _ EP2) as Q3.
  assert (A1 : advs xs t1) by (eapply scope_modifier_advs; [exact SM|apply advs_refl]).
  assert (A3 : advs xs (adv t3)) by (apply advs_adv_r; rewrite Q3; apply advs_adv_r; rewrite Q2; apply advs_adv_r; exact A1).
  assert (Ex0 : eof_ended (adv t3)) by (eapply advs_eof; eassumption).
  pose proof (advs_len _ _ A3) as Lx0.
  pose proof (ms_run_advs av sw ee pf c pf_advs _ _ _ _ _ _ _ _ _ _ _ RUN) as AR0.
  assert (Ex' : eof_ended x') by (eapply advs_eof; eassumption).
  pose proof (ms_run_fuel av sw ee pf c pf_advs name 3 _ _ _ _ _ _ _ _ _ _ RUN Ex0 ltac:(lia)) as Bf'.
  assert (NEx' : ttype (cur x') <> EOF) by (apply TwinParse.curis_eof_ne; apply (TwinParse.curis_excl IDENT EOF); [exact CI|discriminate]).
  pose proof (adv_strict x' Ex' NEx') as Lax'. pose proof (adv_len (adv x')) as Laax'.
  destruct f' as [|f'']; [lia|].
  remember (adv (adv x')) as xb eqn:Dxb.
  assert (Exb : eof_ended xb) by (rewrite Dxb; eapply advs_eof; [apply advs_adv_r, advs_adv_r, advs_refl|exact Ex']).
  (* the original *)
  rewrite (ms_run_entries av sw ee pf c _ _ _ _ _ _ _ _ _ _ _ RUN) in ME.
  rewrite (ms_entries_script_step av sw ee pf c name f'' x' p1 q1 j1 NR CI CC CL) in ME. fold sname in ME. rewrite <- Dxb in ME.
  destruct (parse_block av sw ee pf c f'' sname [] [] (cur (adv x')) xb [] imp0) as [[[b impb] yb]| | |] eqn:PB; try discriminate ME.
  rewrite ms_entries_acc in ME.
  destruct (ms_entries av sw ee pf c f'' name (adv yb) [] [] imp0) as [[[[p3 q3] j3] y3]| | |] eqn:ME3; try discriminate ME.
  injection ME as Hp Hq Hi Hy. subst y3.
  destruct (TwinProgram.twin_script_block_at av sw ee pf c pf_advs pf_local pf_lt sname xb b1 i1 z sc sv ts1 F cases ts2 ss imp' body ra
              (cur (adv x')) f'' b impb yb Exb R1 CP HH BF HC SEL AB RR AR RAK ltac:(lia) PB)
    as (pre & b3 & i3 & EX & Hb & Hib & PB3 & PBT).
  cbv zeta in PBT.
  remember (adv ts2) as rest eqn:Drest. remember (body ++ rest) as tw eqn:Dtw.
  (* lengths *)
  pose proof (TwinParse.srun_advs av sw ee pf c pf_advs _ _ _ _ _ _ _ R1) as A0.
  pose proof (advs_eof _ _ A0 Exb) as Ez. pose proof (advs_len _ _ A0) as Lz.
  assert (Az1 : advs z ts1) by (eapply poryswitch_header_advs; [exact HH|apply advs_refl]).
  pose proof (FuelOk.poryswitch_header_lt _ _ _ _ _ _ HH Ez) as L1.
  pose proof (TwinParse.srun_advs av sw ee pf c pf_advs _ _ _ _ _ _ _ RR) as ARR.
  assert (Ets1 : eof_ended ts1) by (eapply advs_eof; eassumption).
  assert (Ebody : eof_ended (body ++ ra)) by (eapply advs_eof; eassumption).
  pose proof (advs_eof _ _ ARR Ebody) as Era.
  pose proof (advs_eof _ _ AR Era) as E2.
  assert (RB : curis RBRACE ts2 = true).
  { assert (B1 : (5 * len ts1 <= F)%nat) by lia.
    destruct (TwinParse.cases_table_acc av sw ee pf c pf_advs pf_lt _ _ _ _ _ _ _ _ _ Ets1 B1 HC) as (l0 & _ & RB0 & _). exact RB0. }
  assert (Erest : eof_ended rest) by (rewrite Drest; eapply advs_eof; [apply advs_adv_r, advs_refl|exact E2]).
  assert (LR : (len rest < len ra)%nat).
  { assert (NE2 : ttype (cur ts2) <> EOF) by (apply TwinParse.curis_eof_ne; eapply TwinParse.curis_excl; [exact RB|discriminate]).
    pose proof (adv_strict ts2 E2 NE2) as S2. pose proof (advs_len _ _ AR) as S3. rewrite Drest. lia. }
  assert (Lb : (len body + len ra < len z)%nat).
  { pose proof (advs_len _ _ AB) as S1. rewrite app_length in S1. lia. }
  assert (Ltwl : len tw = (len body + len rest)%nat) by (rewrite Dtw; apply app_length).
  assert (Lbr : len (body ++ ra) = (len body + len ra)%nat) by (apply app_length).
  assert (Ayb : advs rest yb) by (eapply parse_block_advs; [exact pf_advs|exact PB3|apply advs_refl]).
  pose proof (advs_len _ _ Ayb) as Lyb. pose proof (adv_len yb) as Layb.
  assert (Eayb : eof_ended (adv yb)) by (eapply advs_eof; [apply advs_adv_r; exact Ayb|exact Erest]).
  (* ids *)
  destruct (TwinProgram.srun_ids av sw ee pf c pf_advs _ _ _ _ _ R1 Exb) as [I1a I1b].
  destruct (TwinProgram.srun_ids av sw ee pf c pf_advs _ _ _ _ _ RR Ebody) as [I2a I2b].
  destruct (TwinProgram.block_ids av sw ee pf c pf_advs _ _ _ _ _ _ _ Erest PB3) as [I3a I3b].
  assert (I0 : forall n, In n (ms_ids p1) \/ In n (tm_ids q1) \/ In n (TwinProgram.imp_ids j1) -> (len x' <= n <= len (adv t3))%nat).
  { eapply (ms_run_range av sw ee pf c pf_advs _ _ _ _ _ _ _ _ _ _ _ (len x') (len (adv t3)) RUN Ex0); [lia|lia|].
    intros n [[]|[[]|[]]]. }
  assert (I4 : forall n, In n (ms_ids p3) \/ In n (tm_ids q3) \/ In n (TwinProgram.imp_ids j3) -> (0 <= n <= len (adv yb))%nat).
  { eapply (ms_entries_range av sw ee pf c pf_advs _ _ _ _ _ _ _ _ _ _ 0%nat (len (adv yb)) ME3 Eayb); [lia|lia|].
    intros n [[]|[[]|[]]]. }
  assert (Lxb : (len xb < len x')%nat) by lia.
  destruct (one_renaming_pt z tw ra rest (len body)
              (ms_ids p1 ++ tm_ids q1 ++ TwinProgram.imp_ids j1 ++ TwinProgram.ids b1 ++ TwinProgram.imp_ids i1)
              (TwinProgram.ids ss ++ TwinProgram.imp_ids imp')
              (TwinProgram.ids b3 ++ TwinProgram.imp_ids i3 ++ ms_ids p3 ++ tm_ids q3 ++ TwinProgram.imp_ids j3) Ltwl LR Lb)
    as (G & Ginj & AG1 & AG2 & AG3).
  { intros n Hn. rewrite !in_app_iff in Hn. destruct Hn as [Hn|[Hn|[Hn|[Hn|Hn]]]].
    - specialize (I0 n (or_introl Hn)). lia.
    - specialize (I0 n (or_intror (or_introl Hn))). lia.
    - specialize (I0 n (or_intror (or_intror Hn))). lia.
    - specialize (I1a n Hn). lia.
    - specialize (I1b n Hn). lia. }
  { intros n Hn. rewrite !in_app_iff in Hn. destruct Hn as [Hn|Hn]; [specialize (I2a n Hn)|specialize (I2b n Hn)]; lia. }
  { intros n Hn. rewrite !in_app_iff in Hn. destruct Hn as [Hn|[Hn|[Hn|[Hn|Hn]]]].
    - specialize (I3a n Hn). lia.
    - specialize (I3b n Hn). lia.
    - specialize (I4 n (or_introl Hn)). lia.
    - specialize (I4 n (or_intror (or_introl Hn))). lia.
    - specialize (I4 n (or_intror (or_intror Hn))). lia. }
  (* the whole stream *)
  assert (ATz : advs xs z).
  { eapply advs_trans; [exact A3|]. eapply advs_trans; [exact AR0|]. eapply advs_trans; [|exact A0].
    rewrite Dxb. apply advs_adv_r, advs_adv_r, advs_refl. }
  destruct (advs_suffix _ _ ATz) as (U & ET).
  assert (NEz : z <> []) by (destruct Ez; assumption).
  assert (CEz : curis EOF z = false) by (eapply TwinParse.curis_excl; [exact CP|discriminate]).
  assert (Etw : eof_ended tw) by (rewrite Dtw; apply ProgSrc.eof_ended_app; exact Erest).
  assert (TWNE : tw <> []) by (destruct Etw; assumption).
  assert (GZxb : Gw z 0 xb) by (exists pre; split; [exact EX|lia]).
  assert (Eax' : eof_ended (adv x')) by (eapply advs_eof; [apply advs_adv_r, advs_refl|exact Ex']).
  assert (Gax' : Gw z 1 (adv x')) by (apply TwinProgram.Gw_step_back; [exact Eax'|exact NEz|exact CEz|rewrite <- Dxb; exact GZxb]).
  assert (Gx' : Gw z 2 x') by (apply (G_adv_inv z NEz); [lia|exact Gax']).
  assert (Gat3 : Gw z 2 (adv t3)) by (eapply G_advs; [exact AR0|exact Gx']).
  assert (Gt3 : Gw z 3 t3) by (apply (G_adv_inv z NEz); [lia|exact Gat3]).
  assert (Gt2 : Gw z 4 t2) by (apply (G_adv_inv z NEz); [lia|rewrite <- Q3; exact Gt3]).
  assert (Gt1 : Gw z 5 t1) by (apply (G_adv_inv z NEz); [lia|rewrite <- Q2; exact Gt2]).
  assert (Gxs : Gw z 5 xs) by (eapply G_advs; [exact A1|exact Gt1]).
  assert (Gx'1 : Gw z 1 x') by (eapply G_le; [|exact Gx']; lia).
  assert (SWT : swap z tw xs = U ++ tw) by (rewrite ET; apply swap_app).
  (* y lies behind the poryswitch *)
  assert (Ay : advs (adv yb) y0) by (eapply ms_entries_advs; [exact pf_advs|exact ME3|apply advs_refl]).
  exists U, G. split; [exact ET|]. split; [exact Gxs|]. split; [exact ATz|]. split; [exact Ez|]. split; [exact Etw|]. split; [rewrite Ltwl; lia|]. split; [exact Ginj|].
  rewrite <- SWT.
  assert (PMT : parse_mapscripts av sw ee pf c f (swap z tw xs) =
                Ok (g_top G (TMapScripts name g plain tables), g_imp G impM, y0)).
  { rewrite (parse_mapscripts_eq f _ g (swap z tw t1) (swap z tw t2) (swap z tw t3)).
    2:{ apply (scope_modifier_swap z tw NEz TWNE _ _ _ _ SM). eapply G_le; [|exact Gt1]; lia. }
    2:{ rewrite (swap_expect_peek z tw NEz TWNE IDENT t1) by (eapply G_le; [|exact Gt1]; lia). rewrite EP1. reflexivity. }
    2:{ rewrite (swap_expect_peek z tw NEz TWNE LBRACE t2) by (eapply G_le; [|exact Gt2]; lia). rewrite EP2. reflexivity. }
    rewrite (swap_cur z tw t2) by (eapply G_le; [|exact Gt2]; lia). fold name.
    rewrite (swap_adv z tw NEz TWNE t3) by (eapply G_le; [|exact Gt3]; lia).
    pose proof (ms_run_swap z tw NEz TWNE av sw ee pf c pf_advs pf_local _ _ _ _ _ _ _ _ _ _ _ RUN Gx'1) as RUN'.
    cbn [map] in RUN'. change (g_imp (sh z tw) imp0) with imp0 in RUN'.
    rewrite (ms_run_entries av sw ee pf c _ _ _ _ _ _ _ _ _ _ _ RUN').
    rewrite (ms_entries_script_step av sw ee pf c name f'' (swap z tw x')).
    2:{ rewrite swap_curis by exact Gx'1. exact NR. }
    2:{ rewrite swap_curis by exact Gx'1. exact CI. }
    2:{ rewrite (swap_adv z tw NEz TWNE x' Gx'1), swap_curis by exact Gax'. exact CC. }
    2:{ rewrite (swap_adv z tw NEz TWNE x' Gx'1), swap_curis by exact Gax'. exact CL. }
    rewrite (swap_cur z tw x' Gx'1). fold sname. rewrite (swap_adv z tw NEz TWNE x' Gx'1). rewrite (swap_cur z tw (adv x') Gax').
    rewrite (swap_adv z tw NEz TWNE (adv x') Gax'). rewrite <- Dxb. rewrite EX, swap_app. rewrite PBT.
    rewrite ms_entries_acc, ME3.
    f_equal. cbn [g_top]. f_equal. f_equal; [f_equal|].
    - (* plain *)
      rewrite <- Hp. rewrite !map_app. cbn [map]. f_equal; [f_equal|].
      + apply g_ms_ext. intros n Hn. apply AG1. rewrite !in_app_iff. auto.
      + unfold g_ms. cbn [msType msName msScript g_ostmts]. f_equal. f_equal. f_equal. rewrite Hb, !map_app.
        f_equal; [|f_equal].
        * apply TwinProgram.g_stmts_ext. intros n Hn. apply AG1. rewrite !in_app_iff. auto 10.
        * apply TwinProgram.g_stmts_ext. intros n Hn. apply AG2. rewrite !in_app_iff. auto.
        * rewrite <- (TwinProgram.g_stmts_id b3) at 1. apply TwinProgram.g_stmts_ext. intros n Hn. apply AG3. rewrite !in_app_iff. auto.
      + rewrite <- (g_ms_id p3) at 1. apply g_ms_ext. intros n Hn. apply AG3. rewrite !in_app_iff. auto 10.
    - (* tables *)
      rewrite <- Hq. rewrite !map_app. f_equal.
      + apply g_tm_ext. intros n Hn. apply AG1. rewrite !in_app_iff. auto.
      + rewrite <- (g_tm_id q3) at 1. apply g_tm_ext. intros n Hn. apply AG3. rewrite !in_app_iff. auto 10.
    - (* inline data *)
      rewrite <- Hi, Hib. rewrite !TwinParse.g_imp_add. f_equal; [f_equal|].
      + apply TwinProgram.g_imp_ext. intros n Hn. apply AG1. rewrite !in_app_iff. auto.
      + f_equal; [|f_equal].
        * apply TwinProgram.g_imp_ext. intros n Hn. apply AG1. rewrite !in_app_iff. auto 10.
        * apply TwinProgram.g_imp_ext. intros n Hn. apply AG2. rewrite !in_app_iff. auto.
        * rewrite <- (TwinProgram.g_imp_id i3) at 1. apply TwinProgram.g_imp_ext. intros n Hn. apply AG3. rewrite !in_app_iff. auto.
      + rewrite <- (TwinProgram.g_imp_id j3) at 1. apply TwinProgram.g_imp_ext. intros n Hn. apply AG3. rewrite !in_app_iff. auto 10. }
  exact PMT.
Qed.
End MAPSCRIPTS.

(* ------------------------------------------------------------------------------------------------------------ *)
(* Part 6: from the mapscripts statement to the PROGRAM and to the compile outcome                                *)
(* ------------------------------------------------------------------------------------------------------------ *)
Section PROGRAM.
Variable av : list (text * autovar).
Variable sw : list (text * text).
Variable ee : bool.
Variable pf : toks -> res (token * text * text * toks).
Hypothesis pf_advs : format_advs pf.
Hypothesis pf_local : format_local pf.
Hypothesis pf_lt : format_lt pf.

Lemma top_step_mapscripts f c h xs : ttype (cur xs) = MAPSCRIPTS ->
  top_step av sw ee pf f c h xs =
  match parse_mapscripts av sw ee pf c f xs with
  | Ok (tp, imp, ts1) => let '(h', ps) := add_implicit imp h in Ok (c, h', [patch_top ps tp], [], ts1)
  | Err e => Err e | Panic => Panic | Fuel => Fuel end.
Proof. intros E. unfold top_step. rewrite E. reflexivity. Qed.

Local Notation srun := (TwinParse.srun av sw ee pf).
Local Notation st0 := TwinProgram.st0.

Theorem twin_ms_program_at T f st1 xs g t1 t2 t3 f' x' p1 q1 j1 b1 i1 z sc sv ts1 F cases ts2 ss imp' body ra prog1 :
  let c := pconsts st1 in let name := tlit (cur t2) in let sname := name ++ t "_" ++ tlit (cur x') in
  eof_ended T ->
  tops_run av sw ee pf (5 * len T + 4) st0 T (S f) st1 xs ->
  ttype (cur xs) = MAPSCRIPTS ->
  scope_modifier true xs = Ok (g, t1) -> expect_peek IDENT t1 = Some t2 -> expect_peek LBRACE t2 = Some t3 ->
  ms_run av sw ee pf c name f (adv t3) [] [] imp0 f' x' p1 q1 j1 ->
  curis RBRACE x' = false -> curis IDENT x' = true -> curis COLON (adv x') = false -> curis LBRACE (adv x') = true ->
  srun c sname [] [] (adv (adv x')) b1 i1 z ->
  curis PORYSWITCH z = true -> poryswitch_header sw ee z = Ok (sc, sv, ts1) -> (5 * len z <= F)%nat ->
  parse_pory_cases av sw ee pf c F sname [] [] (cur ts1) ts1 [] = Ok (cases, ts2) ->
  PorySwitchLists.pory_select cases sv = Some (ss, imp') ->
  advs ts1 (body ++ ra) -> srun c sname [] [] (body ++ ra) ss imp' ra -> advs ra ts2 ->
  (curis RBRACE ra = true \/ curis IDENT ra = true \/ curis INT ra = true) ->
  parse_program av sw ee pf T = Ok prog1 ->
  exists U p2,
    T = U ++ z /\
    (len (U ++ body ++ adv ts2) < len T)%nat /\
    parse_program av sw ee pf (U ++ body ++ adv ts2) = Ok p2 /\
    TagRename.shape_program prog1 = TagRename.shape_program p2.
Proof.
  intros c name sname E RUN TY SM EP1 EP2 MRUN NR CI CC CL R1 CP HH BF HC SEL AB RR AR RAK HP.
  unfold parse_program in HP.
  destruct (parse_tops av sw ee pf (5 * len T + 4) {| pconsts := []; ph := hst0; ptops := []; ptexts := [] |} T) as [stf| | |] eqn:PT; try discriminate HP.
  destruct (dup_text [] (checked_texts ee stf)) as [xd|] eqn:DT; [unfold err_tok in HP; discriminate HP|].
  destruct (dup_mov [] (checked_tops ee stf)) as [tkd|] eqn:DM; [unfold err_tok in HP; discriminate HP|].
  injection HP as <-.
  fold st0 in PT. rewrite (tops_run_parse_tops _ _ _ _ _ _ _ _ _ _ RUN) in PT.
  destruct (tops_run_eof av sw ee pf pf_advs _ _ _ _ _ _ RUN E (Nat.le_refl _)) as [Exs Bf1].
  rewrite parse_tops_step in PT.
  assert (NE : curis EOF xs = false) by (apply (TwinParse.curis_excl MAPSCRIPTS EOF); [apply TwinProgram.curis_of_type; exact TY|discriminate]).
  rewrite NE in PT. rewrite (top_step_mapscripts _ _ _ _ TY) in PT. fold c in PT.
  destruct (parse_mapscripts av sw ee pf c f xs) as [[[tp imp] y]| | |] eqn:PM; try discriminate PT.
  destruct (add_implicit imp (ph st1)) as [h' ps] eqn:AI. cbv beta iota in PT.
  destruct (twin_mapscripts_at av sw ee pf c pf_advs pf_local pf_lt f xs g t1 t2 t3 f' x' p1 q1 j1 b1 i1 z sc sv ts1 F cases ts2 ss imp' body ra
              tp imp y Exs ltac:(lia) SM EP1 EP2 MRUN NR CI CC CL R1 CP HH BF HC SEL AB RR AR RAK PM)
    as (U0 & G & EX0 & Gxs & ATz0 & Ez & Etw & LTW & Ginj & PMT).
  remember (body ++ adv ts2) as tw eqn:Dtw.
  (* the whole streams *)
  pose proof (tops_run_advs av sw ee pf pf_advs _ _ _ _ _ _ RUN) as AT.
  assert (ATz : advs T z) by (eapply advs_trans; [exact AT|exact ATz0]).
  destruct (advs_suffix _ _ ATz) as (U & ET).
  assert (NEz : z <> []) by (destruct Ez; assumption).
  assert (CEz : curis EOF z = false) by (eapply TwinParse.curis_excl; [exact CP|discriminate]).
  assert (TWNE : tw <> []) by (destruct Etw; assumption).
  assert (CK : class_ok z tw) by (unfold class_ok; rewrite (TagRename.BlockStep.curis_type _ _ CP); discriminate).
  assert (Gxs0 : Gw z 0 xs) by (eapply G_le; [|exact Gxs]; lia).
  assert (Gxs1 : Gw z 1 xs) by (eapply G_le; [|exact Gxs]; lia).
  destruct (tops_run_context av sw ee pf pf_advs pf_local z tw Ez TWNE CK _ _ _ _ _ _ RUN Gxs0 st0 eq_refl eq_refl)
    as (d & d' & e & P1 & P2 & SH & RUN').
  cbn [ptops ptexts TwinProgram.st0 app] in P1, P2, RUN'.
  assert (SWT : swap z tw T = U ++ tw) by (rewrite ET; apply swap_app).
  rewrite SWT in RUN'.
  remember {| pconsts := pconsts st1; ph := ph st1; ptops := d'; ptexts := e |} as st1' eqn:Dst1'.
  (* the mapscripts statement, in the twin *)
  remember (st_add st1' c h' [g_top G (patch_top ps tp)] []) as st2' eqn:Dst2'.
  assert (STEP : parse_tops av sw ee pf (S f) st1' (swap z tw xs) = parse_tops av sw ee pf f st2' (adv y)).
  { rewrite parse_tops_step. rewrite (swap_curis z tw EOF xs Gxs1). rewrite NE.
    rewrite top_step_mapscripts by (rewrite (swap_cur z tw xs Gxs1); exact TY).
    rewrite EX0, swap_app. rewrite Dst1'. cbn [pconsts ph]. fold c. rewrite PMT. rewrite add_implicit_g, AI. cbn [fst snd].
    rewrite (patch_top_g G Ginj). rewrite Dst2', Dst1'. reflexivity. }
  (* the rest of the loop *)
  assert (Ec2 : pconsts st2' = pconsts (st_add st1 c h' [patch_top ps tp] [])) by (rewrite Dst2', Dst1'; reflexivity).
  assert (Eh2 : ph st2' = ph (st_add st1 c h' [patch_top ps tp] [])) by (rewrite Dst2', Dst1'; reflexivity).
  destruct (TwinProgram.parse_tops_lists av sw ee pf f _ st2' _ _ Ec2 Eh2 PT) as (d2 & e2 & Q1 & Q2' & PT').
  cbn [st_add ptops ptexts] in Q1, Q2'. rewrite P1 in Q1. rewrite P2, app_nil_r in Q2'.
  assert (TX2 : ptexts st2' = e) by (rewrite Dst2', Dst1'; cbn [st_add ptexts]; apply app_nil_r).
  assert (TP2 : ptops st2' = d' ++ [g_top G (patch_top ps tp)]) by (rewrite Dst2', Dst1'; reflexivity).
  rewrite TX2, TP2 in PT'.
  remember {| pconsts := pconsts stf; ph := ph stf; ptops := (d' ++ [g_top G (patch_top ps tp)]) ++ d2; ptexts := e ++ e2 |} as stf' eqn:Dstf'.
  assert (SHP : map TagRename.shape_top (ptops stf') = map TagRename.shape_top (ptops stf)).
  { rewrite Dstf', Q1. cbn [ptops]. rewrite !map_app. rewrite (TwinProgram.shifted_shape _ _ _ _ SH). cbn [map].
    rewrite TwinProgram.shape_g_top. reflexivity. }
  (* the twin program *)
  assert (LT : (len (U ++ tw) < len T)%nat) by (rewrite ET, !app_length; lia).
  assert (ETw : eof_ended (U ++ tw)) by (apply ProgSrc.eof_ended_app; exact Etw).
  assert (PP : parse_tops av sw ee pf (5 * len (U ++ tw) + 4) st0 (U ++ tw) = Ok stf').
  { rewrite (TwinProgram.parse_tops_fuel av sw ee pf pf_advs pf_lt st0 (U ++ tw) _ (5 * len T + 4) ETw) by lia.
    rewrite (tops_run_parse_tops _ _ _ _ _ _ _ _ _ _ RUN'). rewrite STEP. exact PT'. }
  exists U.
  exists {| tops := ptops stf' ++ hmovs (ph stf'); texts := htexts (ph stf') ++ ptexts stf' |}.
  split; [exact ET|]. split; [exact LT|].
  assert (PHE : ph stf' = ph stf) by (rewrite Dstf'; reflexivity).
  assert (TXE : ptexts stf' = ptexts stf) by (rewrite Dstf', Q2'; reflexivity).
  split.
  - unfold parse_program. fold st0. rewrite PP.
    assert (CT : checked_texts ee stf' = checked_texts ee stf) by (unfold checked_texts; rewrite PHE, TXE; reflexivity).
    rewrite CT, DT.
    assert (CM : dup_mov [] (checked_tops ee stf') = dup_mov [] (checked_tops ee stf)).
    { apply TwinProgram.dup_mov_shape. unfold checked_tops. rewrite PHE. destruct ee; [rewrite !map_app, SHP; reflexivity|exact SHP]. }
    rewrite CM, DM. reflexivity.
  - unfold TagRename.shape_program. cbn [tops texts]. rewrite PHE, TXE. f_equal. rewrite !map_app, SHP. reflexivity.
Qed.
End PROGRAM.

(* the selected case FOUND (TwinParse.twin_block_step): the twin is determined by the position of the poryswitch alone *)
Section PROGRAM2.
Variable av : list (text * autovar).
Variable sw : list (text * text).
Variable ee : bool.
Variable pf : toks -> res (token * text * text * toks).
Hypothesis pf_advs : format_advs pf.
Hypothesis pf_local : format_local pf.
Hypothesis pf_lt : format_lt pf.
Local Notation srun := (TwinParse.srun av sw ee pf).
Local Notation case_seq := (TwinParse.case_seq av sw ee pf).
Local Notation case_at := (TwinParse.case_at av sw ee pf).
Local Notation st0 := TwinProgram.st0.

Theorem twin_ms_program T f st1 xs g t1 t2 t3 f' x' p1 q1 j1 b1 i1 z sc sv ts1 F cases ts2 ss imp' prog1 :
  let c := pconsts st1 in let name := tlit (cur t2) in let sname := name ++ t "_" ++ tlit (cur x') in
  eof_ended T ->
  tops_run av sw ee pf (5 * len T + 4) st0 T (S f) st1 xs ->
  ttype (cur xs) = MAPSCRIPTS ->
  scope_modifier true xs = Ok (g, t1) -> expect_peek IDENT t1 = Some t2 -> expect_peek LBRACE t2 = Some t3 ->
  ms_run av sw ee pf c name f (adv t3) [] [] imp0 f' x' p1 q1 j1 ->
  curis RBRACE x' = false -> curis IDENT x' = true -> curis COLON (adv x') = false -> curis LBRACE (adv x') = true ->
  srun c sname [] [] (adv (adv x')) b1 i1 z ->
  curis PORYSWITCH z = true -> poryswitch_header sw ee z = Ok (sc, sv, ts1) -> (5 * len z <= F)%nat ->
  parse_pory_cases av sw ee pf c F sname [] [] (cur ts1) ts1 [] = Ok (cases, ts2) ->
  PorySwitchLists.pory_select cases sv = Some (ss, imp') ->
  parse_program av sw ee pf T = Ok prog1 ->
  exists U l key l1 l2 tsc ra tsn body p2,
    T = U ++ z /\
    cases = rev l /\ l = l1 ++ (key, (ss, imp')) :: l2 /\ assoc l2 key = None /\
    (key = sval sv \/ (key = t "_" /\ assoc l (sval sv) = None)) /\
    case_seq c sname [] [] ts1 l1 tsc /\ case_at c sname [] [] tsc key ss imp' ra tsn /\ case_seq c sname [] [] tsn l2 ts2 /\
    curis RBRACE ts2 = true /\ adv (adv tsc) = body ++ ra /\
    (len (U ++ body ++ adv ts2) < len T)%nat /\
    parse_program av sw ee pf (U ++ body ++ adv ts2) = Ok p2 /\
    TagRename.shape_program prog1 = TagRename.shape_program p2.
Proof.
  intros c name sname E RUN TY SM EP1 EP2 MRUN NR CI CC CL R1 CP HH BF HC SEL HP.
  destruct (tops_run_eof av sw ee pf pf_advs _ _ _ _ _ _ RUN E (Nat.le_refl _)) as [Exs _].
  pose proof (expect_peek_some _ _ _ EP1) as Q2. pose proof (expect_peek_some _ _ _ EP2) as Q3.
  assert (A1 : advs xs t1) by (eapply scope_modifier_advs; [exact SM|apply advs_refl]).
  assert (A3 : advs xs (adv t3)) by (apply advs_adv_r; rewrite Q3; apply advs_adv_r; rewrite Q2; apply advs_adv_r; exact A1).
  pose proof (ms_run_advs av sw ee pf c pf_advs _ _ _ _ _ _ _ _ _ _ _ MRUN) as AR0.
  pose proof (TwinParse.srun_advs av sw ee pf c pf_advs _ _ _ _ _ _ _ R1) as A0.
  assert (Ez : eof_ended z).
  { eapply advs_eof; [exact A0|]. eapply advs_eof; [apply advs_adv_r, advs_adv_r, advs_refl|].
    eapply advs_eof; [exact AR0|]. eapply advs_eof; eassumption. }
  destruct (TwinParse.twin_block_step av sw ee pf c pf_advs pf_local pf_lt sname [] [] z sc sv ts1 F cases ts2 ss imp' Ez CP HH BF HC SEL)
    as (l & key & l1 & l2 & tsc & ra & tsn & body & EQ & EL & NL & W & SQ1 & CA & SQ2 & RB & EB & RANE & LR & _ & _).
  pose proof CA as (LAB & KEY & RR & FORM).
  pose proof (TwinParse.case_seq_advs av sw ee pf c pf_advs _ _ _ _ _ _ SQ1) as Atsc.
  pose proof (TwinParse.case_seq_advs av sw ee pf c pf_advs _ _ _ _ _ _ SQ2) as A2.
  assert (AB : advs ts1 (body ++ ra)) by (rewrite <- EB; apply advs_adv_r, advs_adv_r; exact Atsc).
  assert (AR : advs ra ts2).
  { eapply advs_trans; [|exact A2]. destruct FORM as [(_ & _ & ->)|(_ & _ & ->)]; [apply advs_refl|apply advs_adv_r, advs_refl]. }
  assert (RAK : curis RBRACE ra = true \/ curis IDENT ra = true \/ curis INT ra = true).
  { destruct FORM as [(_ & _ & ->)|(_ & CR & _)]; [|left; exact CR].
    destruct SQ2 as [ts|ts k0 ss0 imp1 ra0 ts1' l0 ts' NR0 CA' SQ']; [left; exact RB|].
    destruct CA' as ([CI0|CI0] & _); [right; left; exact CI0|right; right; exact CI0]. }
  rewrite EB in RR.
  destruct (twin_ms_program_at av sw ee pf pf_advs pf_local pf_lt T f st1 xs g t1 t2 t3 f' x' p1 q1 j1 b1 i1 z sc sv ts1 F cases ts2 ss imp' body ra prog1
              E RUN TY SM EP1 EP2 MRUN NR CI CC CL R1 CP HH BF HC SEL AB RR AR RAK HP) as (U & p2 & ET & LT & HP2 & SHP).
  exists U, l, key, l1, l2, tsc, ra, tsn, body, p2.
  split; [exact ET|]. split; [exact EQ|]. split; [exact EL|]. split; [exact NL|]. split; [exact W|]. split; [exact SQ1|].
  split; [exact CA|]. split; [exact SQ2|]. split; [exact RB|]. split; [exact EB|]. split; [exact LT|]. split; [exact HP2|exact SHP].
Qed.

(* no case for the switch value and no '_' (normal mode): the program is rejected with the error at the poryswitch token *)
Theorem no_case_ms_program T f st1 xs g t1 t2 t3 f' x' p1 q1 j1 b1 i1 z sc sv ts1 F cases ts2 :
  let c := pconsts st1 in let name := tlit (cur t2) in let sname := name ++ t "_" ++ tlit (cur x') in
  ee = true ->
  eof_ended T ->
  tops_run av sw ee pf (5 * len T + 4) st0 T (S f) st1 xs ->
  ttype (cur xs) = MAPSCRIPTS ->
  scope_modifier true xs = Ok (g, t1) -> expect_peek IDENT t1 = Some t2 -> expect_peek LBRACE t2 = Some t3 ->
  ms_run av sw ee pf c name f (adv t3) [] [] imp0 f' x' p1 q1 j1 ->
  curis RBRACE x' = false -> curis IDENT x' = true -> curis COLON (adv x') = false -> curis LBRACE (adv x') = true ->
  srun c sname [] [] (adv (adv x')) b1 i1 z ->
  curis PORYSWITCH z = true -> poryswitch_header sw ee z = Ok (sc, sv, ts1) -> (5 * len z <= F)%nat ->
  parse_pory_cases av sw ee pf c F sname [] [] (cur ts1) ts1 [] = Ok (cases, ts2) ->
  PorySwitchLists.pory_select cases sv = None ->
  parse_program av sw ee pf T = err_tok (cur z) "no poryswitch case found".
Proof.
  intros c name sname EE E RUN TY SM EP1 EP2 MRUN NR CI CC CL R1 CP HH BF HC SEL. subst ee.
  unfold parse_program. fold st0. rewrite (tops_run_parse_tops _ _ _ _ _ _ _ _ _ _ RUN).
  destruct (tops_run_eof av sw true pf pf_advs _ _ _ _ _ _ RUN E (Nat.le_refl _)) as [Exs Bf1].
  rewrite parse_tops_step.
  assert (NE : curis EOF xs = false) by (apply (TwinParse.curis_excl MAPSCRIPTS EOF); [apply TwinProgram.curis_of_type; exact TY|discriminate]).
  rewrite NE. rewrite (top_step_mapscripts _ _ _ _ _ _ _ _ TY). rewrite (parse_mapscripts_eq _ _ _ _ _ _ _ _ _ _ _ SM EP1 EP2).
  fold c name.
  pose proof (expect_peek_some _ _ _ EP1) as Q2. pose proof (expect_peek_some _ _ _ EP2) as Q3.
  assert (A1 : advs xs t1) by (eapply scope_modifier_advs; [exact SM|apply advs_refl]).
  assert (A3 : advs xs (adv t3)) by (apply advs_adv_r; rewrite Q3; apply advs_adv_r; rewrite Q2; apply advs_adv_r; exact A1).
  assert (Ex0 : eof_ended (adv t3)) by (eapply advs_eof; eassumption).
  pose proof (advs_len _ _ A3) as Lx0.
  pose proof (ms_run_advs av sw true pf c pf_advs _ _ _ _ _ _ _ _ _ _ _ MRUN) as AR0.
  assert (Ex' : eof_ended x') by (eapply advs_eof; eassumption).
  pose proof (ms_run_fuel av sw true pf c pf_advs name 3 _ _ _ _ _ _ _ _ _ _ MRUN Ex0 ltac:(lia)) as Bf'.
  assert (NEx' : ttype (cur x') <> EOF) by (apply TwinParse.curis_eof_ne; apply (TwinParse.curis_excl IDENT EOF); [exact CI|discriminate]).
  pose proof (adv_strict x' Ex' NEx') as Lax'. pose proof (adv_len (adv x')) as Laax'.
  destruct f' as [|f'']; [lia|].
  assert (Exb : eof_ended (adv (adv x'))) by (eapply advs_eof; [apply advs_adv_r, advs_adv_r, advs_refl|exact Ex']).
  rewrite (ms_run_entries av sw true pf c _ _ _ _ _ _ _ _ _ _ _ MRUN).
  rewrite (ms_entries_script_step av sw true pf c name f'' x' p1 q1 j1 NR CI CC CL). fold sname.
  pose proof (TwinParse.srun_advs av sw true pf c pf_advs _ _ _ _ _ _ _ R1) as A0.
  pose proof (advs_eof _ _ A0 Exb) as Ez. pose proof (advs_len _ _ A0) as Lz.
  rewrite (TwinParse.block_srun av sw true pf c pf_advs pf_lt _ _ _ _ _ _ _ R1 Exb f'' (cur (adv x')) [] imp0) by lia.
  rewrite (TwinParse.block_pory_step av sw true pf c pf_advs pf_lt sname [] [] z sc sv ts1 F cases ts2 Ez CP HH BF HC f'' (cur (adv x'))) by lia.
  rewrite SEL. reflexivity.
Qed.
End PROGRAM2.

(* ---------- the instance for the parser that Compile.compile runs, and the statements on compile outcomes ---------- *)
(* C12 for a poryswitch in the body of an inline map script, from source text to output text: src has the token stream U ++ z,
   src' is ANY source whose token stream is  U ++ body ++ (what follows the closing brace of the poryswitch); if src parses,
   both compile to the same outcome (the same text, or the same emitter error). *)
Theorem twin_ms_compile_at hl hd hs av sw ee fc font ml optimize mpath src
        f st1 xs g t1 t2 t3 f' x' p1 q1 j1 b1 i1 z sc sv ts1 F cases ts2 ss imp' body ra prog1 :
  let pf := Format.parse_format fc font ml ee in
  let T := lex hl hd hs src in
  let c := pconsts st1 in let name := tlit (cur t2) in let sname := name ++ t "_" ++ tlit (cur x') in
  tops_run av sw ee pf (5 * len T + 4) TwinProgram.st0 T (S f) st1 xs ->
  ttype (cur xs) = MAPSCRIPTS ->
  scope_modifier true xs = Ok (g, t1) -> expect_peek IDENT t1 = Some t2 -> expect_peek LBRACE t2 = Some t3 ->
  ms_run av sw ee pf c name f (adv t3) [] [] imp0 f' x' p1 q1 j1 ->
  curis RBRACE x' = false -> curis IDENT x' = true -> curis COLON (adv x') = false -> curis LBRACE (adv x') = true ->
  TwinParse.srun av sw ee pf c sname [] [] (adv (adv x')) b1 i1 z ->
  curis PORYSWITCH z = true -> poryswitch_header sw ee z = Ok (sc, sv, ts1) -> (5 * len z <= F)%nat ->
  parse_pory_cases av sw ee pf c F sname [] [] (cur ts1) ts1 [] = Ok (cases, ts2) ->
  PorySwitchLists.pory_select cases sv = Some (ss, imp') ->
  advs ts1 (body ++ ra) -> TwinParse.srun av sw ee pf c sname [] [] (body ++ ra) ss imp' ra -> advs ra ts2 ->
  (curis RBRACE ra = true \/ curis IDENT ra = true \/ curis INT ra = true) ->
  parse_program av sw ee pf T = Ok prog1 ->
  forall U src', T = U ++ z -> lex hl hd hs src' = U ++ body ++ adv ts2 ->
    Compile.compile hl hd hs av sw ee fc font ml optimize mpath src =
    Compile.compile hl hd hs av sw ee fc font ml optimize mpath src'.
Proof.
  intros pf T c name sname RUN TY SM EP1 EP2 MRUN NR CI CC CL R1 CP HH BF HC SEL AB RR AR RAK HP U src' ET Hl.
  destruct (twin_ms_program_at av sw ee pf (real_format_advs fc font ml ee) (real_format_local fc font ml ee) (real_format_lt fc font ml ee)
              T f st1 xs g t1 t2 t3 f' x' p1 q1 j1 b1 i1 z sc sv ts1 F cases ts2 ss imp' body ra prog1
              (ProgSrc.lex_eof hl hd hs src) RUN TY SM EP1 EP2 MRUN NR CI CC CL R1 CP HH BF HC SEL AB RR AR RAK HP)
    as (U0 & p2 & ET0 & LT & HP2 & SHP).
  assert (EU : U0 = U) by (rewrite ET in ET0; apply app_inv_tail in ET0; symmetry; exact ET0).
  subst U0. rewrite <- Hl in HP2.
  exact (TagRename.compile_same_shape hl hd hs av av sw sw ee ee fc fc font font ml ml optimize mpath src src' prog1 p2 HP HP2 SHP).
Qed.

(* the same with the selected case FOUND: the last case labelled with the -s value, else the last case labelled '_' *)
Theorem twin_ms_compile hl hd hs av sw ee fc font ml optimize mpath src
        f st1 xs g t1 t2 t3 f' x' p1 q1 j1 b1 i1 z sc sv ts1 F cases ts2 ss imp' prog1 :
  let pf := Format.parse_format fc font ml ee in
  let T := lex hl hd hs src in
  let c := pconsts st1 in let name := tlit (cur t2) in let sname := name ++ t "_" ++ tlit (cur x') in
  tops_run av sw ee pf (5 * len T + 4) TwinProgram.st0 T (S f) st1 xs ->
  ttype (cur xs) = MAPSCRIPTS ->
  scope_modifier true xs = Ok (g, t1) -> expect_peek IDENT t1 = Some t2 -> expect_peek LBRACE t2 = Some t3 ->
  ms_run av sw ee pf c name f (adv t3) [] [] imp0 f' x' p1 q1 j1 ->
  curis RBRACE x' = false -> curis IDENT x' = true -> curis COLON (adv x') = false -> curis LBRACE (adv x') = true ->
  TwinParse.srun av sw ee pf c sname [] [] (adv (adv x')) b1 i1 z ->
  curis PORYSWITCH z = true -> poryswitch_header sw ee z = Ok (sc, sv, ts1) -> (5 * len z <= F)%nat ->
  parse_pory_cases av sw ee pf c F sname [] [] (cur ts1) ts1 [] = Ok (cases, ts2) ->
  PorySwitchLists.pory_select cases sv = Some (ss, imp') ->
  parse_program av sw ee pf T = Ok prog1 ->
  exists U l key l1 l2 tsc ra tsn body,
    T = U ++ z /\
    cases = rev l /\ l = l1 ++ (key, (ss, imp')) :: l2 /\ assoc l2 key = None /\
    (key = sval sv \/ (key = t "_" /\ assoc l (sval sv) = None)) /\
    TwinParse.case_seq av sw ee pf c sname [] [] ts1 l1 tsc /\ TwinParse.case_at av sw ee pf c sname [] [] tsc key ss imp' ra tsn /\
    TwinParse.case_seq av sw ee pf c sname [] [] tsn l2 ts2 /\
    curis RBRACE ts2 = true /\ adv (adv tsc) = body ++ ra /\
    (len (U ++ body ++ adv ts2) < len T)%nat /\
    forall src', lex hl hd hs src' = U ++ body ++ adv ts2 ->
      Compile.compile hl hd hs av sw ee fc font ml optimize mpath src =
      Compile.compile hl hd hs av sw ee fc font ml optimize mpath src'.
Proof.
  intros pf T c name sname RUN TY SM EP1 EP2 MRUN NR CI CC CL R1 CP HH BF HC SEL HP.
  destruct (twin_ms_program av sw ee pf (real_format_advs fc font ml ee) (real_format_local fc font ml ee) (real_format_lt fc font ml ee)
              T f st1 xs g t1 t2 t3 f' x' p1 q1 j1 b1 i1 z sc sv ts1 F cases ts2 ss imp' prog1
              (ProgSrc.lex_eof hl hd hs src) RUN TY SM EP1 EP2 MRUN NR CI CC CL R1 CP HH BF HC SEL HP)
    as (U & l & key & l1 & l2 & tsc & ra & tsn & body & p2 & ET & EQ & EL & NL & W & SQ1 & CA & SQ2 & RB & EB & LT & HP2 & SHP).
  exists U, l, key, l1, l2, tsc, ra, tsn, body.
  split; [exact ET|]. split; [exact EQ|]. split; [exact EL|]. split; [exact NL|]. split; [exact W|]. split; [exact SQ1|].
  split; [exact CA|]. split; [exact SQ2|]. split; [exact RB|]. split; [exact EB|]. split; [exact LT|].
  intros src' Hl. rewrite <- Hl in HP2.
  exact (TagRename.compile_same_shape hl hd hs av av sw sw ee ee fc fc font font ml ml optimize mpath src src' prog1 p2 HP HP2 SHP).
Qed.

Theorem no_case_ms_compile hl hd hs av sw fc font ml optimize mpath src
        f st1 xs g t1 t2 t3 f' x' p1 q1 j1 b1 i1 z sc sv ts1 F cases ts2 :
  let pf := Format.parse_format fc font ml true in
  let T := lex hl hd hs src in
  let c := pconsts st1 in let name := tlit (cur t2) in let sname := name ++ t "_" ++ tlit (cur x') in
  tops_run av sw true pf (5 * len T + 4) TwinProgram.st0 T (S f) st1 xs ->
  ttype (cur xs) = MAPSCRIPTS ->
  scope_modifier true xs = Ok (g, t1) -> expect_peek IDENT t1 = Some t2 -> expect_peek LBRACE t2 = Some t3 ->
  ms_run av sw true pf c name f (adv t3) [] [] imp0 f' x' p1 q1 j1 ->
  curis RBRACE x' = false -> curis IDENT x' = true -> curis COLON (adv x') = false -> curis LBRACE (adv x') = true ->
  TwinParse.srun av sw true pf c sname [] [] (adv (adv x')) b1 i1 z ->
  curis PORYSWITCH z = true -> poryswitch_header sw true z = Ok (sc, sv, ts1) -> (5 * len z <= F)%nat ->
  parse_pory_cases av sw true pf c F sname [] [] (cur ts1) ts1 [] = Ok (cases, ts2) ->
  PorySwitchLists.pory_select cases sv = None ->
  exists e, Compile.compile hl hd hs av sw true fc font ml optimize mpath src = Compile.OutErr e /\
            emsg e = t "no poryswitch case found" /\ els e = tline (cur z) /\ ecs e = tsb (cur z).
Proof.
  intros pf T c name sname RUN TY SM EP1 EP2 MRUN NR CI CC CL R1 CP HH BF HC SEL.
  pose proof (no_case_ms_program av sw true pf (real_format_advs fc font ml true) (real_format_lt fc font ml true)
                T f st1 xs g t1 t2 t3 f' x' p1 q1 j1 b1 i1 z sc sv ts1 F cases ts2 eq_refl (ProgSrc.lex_eof hl hd hs src)
                RUN TY SM EP1 EP2 MRUN NR CI CC CL R1 CP HH BF HC SEL) as HP.
  unfold Compile.compile. fold T. fold pf. rewrite HP. unfold err_tok. eexists. split; [reflexivity|]. cbn [emsg els ecs]. auto.
Qed.

(* ------------------------------------------------------------------------------------------------------------ *)
(* Part 7: the hypotheses hold on a concrete program: a mapscripts statement with a label entry, a table with an  *)
(* inline script and an inline script in front of the entry that holds the poryswitch, one entry behind it.       *)
(* ------------------------------------------------------------------------------------------------------------ *)
Open Scope string_scope.
Definition nl1 := TagRename.nl1.
Definition ms_src : string :=
  "text T1 { ""hi"" }" ++ nl1 ++
  "mapscripts M {" ++ nl1 ++
  "  MAP_SCRIPT_ON_LOAD: Other" ++ nl1 ++
  "  MAP_SCRIPT_ON_FRAME_TABLE [ VAR_A, 1: Lbl  VAR_B, 2 { lock } ]" ++ nl1 ++
  "  MAP_SCRIPT_ON_RESUME { end }" ++ nl1 ++
  "  MAP_SCRIPT_ON_TRANSITION {" ++ nl1 ++
  "    lock" ++ nl1 ++
  "    poryswitch(GAME) {" ++ nl1 ++
  "      SAPPHIRE: release" ++ nl1 ++
  "      RUBY { msgbox(""hi"") }" ++ nl1 ++
  "      _ { end }" ++ nl1 ++
  "    }" ++ nl1 ++
  "    msgbox(""bye"")" ++ nl1 ++
  "  }" ++ nl1 ++
  "  MAP_SCRIPT_ON_DIVE { faceplayer }" ++ nl1 ++
  "}" ++ nl1 ++
  "script Post { end }".
Definition ms_twin : string :=
  "text T1 { ""hi"" }" ++ nl1 ++
  "mapscripts M {" ++ nl1 ++
  "  MAP_SCRIPT_ON_LOAD: Other" ++ nl1 ++
  "  MAP_SCRIPT_ON_FRAME_TABLE [ VAR_A, 1: Lbl  VAR_B, 2 { lock } ]" ++ nl1 ++
  "  MAP_SCRIPT_ON_RESUME { end }" ++ nl1 ++
  "  MAP_SCRIPT_ON_TRANSITION {" ++ nl1 ++
  "    lock" ++ nl1 ++
  "                      " ++ nl1 ++
  "                       " ++ nl1 ++
  "             msgbox(""hi"")  " ++ nl1 ++
  "               " ++ nl1 ++
  "     " ++ nl1 ++
  "    msgbox(""bye"")" ++ nl1 ++
  "  }" ++ nl1 ++
  "  MAP_SCRIPT_ON_DIVE { faceplayer }" ++ nl1 ++
  "}" ++ nl1 ++
  "script Post { end }".
Definition ms_nc_src : string :=
  "text T1 { ""hi"" }" ++ nl1 ++
  "mapscripts M {" ++ nl1 ++
  "  MAP_SCRIPT_ON_LOAD: Other" ++ nl1 ++
  "  MAP_SCRIPT_ON_FRAME_TABLE [ VAR_A, 1: Lbl  VAR_B, 2 { lock } ]" ++ nl1 ++
  "  MAP_SCRIPT_ON_RESUME { end }" ++ nl1 ++
  "  MAP_SCRIPT_ON_TRANSITION {" ++ nl1 ++
  "    lock" ++ nl1 ++
  "    poryswitch(GAME) {" ++ nl1 ++
  "      SAPPHIRE: release" ++ nl1 ++
  "      EMERALD { msgbox(""hi"") }" ++ nl1 ++
  "      LEAF { end }" ++ nl1 ++
  "    }" ++ nl1 ++
  "    msgbox(""bye"")" ++ nl1 ++
  "  }" ++ nl1 ++
  "  MAP_SCRIPT_ON_DIVE { faceplayer }" ++ nl1 ++
  "}" ++ nl1 ++
  "script Post { end }".
Close Scope string_scope.
Definition nf := TagRename.nf.
Definition ms_T : toks := Eval vm_compute in lex nf nf nf (t ms_src).
Lemma ms_T_eq : lex nf nf nf (t ms_src) = ms_T. Proof. vm_compute. reflexivity. Qed.

Example twin_ms_compile_example :
  Compile.compile nf nf nf [] TagRename.sw0 true TagRename.fc0 [] 0%Z false None (t ms_src) =
  Compile.compile nf nf nf [] TagRename.sw0 true TagRename.fc0 [] 0%Z false None (t ms_twin).
Proof.
  eapply (twin_ms_compile_at nf nf nf [] TagRename.sw0 true TagRename.fc0 [] 0%Z false None (t ms_src))
    with (xs := skipn 5 ms_T) (z := skipn 32 ms_T) (body := firstn 4 (skipn 42 ms_T)) (ra := skipn 46 ms_T) (U := firstn 32 ms_T).
  all: rewrite ?ms_T_eq.
  - (* the text statement in front of the mapscripts statement *)
    let n := eval vm_compute in (5 * len ms_T + 4)%nat in change (5 * len ms_T + 4)%nat with n.
    eapply run_step; [vm_compute; reflexivity|vm_compute; reflexivity|vm_compute; reflexivity|].
    apply run_refl.
  - vm_compute; reflexivity.
  - vm_compute; reflexivity.
  - vm_compute; reflexivity.
  - vm_compute; reflexivity.
  - (* three entries in front: a label entry, a table (with an inline script), an inline script *)
    eapply mr_label; [vm_compute; reflexivity|vm_compute; reflexivity|vm_compute; reflexivity|vm_compute; reflexivity|].
    eapply mr_table; [vm_compute; reflexivity|vm_compute; reflexivity|vm_compute; reflexivity|vm_compute; reflexivity|vm_compute; reflexivity
                     |vm_compute; reflexivity|].
    eapply mr_script; [vm_compute; reflexivity|vm_compute; reflexivity|vm_compute; reflexivity|vm_compute; reflexivity|vm_compute; reflexivity|].
    apply mr_nil.
  - vm_compute; reflexivity.
  - vm_compute; reflexivity.
  - vm_compute; reflexivity.
  - vm_compute; reflexivity.
  - (* the statement `lock` in front of the poryswitch *)
    eapply TwinProgram.srun_one; [apply Nat.le_refl|vm_compute; reflexivity|vm_compute; lia|vm_compute; reflexivity].
  - vm_compute; reflexivity.
  - vm_compute; reflexivity.
  - apply Nat.le_refl.
  - vm_compute; reflexivity.
  - vm_compute; reflexivity.
  - match goal with |- advs ?a _ => let n := eval vm_compute in (len a - len (skipn 42 ms_T))%nat in apply (TwinProgram.advs_at n) end;
      [vm_compute; lia|vm_compute; reflexivity].
  - eapply TwinProgram.srun_one; [apply Nat.le_refl|vm_compute; reflexivity|vm_compute; lia|vm_compute; reflexivity].
  - match goal with |- advs _ ?b => let n := eval vm_compute in (len (skipn 46 ms_T) - len b)%nat in apply (TwinProgram.advs_at n) end;
      [vm_compute; lia|vm_compute; reflexivity].
  - left. vm_compute. reflexivity.
  - vm_compute. reflexivity.
  - symmetry. apply firstn_skipn.
  - vm_compute. reflexivity.
Qed.
Example twin_ms_compile_example_nontrivial :
  (exists out, Compile.compile nf nf nf [] TagRename.sw0 true TagRename.fc0 [] 0%Z false None (t ms_src) = Compile.OutText out) /\
  (exists p1 p2, parse_program [] TagRename.sw0 true (Format.parse_format TagRename.fc0 [] 0%Z true) (lex nf nf nf (t ms_src)) = Ok p1 /\
                 parse_program [] TagRename.sw0 true (Format.parse_format TagRename.fc0 [] 0%Z true) (lex nf nf nf (t ms_twin)) = Ok p2 /\
                 tops p1 <> tops p2).
Proof.
  split; [eexists; vm_compute; reflexivity|]. eexists. eexists. split; [vm_compute; reflexivity|]. split; [vm_compute; reflexivity|].
  intros H. vm_compute in H. discriminate H.
Qed.

Definition ms_nc_T : toks := Eval vm_compute in lex nf nf nf (t ms_nc_src).
Lemma ms_nc_T_eq : lex nf nf nf (t ms_nc_src) = ms_nc_T. Proof. vm_compute. reflexivity. Qed.
Example no_case_ms_example :
  exists e, Compile.compile nf nf nf [] TagRename.sw0 true TagRename.fc0 [] 0%Z false None (t ms_nc_src) = Compile.OutErr e /\
            emsg e = t "no poryswitch case found" /\ els e = tline (cur (skipn 32 ms_nc_T)) /\ ecs e = tsb (cur (skipn 32 ms_nc_T)).
Proof.
  eapply (no_case_ms_compile nf nf nf [] TagRename.sw0 TagRename.fc0 [] 0%Z false None (t ms_nc_src))
    with (xs := skipn 5 ms_nc_T) (z := skipn 32 ms_nc_T).
  all: rewrite ?ms_nc_T_eq.
  - let n := eval vm_compute in (5 * len ms_nc_T + 4)%nat in change (5 * len ms_nc_T + 4)%nat with n.
    eapply run_step; [vm_compute; reflexivity|vm_compute; reflexivity|vm_compute; reflexivity|].
    apply run_refl.
  - vm_compute; reflexivity.
  - vm_compute; reflexivity.
  - vm_compute; reflexivity.
  - vm_compute; reflexivity.
  - eapply mr_label; [vm_compute; reflexivity|vm_compute; reflexivity|vm_compute; reflexivity|vm_compute; reflexivity|].
    eapply mr_table; [vm_compute; reflexivity|vm_compute; reflexivity|vm_compute; reflexivity|vm_compute; reflexivity|vm_compute; reflexivity
                     |vm_compute; reflexivity|].
    eapply mr_script; [vm_compute; reflexivity|vm_compute; reflexivity|vm_compute; reflexivity|vm_compute; reflexivity|vm_compute; reflexivity|].
    apply mr_nil.
  - vm_compute; reflexivity.
  - vm_compute; reflexivity.
  - vm_compute; reflexivity.
  - vm_compute; reflexivity.
  - eapply TwinProgram.srun_one; [apply Nat.le_refl|vm_compute; reflexivity|vm_compute; lia|vm_compute; reflexivity].
  - vm_compute; reflexivity.
  - vm_compute; reflexivity.
  - apply Nat.le_refl.
  - vm_compute; reflexivity.
  - vm_compute; reflexivity.
Qed.

(* ------------------------------------------------------------------------------------------------------------ *)
(* Part 8: ANY DEPTH: the poryswitch nested in control constructs (if / elif / else / while / do / switch cases,   *)
(* relation TwinIf.nest2) inside the block of the inline map script entry                                          *)
(* ------------------------------------------------------------------------------------------------------------ *)
Section NESTED.
Variable av : list (text * autovar).
Variable sw : list (text * text).
Variable ee : bool.
Variable pf : toks -> res (token * text * text * toks).
Hypothesis pf_advs : format_advs pf.
Hypothesis pf_local : format_local pf.
Hypothesis pf_lt : format_lt pf.

Theorem twin_mapscripts_nested c f xs g t1 t2 t3 f' x' p1 q1 j1 z bsz csz sc sv ts1 F cases ts2 ss imp' body ra tp imp y :
  let name := tlit (cur t2) in let sname := name ++ t "_" ++ tlit (cur x') in
  eof_ended xs -> (5 * len xs + 3 <= f)%nat ->
  scope_modifier true xs = Ok (g, t1) -> expect_peek IDENT t1 = Some t2 -> expect_peek LBRACE t2 = Some t3 ->
  ms_run av sw ee pf c name f (adv t3) [] [] imp0 f' x' p1 q1 j1 ->
  curis RBRACE x' = false -> curis IDENT x' = true -> curis COLON (adv x') = false -> curis LBRACE (adv x') = true ->
  TwinIf.nest2 av sw ee pf c sname z bsz csz true [] [] (adv (adv x')) ->
  curis PORYSWITCH z = true -> poryswitch_header sw ee z = Ok (sc, sv, ts1) -> (5 * len z <= F)%nat ->
  parse_pory_cases av sw ee pf c F sname bsz csz (cur ts1) ts1 [] = Ok (cases, ts2) ->
  PorySwitchLists.pory_select cases sv = Some (ss, imp') ->
  advs ts1 (body ++ ra) -> TwinParse.srun av sw ee pf c sname bsz csz (body ++ ra) ss imp' ra -> advs ra ts2 ->
  (curis RBRACE ra = true \/ curis IDENT ra = true \/ curis INT ra = true) ->
  (csz = [] \/ TwinParse.LC ra (adv ts2)) ->
  parse_mapscripts av sw ee pf c f xs = Ok (tp, imp, y) ->
  exists U G,
    xs = U ++ z /\ Gw z 5 xs /\ advs xs z /\ eof_ended z /\ eof_ended (body ++ adv ts2) /\ (len (body ++ adv ts2) < len z)%nat /\
    (forall a b, G a = G b -> a = b) /\
    parse_mapscripts av sw ee pf c f (U ++ body ++ adv ts2) = Ok (g_top G tp, g_imp G imp, y).
Proof.
  intros name sname E Bf SM EP1 EP2 RUN NR CI CC CL NEST CP HH BF HC SEL AB RR AR RAK HLC HP.
  rewrite (parse_mapscripts_eq _ _ _ _ _ _ _ _ _ _ _ SM EP1 EP2) in HP. fold name in HP.
  destruct (ms_entries av sw ee pf c f name (adv t3) [] [] imp0) as [[[[plain tables] impM] y0]| | |] eqn:ME; try discriminate HP.
  injection HP as <- <- <-.
  pose proof (expect_peek_some _ _ _ EP1) as Q2. pose proof (expect_peek_some _ _ _ EP2) as Q3.
  assert (A1 : advs xs t1) by (eapply scope_modifier_advs; [exact SM|apply advs_refl]).
  assert (A3 : advs xs (adv t3)) by (apply advs_adv_r; rewrite Q3; apply advs_adv_r; rewrite Q2; apply advs_adv_r; exact A1).
  assert (Ex0 : eof_ended (adv t3)) by (eapply advs_eof; eassumption).
  pose proof (advs_len _ _ A3) as Lx0.
  pose proof (ms_run_advs av sw ee pf c pf_advs _ _ _ _ _ _ _ _ _ _ _ RUN) as AR0.
  assert (Ex' : eof_ended x') by (eapply advs_eof; eassumption).
  pose proof (ms_run_fuel av sw ee pf c pf_advs name 3 _ _ _ _ _ _ _ _ _ _ RUN Ex0 ltac:(lia)) as Bf'.
  assert (NEx' : ttype (cur x') <> EOF) by (apply TwinParse.curis_eof_ne; apply (TwinParse.curis_excl IDENT EOF); [exact CI|discriminate]).
  pose proof (adv_strict x' Ex' NEx') as Lax'. pose proof (adv_len (adv x')) as Laax'.
  destruct f' as [|f'']; [lia|].
  remember (adv (adv x')) as xb eqn:Dxb.
  assert (Exb : eof_ended xb) by (rewrite Dxb; eapply advs_eof; [apply advs_adv_r, advs_adv_r, advs_refl|exact Ex']).
  rewrite (ms_run_entries av sw ee pf c _ _ _ _ _ _ _ _ _ _ _ RUN) in ME.
  rewrite (ms_entries_script_step av sw ee pf c name f'' x' p1 q1 j1 NR CI CC CL) in ME. fold sname in ME. rewrite <- Dxb in ME.
  destruct (parse_block av sw ee pf c f'' sname [] [] (cur (adv x')) xb [] imp0) as [[[b impb] yb]| | |] eqn:PB; try discriminate ME.
  rewrite ms_entries_acc in ME.
  destruct (ms_entries av sw ee pf c f'' name (adv yb) [] [] imp0) as [[[[p3 q3] j3] y3]| | |] eqn:ME3; try discriminate ME.
  injection ME as Hp Hq Hi Hy. subst y3.
  assert (A0 : advs xb z) by (eapply TwinIf.nest2_advs; eassumption).
  pose proof (advs_eof _ _ A0 Exb) as Ez. pose proof (advs_len _ _ A0) as Lz.
  assert (HS : Forall (fun n => len z < n)%nat bsz /\ Forall (fun n => len z < n)%nat csz).
  { eapply TwinIf.nest2_scopes; try eassumption; try exact (Forall_nil _). }
  destruct HS as [Hbz Hcz].
  remember (adv ts2) as rest eqn:Drest.
  pose proof (TwinIf.nest2_twin av sw ee pf c pf_advs pf_local pf_lt sname z body ra rest bsz csz sc sv ts1 ts2 F cases ss imp'
                Ez CP HH BF HC SEL AB RR AR RAK Drest HLC Hbz Hcz true [] [] xb NEST (Forall_nil _) (Forall_nil _)) as TW.
  unfold TwinIf.TWk in TW.
  destruct (TW f'' (cur (adv x')) b impb yb ltac:(lia) PB) as (TB & [O1 O2] & _ & Lyb2 & Lyb).
  cbn [map] in TB.
  remember (body ++ rest) as tw eqn:Dtw.
  set (G0 := TwinNested.G0 z body ra rest) in *.
  (* lengths *)
  assert (Az1 : advs z ts1) by (eapply poryswitch_header_advs; [exact HH|apply advs_refl]).
  pose proof (FuelOk.poryswitch_header_lt _ _ _ _ _ _ HH Ez) as L1.
  pose proof (TwinParse.srun_advs av sw ee pf c pf_advs _ _ _ _ _ _ _ RR) as ARR.
  assert (Ets1 : eof_ended ts1) by (eapply advs_eof; eassumption).
  assert (Ebody : eof_ended (body ++ ra)) by (eapply advs_eof; eassumption).
  pose proof (advs_eof _ _ ARR Ebody) as Era.
  pose proof (advs_eof _ _ AR Era) as E2.
  assert (RB : curis RBRACE ts2 = true).
  { assert (B1 : (5 * len ts1 <= F)%nat) by lia.
    destruct (TwinParse.cases_table_acc av sw ee pf c pf_advs pf_lt _ _ _ _ _ _ _ _ _ Ets1 B1 HC) as (l0 & _ & RB0 & _). exact RB0. }
  assert (Erest : eof_ended rest) by (rewrite Drest; eapply advs_eof; [apply advs_adv_r, advs_refl|exact E2]).
  assert (LR : (len rest < len ra)%nat).
  { assert (NE2 : ttype (cur ts2) <> EOF) by (apply TwinParse.curis_eof_ne; eapply TwinParse.curis_excl; [exact RB|discriminate]).
    pose proof (adv_strict ts2 E2 NE2) as S2. pose proof (advs_len _ _ AR) as S3. rewrite Drest. lia. }
  assert (Lb : (len body + len ra < len z)%nat).
  { pose proof (advs_len _ _ AB) as S1. rewrite app_length in S1. lia. }
  assert (Ltwl : len tw = (len body + len rest)%nat) by (rewrite Dtw; apply app_length).
  pose proof (adv_len yb) as Layb.
  assert (Eayb : eof_ended (adv yb)).
  { eapply advs_eof; [|exact Exb]. apply advs_adv_r. eapply parse_block_advs; [exact pf_advs|exact PB|apply advs_refl]. }
  (* ids *)
  assert (I0 : forall n, In n (ms_ids p1) \/ In n (tm_ids q1) \/ In n (TwinProgram.imp_ids j1) -> (len x' <= n <= len (adv t3))%nat).
  { eapply (ms_run_range av sw ee pf c pf_advs _ _ _ _ _ _ _ _ _ _ _ (len x') (len (adv t3)) RUN Ex0); [lia|lia|].
    intros n [[]|[[]|[]]]. }
  assert (I4 : forall n, In n (ms_ids p3) \/ In n (tm_ids q3) \/ In n (TwinProgram.imp_ids j3) -> (0 <= n <= len (adv yb))%nat).
  { eapply (ms_entries_range av sw ee pf c pf_advs _ _ _ _ _ _ _ _ _ _ 0%nat (len (adv yb)) ME3 Eayb); [lia|lia|].
    intros n [[]|[[]|[]]]. }
  assert (Lxb : (len xb < len x')%nat) by lia.
  set (T1 := ms_ids p1 ++ tm_ids q1 ++ TwinProgram.imp_ids j1).
  set (T2 := TwinProgram.ids b ++ TwinProgram.imp_ids impb).
  set (T3 := ms_ids p3 ++ tm_ids q3 ++ TwinProgram.imp_ids j3).
  assert (R1 : forall n, In n T1 -> (len z < n)%nat).
  { intros n Hn. unfold T1 in Hn. rewrite !in_app_iff in Hn. specialize (I0 n Hn). lia. }
  assert (R3 : forall n, In n T3 -> (n <= len rest)%nat).
  { intros n Hn. unfold T3 in Hn. rewrite !in_app_iff in Hn. specialize (I4 n Hn). lia. }
  assert (OK : forall n, In n (T1 ++ T2 ++ T3) -> TwinNested.okid z body ra rest n).
  { intros n Hn. rewrite !in_app_iff in Hn. destruct Hn as [Hn|[Hn|Hn]].
    - left. apply R1. exact Hn.
    - unfold T2 in Hn. rewrite in_app_iff in Hn. destruct Hn as [Hn|Hn]; [apply O1|apply O2]; exact Hn.
    - right. right. apply R3. exact Hn. }
  assert (INJ : TagRename.inj_on G0 (T1 ++ T2 ++ T3)).
  { intros a b0 Ha Hb0 EQ.
    apply (TwinNested.G0_inj av sw ee pf c pf_advs pf_lt sname z body ra rest bsz csz sc sv ts1 ts2 F cases ss imp' Ez HH BF HC AB RR AR Drest);
      [apply OK; exact Ha|apply OK; exact Hb0|exact EQ]. }
  set (G := TagRename.extend G0 (T1 ++ T2 ++ T3)).
  assert (Ginj : forall a b0, G a = G b0 -> a = b0) by (apply TagRename.extend_inj; exact INJ).
  assert (AG : forall n, In n (T1 ++ T2 ++ T3) -> G n = G0 n) by (intros n Hn; apply TagRename.extend_agree; exact Hn).
  assert (AG1 : forall n, In n T1 -> sh z tw n = G n).
  { intros n Hn. rewrite AG by (rewrite !in_app_iff; auto). unfold G0. rewrite (TwinNested.G0_hi z body ra rest F BF n (R1 n Hn)).
    rewrite Dtw. reflexivity. }
  assert (AG2 : forall n, In n T2 -> G0 n = G n) by (intros n Hn; symmetry; apply AG; rewrite !in_app_iff; auto).
  assert (AG3 : forall n, In n T3 -> n = G n).
  { intros n Hn. rewrite AG by (rewrite !in_app_iff; auto). unfold G0.
    rewrite (TwinNested.G0_lo sw ee z body ra rest sc sv ts1 F Ez HH BF AB n); [reflexivity|]. specialize (R3 n Hn). lia. }
  (* the whole stream *)
  assert (ATz : advs xs z).
  { eapply advs_trans; [exact A3|]. eapply advs_trans; [exact AR0|]. eapply advs_trans; [|exact A0].
    rewrite Dxb. apply advs_adv_r, advs_adv_r, advs_refl. }
  destruct (advs_suffix _ _ ATz) as (U & ET).
  destruct (advs_suffix _ _ A0) as (pre & EX).
  assert (NEz : z <> []) by (destruct Ez; assumption).
  assert (CEz : curis EOF z = false) by (eapply TwinParse.curis_excl; [exact CP|discriminate]).
  assert (Etw : eof_ended tw) by (rewrite Dtw; apply ProgSrc.eof_ended_app; exact Erest).
  assert (TWNE : tw <> []) by (destruct Etw; assumption).
  assert (GZxb : Gw z 0 xb) by (exists pre; split; [exact EX|lia]).
  assert (Eax' : eof_ended (adv x')) by (eapply advs_eof; [apply advs_adv_r, advs_refl|exact Ex']).
  assert (Gax' : Gw z 1 (adv x')) by (apply TwinProgram.Gw_step_back; [exact Eax'|exact NEz|exact CEz|rewrite <- Dxb; exact GZxb]).
  assert (Gx' : Gw z 2 x') by (apply (G_adv_inv z NEz); [lia|exact Gax']).
  assert (Gat3 : Gw z 2 (adv t3)) by (eapply G_advs; [exact AR0|exact Gx']).
  assert (Gt3 : Gw z 3 t3) by (apply (G_adv_inv z NEz); [lia|exact Gat3]).
  assert (Gt2 : Gw z 4 t2) by (apply (G_adv_inv z NEz); [lia|rewrite <- Q3; exact Gt3]).
  assert (Gt1 : Gw z 5 t1) by (apply (G_adv_inv z NEz); [lia|rewrite <- Q2; exact Gt2]).
  assert (Gxs : Gw z 5 xs) by (eapply G_advs; [exact A1|exact Gt1]).
  assert (Gx'1 : Gw z 1 x') by (eapply G_le; [|exact Gx']; lia).
  assert (SWT : swap z tw xs = U ++ tw) by (rewrite ET; apply swap_app).
  exists U, G. split; [exact ET|]. split; [exact Gxs|]. split; [exact ATz|]. split; [exact Ez|]. split; [exact Etw|].
  split; [rewrite Ltwl; lia|]. split; [exact Ginj|].
  rewrite <- SWT.
  rewrite (parse_mapscripts_eq av sw ee pf c f _ g (swap z tw t1) (swap z tw t2) (swap z tw t3)).
  2:{ apply (scope_modifier_swap z tw NEz TWNE _ _ _ _ SM). eapply G_le; [|exact Gt1]; lia. }
  2:{ rewrite (swap_expect_peek z tw NEz TWNE IDENT t1) by (eapply G_le; [|exact Gt1]; lia). rewrite EP1. reflexivity. }
  2:{ rewrite (swap_expect_peek z tw NEz TWNE LBRACE t2) by (eapply G_le; [|exact Gt2]; lia). rewrite EP2. reflexivity. }
  rewrite (swap_cur z tw t2) by (eapply G_le; [|exact Gt2]; lia). fold name.
  rewrite (swap_adv z tw NEz TWNE t3) by (eapply G_le; [|exact Gt3]; lia).
  pose proof (ms_run_swap z tw NEz TWNE av sw ee pf c pf_advs pf_local _ _ _ _ _ _ _ _ _ _ _ RUN Gx'1) as RUN'.
  cbn [map] in RUN'. change (g_imp (sh z tw) imp0) with imp0 in RUN'.
  rewrite (ms_run_entries av sw ee pf c _ _ _ _ _ _ _ _ _ _ _ RUN').
  rewrite (ms_entries_script_step av sw ee pf c name f'' (swap z tw x')).
  2:{ rewrite swap_curis by exact Gx'1. exact NR. }
  2:{ rewrite swap_curis by exact Gx'1. exact CI. }
  2:{ rewrite (swap_adv z tw NEz TWNE x' Gx'1), swap_curis by exact Gax'. exact CC. }
  2:{ rewrite (swap_adv z tw NEz TWNE x' Gx'1), swap_curis by exact Gax'. exact CL. }
  rewrite (swap_cur z tw x' Gx'1). fold sname. rewrite (swap_adv z tw NEz TWNE x' Gx'1). rewrite (swap_cur z tw (adv x') Gax').
  rewrite (swap_adv z tw NEz TWNE (adv x') Gax'). rewrite <- Dxb. rewrite TB.
  rewrite ms_entries_acc, ME3.
  f_equal. cbn [g_top]. f_equal. f_equal; [f_equal|].
  - rewrite <- Hp. rewrite !map_app. cbn [map]. f_equal; [f_equal|].
    + apply g_ms_ext. intros n Hn. apply AG1. unfold T1. rewrite !in_app_iff. auto.
    + unfold g_ms. cbn [msType msName msScript g_ostmts]. f_equal. f_equal. f_equal.
      apply TwinProgram.g_stmts_ext. intros n Hn. apply AG2. unfold T2. rewrite !in_app_iff. auto.
    + rewrite <- (g_ms_id p3) at 1. apply g_ms_ext. intros n Hn. apply AG3. unfold T3. rewrite !in_app_iff. auto.
  - rewrite <- Hq. rewrite !map_app. f_equal.
    + apply g_tm_ext. intros n Hn. apply AG1. unfold T1. rewrite !in_app_iff. auto.
    + rewrite <- (g_tm_id q3) at 1. apply g_tm_ext. intros n Hn. apply AG3. unfold T3. rewrite !in_app_iff. auto.
  - rewrite <- Hi. rewrite !TwinParse.g_imp_add. f_equal; [f_equal|].
    + apply TwinProgram.g_imp_ext. intros n Hn. apply AG1. unfold T1. rewrite !in_app_iff. auto.
    + apply TwinProgram.g_imp_ext. intros n Hn. apply AG2. unfold T2. rewrite !in_app_iff. auto.
    + rewrite <- (TwinProgram.g_imp_id j3) at 1. apply TwinProgram.g_imp_ext. intros n Hn. apply AG3. unfold T3. rewrite !in_app_iff. auto.
Qed.
End NESTED.

Section NESTEDPROGRAM.
Variable av : list (text * autovar).
Variable sw : list (text * text).
Variable ee : bool.
Variable pf : toks -> res (token * text * text * toks).
Hypothesis pf_advs : format_advs pf.
Hypothesis pf_local : format_local pf.
Hypothesis pf_lt : format_lt pf.
Local Notation st0 := TwinProgram.st0.

(* the lift from a mapscripts statement to the program, for ANY twin of the statement up to one injective renaming *)
Lemma ms_program_lift T f st1 xs z tw prog1 :
  eof_ended T ->
  tops_run av sw ee pf (5 * len T + 4) st0 T (S f) st1 xs ->
  ttype (cur xs) = MAPSCRIPTS -> curis PORYSWITCH z = true ->
  (forall tp imp y, parse_mapscripts av sw ee pf (pconsts st1) f xs = Ok (tp, imp, y) ->
     exists U G, xs = U ++ z /\ Gw z 5 xs /\ advs xs z /\ eof_ended z /\ eof_ended tw /\ (len tw < len z)%nat /\
       (forall a b, G a = G b -> a = b) /\
       parse_mapscripts av sw ee pf (pconsts st1) f (U ++ tw) = Ok (g_top G tp, g_imp G imp, y)) ->
  parse_program av sw ee pf T = Ok prog1 ->
  exists U p2,
    T = U ++ z /\
    (len (U ++ tw) < len T)%nat /\
    parse_program av sw ee pf (U ++ tw) = Ok p2 /\
    TagRename.shape_program prog1 = TagRename.shape_program p2.
Proof.
  intros E RUN TY CP HYP HP. set (c := pconsts st1) in *.
  unfold parse_program in HP.
  destruct (parse_tops av sw ee pf (5 * len T + 4) {| pconsts := []; ph := hst0; ptops := []; ptexts := [] |} T) as [stf| | |] eqn:PT; try discriminate HP.
  destruct (dup_text [] (checked_texts ee stf)) as [xd|] eqn:DT; [unfold err_tok in HP; discriminate HP|].
  destruct (dup_mov [] (checked_tops ee stf)) as [tkd|] eqn:DM; [unfold err_tok in HP; discriminate HP|].
  injection HP as <-.
  fold st0 in PT. rewrite (tops_run_parse_tops _ _ _ _ _ _ _ _ _ _ RUN) in PT.
  destruct (tops_run_eof av sw ee pf pf_advs _ _ _ _ _ _ RUN E (Nat.le_refl _)) as [Exs Bf1].
  rewrite parse_tops_step in PT.
  assert (NE : curis EOF xs = false) by (apply (TwinParse.curis_excl MAPSCRIPTS EOF); [apply TwinProgram.curis_of_type; exact TY|discriminate]).
  rewrite NE in PT. rewrite (top_step_mapscripts _ _ _ _ _ _ _ _ TY) in PT. fold c in PT.
  destruct (parse_mapscripts av sw ee pf c f xs) as [[[tp imp] y]| | |] eqn:PM; try discriminate PT.
  destruct (add_implicit imp (ph st1)) as [h' ps] eqn:AI. cbv beta iota in PT.
  destruct (HYP tp imp y eq_refl) as (U0 & G & EX0 & Gxs & ATz0 & Ez & Etw & LTW & Ginj & PMT).
  pose proof (tops_run_advs av sw ee pf pf_advs _ _ _ _ _ _ RUN) as AT.
  assert (ATz : advs T z) by (eapply advs_trans; [exact AT|exact ATz0]).
  destruct (advs_suffix _ _ ATz) as (U & ET).
  assert (NEz : z <> []) by (destruct Ez; assumption).
  assert (CEz : curis EOF z = false) by (eapply TwinParse.curis_excl; [exact CP|discriminate]).
  assert (TWNE : tw <> []) by (destruct Etw; assumption).
  assert (CK : class_ok z tw) by (unfold class_ok; rewrite (TagRename.BlockStep.curis_type _ _ CP); discriminate).
  assert (Gxs0 : Gw z 0 xs) by (eapply G_le; [|exact Gxs]; lia).
  assert (Gxs1 : Gw z 1 xs) by (eapply G_le; [|exact Gxs]; lia).
  destruct (tops_run_context av sw ee pf pf_advs pf_local z tw Ez TWNE CK _ _ _ _ _ _ RUN Gxs0 st0 eq_refl eq_refl)
    as (d & d' & e & P1 & P2 & SH & RUN').
  cbn [ptops ptexts TwinProgram.st0 app] in P1, P2, RUN'.
  assert (SWT : swap z tw T = U ++ tw) by (rewrite ET; apply swap_app).
  rewrite SWT in RUN'.
  remember {| pconsts := pconsts st1; ph := ph st1; ptops := d'; ptexts := e |} as st1' eqn:Dst1'.
  remember (st_add st1' c h' [g_top G (patch_top ps tp)] []) as st2' eqn:Dst2'.
  assert (STEP : parse_tops av sw ee pf (S f) st1' (swap z tw xs) = parse_tops av sw ee pf f st2' (adv y)).
  { rewrite parse_tops_step. rewrite (swap_curis z tw EOF xs Gxs1). rewrite NE.
    rewrite top_step_mapscripts by (rewrite (swap_cur z tw xs Gxs1); exact TY).
    rewrite EX0, swap_app. rewrite Dst1'. cbn [pconsts ph]. fold c. rewrite PMT. rewrite add_implicit_g, AI. cbn [fst snd].
    rewrite (patch_top_g G Ginj). rewrite Dst2', Dst1'. reflexivity. }
  assert (Ec2 : pconsts st2' = pconsts (st_add st1 c h' [patch_top ps tp] [])) by (rewrite Dst2', Dst1'; reflexivity).
  assert (Eh2 : ph st2' = ph (st_add st1 c h' [patch_top ps tp] [])) by (rewrite Dst2', Dst1'; reflexivity).
  destruct (TwinProgram.parse_tops_lists av sw ee pf f _ st2' _ _ Ec2 Eh2 PT) as (d2 & e2 & Q1 & Q2' & PT').
  cbn [st_add ptops ptexts] in Q1, Q2'. rewrite P1 in Q1. rewrite P2, app_nil_r in Q2'.
  assert (TX2 : ptexts st2' = e) by (rewrite Dst2', Dst1'; cbn [st_add ptexts]; apply app_nil_r).
  assert (TP2 : ptops st2' = d' ++ [g_top G (patch_top ps tp)]) by (rewrite Dst2', Dst1'; reflexivity).
  rewrite TX2, TP2 in PT'.
  remember {| pconsts := pconsts stf; ph := ph stf; ptops := (d' ++ [g_top G (patch_top ps tp)]) ++ d2; ptexts := e ++ e2 |} as stf' eqn:Dstf'.
  assert (SHP : map TagRename.shape_top (ptops stf') = map TagRename.shape_top (ptops stf)).
  { rewrite Dstf', Q1. cbn [ptops]. rewrite !map_app. rewrite (TwinProgram.shifted_shape _ _ _ _ SH). cbn [map].
    rewrite TwinProgram.shape_g_top. reflexivity. }
  assert (LT : (len (U ++ tw) < len T)%nat) by (rewrite ET, !app_length; lia).
  assert (ETw : eof_ended (U ++ tw)) by (apply ProgSrc.eof_ended_app; exact Etw).
  assert (PP : parse_tops av sw ee pf (5 * len (U ++ tw) + 4) st0 (U ++ tw) = Ok stf').
  { rewrite (TwinProgram.parse_tops_fuel av sw ee pf pf_advs pf_lt st0 (U ++ tw) _ (5 * len T + 4) ETw) by lia.
    rewrite (tops_run_parse_tops _ _ _ _ _ _ _ _ _ _ RUN'). rewrite STEP. exact PT'. }
  exists U.
  exists {| tops := ptops stf' ++ hmovs (ph stf'); texts := htexts (ph stf') ++ ptexts stf' |}.
  split; [exact ET|]. split; [exact LT|].
  assert (PHE : ph stf' = ph stf) by (rewrite Dstf'; reflexivity).
  assert (TXE : ptexts stf' = ptexts stf) by (rewrite Dstf', Q2'; reflexivity).
  split.
  - unfold parse_program. fold st0. rewrite PP.
    assert (CT : checked_texts ee stf' = checked_texts ee stf) by (unfold checked_texts; rewrite PHE, TXE; reflexivity).
    rewrite CT, DT.
    assert (CM : dup_mov [] (checked_tops ee stf') = dup_mov [] (checked_tops ee stf)).
    { apply TwinProgram.dup_mov_shape. unfold checked_tops. rewrite PHE. destruct ee; [rewrite !map_app, SHP; reflexivity|exact SHP]. }
    rewrite CM, DM. reflexivity.
  - unfold TagRename.shape_program. cbn [tops texts]. rewrite PHE, TXE. f_equal. rewrite !map_app, SHP. reflexivity.
Qed.

(* C12 at ANY DEPTH of the control constructs inside the inline map script *)
Theorem twin_ms_nested_program_at T f st1 xs g t1 t2 t3 f' x' p1 q1 j1 z bsz csz sc sv ts1 F cases ts2 ss imp' body ra prog1 :
  let c := pconsts st1 in let name := tlit (cur t2) in let sname := name ++ t "_" ++ tlit (cur x') in
  eof_ended T ->
  tops_run av sw ee pf (5 * len T + 4) st0 T (S f) st1 xs ->
  ttype (cur xs) = MAPSCRIPTS ->
  scope_modifier true xs = Ok (g, t1) -> expect_peek IDENT t1 = Some t2 -> expect_peek LBRACE t2 = Some t3 ->
  ms_run av sw ee pf c name f (adv t3) [] [] imp0 f' x' p1 q1 j1 ->
  curis RBRACE x' = false -> curis IDENT x' = true -> curis COLON (adv x') = false -> curis LBRACE (adv x') = true ->
  TwinIf.nest2 av sw ee pf c sname z bsz csz true [] [] (adv (adv x')) ->
  curis PORYSWITCH z = true -> poryswitch_header sw ee z = Ok (sc, sv, ts1) -> (5 * len z <= F)%nat ->
  parse_pory_cases av sw ee pf c F sname bsz csz (cur ts1) ts1 [] = Ok (cases, ts2) ->
  PorySwitchLists.pory_select cases sv = Some (ss, imp') ->
  advs ts1 (body ++ ra) -> TwinParse.srun av sw ee pf c sname bsz csz (body ++ ra) ss imp' ra -> advs ra ts2 ->
  (curis RBRACE ra = true \/ curis IDENT ra = true \/ curis INT ra = true) ->
  (csz = [] \/ TwinParse.LC ra (adv ts2)) ->
  parse_program av sw ee pf T = Ok prog1 ->
  exists U p2,
    T = U ++ z /\
    (len (U ++ body ++ adv ts2) < len T)%nat /\
    parse_program av sw ee pf (U ++ body ++ adv ts2) = Ok p2 /\
    TagRename.shape_program prog1 = TagRename.shape_program p2.
Proof.
  intros c name sname E RUN TY SM EP1 EP2 MRUN NR CI CC CL NEST CP HH BF HC SEL AB RR AR RAK HLC HP.
  destruct (tops_run_eof av sw ee pf pf_advs _ _ _ _ _ _ RUN E (Nat.le_refl _)) as [Exs Bf1].
  apply (ms_program_lift T f st1 xs z (body ++ adv ts2) prog1 E RUN TY CP); [|exact HP].
  intros tp imp y PM.
  exact (twin_mapscripts_nested av sw ee pf pf_advs pf_local pf_lt c f xs g t1 t2 t3 f' x' p1 q1 j1 z bsz csz sc sv ts1 F cases ts2 ss imp' body ra
           tp imp y Exs ltac:(lia) SM EP1 EP2 MRUN NR CI CC CL NEST CP HH BF HC SEL AB RR AR RAK HLC PM).
Qed.
End NESTEDPROGRAM.

Theorem twin_ms_nested_compile_at hl hd hs av sw ee fc font ml optimize mpath src
        f st1 xs g t1 t2 t3 f' x' p1 q1 j1 z bsz csz sc sv ts1 F cases ts2 ss imp' body ra prog1 :
  let pf := Format.parse_format fc font ml ee in
  let T := lex hl hd hs src in
  let c := pconsts st1 in let name := tlit (cur t2) in let sname := name ++ t "_" ++ tlit (cur x') in
  tops_run av sw ee pf (5 * len T + 4) TwinProgram.st0 T (S f) st1 xs ->
  ttype (cur xs) = MAPSCRIPTS ->
  scope_modifier true xs = Ok (g, t1) -> expect_peek IDENT t1 = Some t2 -> expect_peek LBRACE t2 = Some t3 ->
  ms_run av sw ee pf c name f (adv t3) [] [] imp0 f' x' p1 q1 j1 ->
  curis RBRACE x' = false -> curis IDENT x' = true -> curis COLON (adv x') = false -> curis LBRACE (adv x') = true ->
  TwinIf.nest2 av sw ee pf c sname z bsz csz true [] [] (adv (adv x')) ->
  curis PORYSWITCH z = true -> poryswitch_header sw ee z = Ok (sc, sv, ts1) -> (5 * len z <= F)%nat ->
  parse_pory_cases av sw ee pf c F sname bsz csz (cur ts1) ts1 [] = Ok (cases, ts2) ->
  PorySwitchLists.pory_select cases sv = Some (ss, imp') ->
  advs ts1 (body ++ ra) -> TwinParse.srun av sw ee pf c sname bsz csz (body ++ ra) ss imp' ra -> advs ra ts2 ->
  (curis RBRACE ra = true \/ curis IDENT ra = true \/ curis INT ra = true) ->
  (csz = [] \/ TwinParse.LC ra (adv ts2)) ->
  parse_program av sw ee pf T = Ok prog1 ->
  forall U src', T = U ++ z -> lex hl hd hs src' = U ++ body ++ adv ts2 ->
    Compile.compile hl hd hs av sw ee fc font ml optimize mpath src =
    Compile.compile hl hd hs av sw ee fc font ml optimize mpath src'.
Proof.
  intros pf T c name sname RUN TY SM EP1 EP2 MRUN NR CI CC CL NEST CP HH BF HC SEL AB RR AR RAK HLC HP U src' ET Hl.
  destruct (twin_ms_nested_program_at av sw ee pf (real_format_advs fc font ml ee) (real_format_local fc font ml ee) (real_format_lt fc font ml ee)
              T f st1 xs g t1 t2 t3 f' x' p1 q1 j1 z bsz csz sc sv ts1 F cases ts2 ss imp' body ra prog1
              (ProgSrc.lex_eof hl hd hs src) RUN TY SM EP1 EP2 MRUN NR CI CC CL NEST CP HH BF HC SEL AB RR AR RAK HLC HP)
    as (U0 & p2 & ET0 & LT & HP2 & SHP).
  assert (EU : U0 = U) by (rewrite ET in ET0; apply app_inv_tail in ET0; symmetry; exact ET0).
  subst U0. rewrite <- Hl in HP2.
  exact (TagRename.compile_same_shape hl hd hs av av sw sw ee ee fc fc font font ml ml optimize mpath src src' prog1 p2 HP HP2 SHP).
Qed.
