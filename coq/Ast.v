(* Prototype AST shared by the parser and emitter models. *)
From Coq Require Import List String Ascii ZArith NArith Lia Bool.
From Pory Require Import Lexer.
Import ListNotations.
Open Scope list_scope.

Record cmd := { cname : text; cargs : list text; ctok : token; cid : nat }.

Inductive cmpop := OEq | ONe | OLt | OLe | OGt | OGe.
Inductive lkind := KFlag | KVar | KDefeated.
Record leaf := { lk : lkind; loperand : text; lline : Z; lop : cmpop; lvalue : text; lstrict : bool; lpre : option cmd }.
Inductive bop := BAnd | BOr.
Inductive bexp := BLeaf (l : leaf) | BBin (o : bop) (a b : bexp).

Inductive stmt :=
| SCmd (c : cmd)
| SLabel (name : text) (glob : bool) (tk : token)
| SIf (conds : list (bexp * list stmt)) (els : option (list stmt))
| SWhile (tag : nat) (c : option bexp) (body : list stmt)
| SDoWhile (tag : nat) (body : list stmt) (c : bexp)
| SBreak (tag : nat)
| SContinue (tag : nat)
| SSwitch (tag : nat) (operand : text) (oline : Z) (cases : list (bool * text * Z * list stmt)).

Record textdef := { xname : text; xvalue : text; xtype : text; xglob : bool; xtok : token }.

Record mapscript := { msType : token; msName : text; msScript : option (list stmt) }.
Record tableentry := { teCond : token; teCondLit : text; teCmp : text; teName : text; teScript : option (list stmt) }.
Record tablems := { tmType : token; tmName : text; tmEntries : list tableentry }.

Inductive top :=
| TScript (name : text) (glob : bool) (body : list stmt)
| TRaw (value : text) (line : Z)
| TTextStmt                                  (* rendered with the texts; placeholder keeps positions *)
| TMovement (name : text) (glob : bool) (tk : token) (steps : list token)
| TMart (name : text) (glob : bool) (tk : token) (items : list text) (itoks : list token)
| TMapScripts (name : text) (glob : bool) (plain : list mapscript) (tables : list tablems).

Record program := { tops : list top; texts : list textdef }.
