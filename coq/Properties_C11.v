(* C11 - An AutoVar condition runs its command once, in order, then compares its var. *)
From Coq Require Import List ZArith Bool.
From Pory Require Import Lexer Ast Emitter Sem2 SpecLemmas.
Import ListNotations.

Theorem autovar_leaf_runs_command_then_compares :
  forall (St : Type) (exec : cmd -> St -> stepres St) (flag_set trainer_beaten : text -> St -> bool)
         (cmp_var cmp_var_value : text -> text -> St -> comparison) (l : leaf) (p : cmd) (s s' : St),
    lpre l = Some p -> exec p s = Continue St s' ->
    eval_leaf St exec flag_set trainer_beaten cmp_var cmp_var_value l s =
      ([p], s', Some (leaf_holds St flag_set trainer_beaten cmp_var cmp_var_value l s')).
Proof. exact eval_leaf_autovar. Qed.
Print Assumptions autovar_leaf_runs_command_then_compares.

(* not at all when an earlier operand already decided the expression *)
Theorem and_short_circuit :
  forall (St : Type) (exec : cmd -> St -> stepres St) (flag_set trainer_beaten : text -> St -> bool)
         (cmp_var cmp_var_value : text -> text -> St -> comparison) (a b : bexp) (s : St) ev s1 va,
    eval_bexp St exec flag_set trainer_beaten cmp_var cmp_var_value a s = (ev, s1, Some va) ->
    eval_bexp St exec flag_set trainer_beaten cmp_var cmp_var_value (BBin BAnd a b) s =
      if va then let '(ev2, s2, r) := eval_bexp St exec flag_set trainer_beaten cmp_var cmp_var_value b s1 in (ev ++ ev2, s2, r)
      else (ev, s1, Some false).
Proof. exact eval_and. Qed.
Print Assumptions and_short_circuit.

Theorem or_short_circuit :
  forall (St : Type) (exec : cmd -> St -> stepres St) (flag_set trainer_beaten : text -> St -> bool)
         (cmp_var cmp_var_value : text -> text -> St -> comparison) (a b : bexp) (s : St) ev s1 va,
    eval_bexp St exec flag_set trainer_beaten cmp_var cmp_var_value a s = (ev, s1, Some va) ->
    eval_bexp St exec flag_set trainer_beaten cmp_var cmp_var_value (BBin BOr a b) s =
      if va then (ev, s1, Some true)
      else let '(ev2, s2, r) := eval_bexp St exec flag_set trainer_beaten cmp_var cmp_var_value b s1 in (ev ++ ev2, s2, r).
Proof. exact eval_or. Qed.
Print Assumptions or_short_circuit.
