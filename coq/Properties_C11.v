(* C11 - An AutoVar condition runs its command once, in order, then compares its var. *)
From Coq Require Import List ZArith Bool.
From Pory Require Import Lexer Ast Emitter Sem2 SpecLemmas.
Import ListNotations.

Theorem autovar_leaf_runs_command_then_compares :
  forall (St : Type) (exec : cmd -> St -> stepres St) (flag_set trainer_beaten : text -> St -> bool)
         (cmp_var cmp_var_value : text -> text -> St -> comparison) (l : leaf) (p : cmd) (s s' : St),
    lpre l = Some p -> exec p s = Continue St s' ->
    eval_leaf St exec flag_set trainer_beaten cmp_var cmp_var_value l s =
      ([p], s', Some (leaf_holds St flag_set trainer_beaten cmp_var cmp_var_value l s')).
Proof. exact eval_leaf_autovar. Qed.
Print Assumptions autovar_leaf_runs_command_then_compares.

(* not at all when an earlier operand already decided the expression *)
Theorem and_short_circuit :
  forall (St : Type) (exec : cmd -> St -> stepres St) (flag_set trainer_beaten : text -> St -> bool)
         (cmp_var cmp_var_value : text -> text -> St -> comparison) (a b : bexp) (s : St) ev s1 va,
    eval_bexp St exec flag_set trainer_beaten cmp_var cmp_var_value a s = (ev, s1, Some va) ->
    eval_bexp St exec flag_set trainer_beaten cmp_var cmp_var_value (BBin BAnd a b) s =
      if va then let '(ev2, s2, r) := eval_bexp St exec flag_set trainer_beaten cmp_var cmp_var_value b s1 in (ev ++ ev2, s2, r)
      else (ev, s1, Some false).
Proof. exact eval_and. Qed.
Print Assumptions and_short_circuit.

Theorem or_short_circuit :
  forall (St : Type) (exec : cmd -> St -> stepres St) (flag_set trainer_beaten : text -> St -> bool)
         (cmp_var cmp_var_value : text -> text -> St -> comparison) (a b : bexp) (s : St) ev s1 va,
    eval_bexp St exec flag_set trainer_beaten cmp_var cmp_var_value a s = (ev, s1, Some va) ->
    eval_bexp St exec flag_set trainer_beaten cmp_var cmp_var_value (BBin BOr a b) s =
      if va then (ev, s1, Some true)
      else let '(ev2, s2, r) := eval_bexp St exec flag_set trainer_beaten cmp_var cmp_var_value b s1 in (ev ++ ev2, s2, r).
Proof. exact eval_or. Qed.
Print Assumptions or_short_circuit.

(* ---------- the parser side (AutoVarParse.v) ---------- *)
(* `compared_var av c`: the variable the command configuration names for command c (a fixed name, or the argument at the
   configured position; out of range: none).  When the first token of a condition leaf (after an optional `!`) is an identifier
   that the configuration lists, the leaf's preamble is exactly the command `command_stmt` parses from the same tokens - the
   same command the statement parser returns (autovar_leaf_preamble_is_the_statement), hence the same rendering - the compared
   variable is `compared_var`, operator and value are read by the function used for var(...) leaves with the documented
   defaults (!= 0, negated == 0); an identifier that is not configured is rejected; same for switch (cmd(...)).  For every leaf
   of every accepted condition (any position, any nesting): every_preamble_in_a_condition. *)
From Pory Require Import Parser Format Consume CmdArgs BexpParse AutoVarParse.
Theorem compared_var_spec :
  forall (av : autovar) (c : cmd) (v : text),
  compared_var av c = Some v <->
  avPos av = None /\ v = avName av \/ (exists k : nat, avPos av = Some (Z.of_nat k) /\ nth_error (cargs c) k = Some v).
Proof. exact AutoVarParse.compared_var_spec. Qed.
Print Assumptions compared_var_spec.

Theorem compared_var_none :
  forall (av : autovar) (c : cmd),
  compared_var av c = None <-> (exists p : Z, avPos av = Some p /\ ((p < 0)%Z \/ (Z.of_nat (length (cargs c)) <= p)%Z)).
Proof. exact AutoVarParse.compared_var_none. Qed.
Print Assumptions compared_var_none.

Theorem autovar_leaf_equation :
  forall (autovars : list (text * autovar)) (switches : list (text * text)) (env_errors : bool)
    (parse_format : toks -> res (token * text * text * toks)) (consts : list (text * text)) (f : nat) (script : text) 
    (ts0 : toks) (av : autovar),
  let ts := leaf_start ts0 in
  peekis IDENT ts = true ->
  assoc autovars (tlit (pk 1 ts)) = Some av ->
  leaf_expr autovars switches env_errors parse_format consts f script ts0 =
  (do (c, imp, ts2) <- command_stmt switches env_errors parse_format consts f script (adv ts);
   match compared_var av c with
   | Some v =>
       if peekis NOT ts0
       then
        Ok
          (autovar_leaf c v OEq (t (String.String (Ascii.Ascii false false false false true true false false) String.EmptyString)) false, imp,
           adv ts2)
       else do (o, val, strict, ts5) <- cond_var_operator consts f (adv ts2); Ok (autovar_leaf c v o val strict, imp, ts5)
   | None =>
       err_range (cur (adv ts)) (cur ts2)
         (String.String (Ascii.Ascii true false false false false true true false)
            (String.String (Ascii.Ascii true false true false true true true false)
               (String.String (Ascii.Ascii false false true false true true true false)
                  (String.String (Ascii.Ascii true true true true false true true false)
                     (String.String (Ascii.Ascii true false true true false true false false)
                        (String.String (Ascii.Ascii false true true false true true true false)
                           (String.String (Ascii.Ascii true false false false false true true false)
                              (String.String (Ascii.Ascii false true false false true true true false)
                                 (String.String (Ascii.Ascii false false false false false true false false)
                                    (String.String (Ascii.Ascii true true false false false true true false)
                                       (String.String (Ascii.Ascii true true true true false true true false)
                                          (String.String (Ascii.Ascii true false true true false true true false)
                                             (String.String (Ascii.Ascii true false true true false true true false)
                                                (String.String (Ascii.Ascii true false false false false true true false)
                                                   (String.String (Ascii.Ascii false true true true false true true false)
                                                      (String.String (Ascii.Ascii false false true false false true true false)
                                                         (String.String (Ascii.Ascii false false false false false true false false)
                                                            (String.String (Ascii.Ascii false false false true false true true false)
                                                               (String.String (Ascii.Ascii true false false false false true true false)
                                                                  (String.String (Ascii.Ascii true true false false true true true false)
                                                                     (String.String (Ascii.Ascii false false false false false true false false)
                                                                        (String.String
                                                                           (Ascii.Ascii true false false false false true true false)
                                                                           (String.String
                                                                              (Ascii.Ascii false true true true false true true false)
                                                                              (String.String
                                                                                 (Ascii.Ascii false false false false false true false false)
                                                                                 (String.String
                                                                                    (Ascii.Ascii true false false false false true true false)
                                                                                    (String.String
                                                                                       (Ascii.Ascii false true false false true true true false)
                                                                                       (String.String
                                                                                          (Ascii.Ascii true true true false false true true
                                                                                             false)
                                                                                          (String.String
                                                                                             (Ascii.Ascii false false false false false true
                                                                                                false false)
                                                                                             (String.String
                                                                                                (Ascii.Ascii false false false false true true
                                                                                                   true false)
                                                                                                (String.String
                                                                                                   (Ascii.Ascii true true true true false true
                                                                                                      true false)
                                                                                                   (String.String
                                                                                                      (Ascii.Ascii true true false false true
                                                                                                         true true false)
                                                                                                      (String.String
                                                                                                         (Ascii.Ascii true false false true
                                                                                                            false true true false)
                                                                                                         (String.String
                                                                                                            (Ascii.Ascii false false true false
                                                                                                               true true true false)
                                                                                                            (String.String
                                                                                                               (Ascii.Ascii true false false
                                                                                                                  true false true true false)
                                                                                                               (String.String
                                                                                                                  (Ascii.Ascii true true true
                                                                                                                   true false true true false)
                                                                                                                  (String.String
                                                                                                                   (Ascii.Ascii false true true
                                                                                                                   true false true true false)
                                                                                                                   (String.String
                                                                                                                   (Ascii.Ascii false false
                                                                                                                   false false false true false
                                                                                                                   false)
                                                                                                                   (String.String
                                                                                                                   (Ascii.Ascii true true true
                                                                                                                   true false true true false)
                                                                                                                   (String.String
                                                                                                                   (Ascii.Ascii true false true
                                                                                                                   false true true true false)
                                                                                                                   (String.String
                                                                                                                   (Ascii.Ascii false false true
                                                                                                                   false true true true false)
                                                                                                                   (String.String
                                                                                                                   (Ascii.Ascii false false
                                                                                                                   false false false true false
                                                                                                                   false)
                                                                                                                   (String.String
                                                                                                                   (Ascii.Ascii true true true
                                                                                                                   true false true true false)
                                                                                                                   (String.String
                                                                                                                   (Ascii.Ascii false true true
                                                                                                                   false false true true false)
                                                                                                                   (String.String
                                                                                                                   (Ascii.Ascii false false
                                                                                                                   false false false true false
                                                                                                                   false)
                                                                                                                   (String.String
                                                                                                                   (Ascii.Ascii false true false
                                                                                                                   false true true true false)
                                                                                                                   (String.String
                                                                                                                   (Ascii.Ascii true false false
                                                                                                                   false false true true false)
                                                                                                                   (String.String
                                                                                                                   (Ascii.Ascii false true true
                                                                                                                   true false true true false)
                                                                                                                   (String.String
                                                                                                                   (Ascii.Ascii true true true
                                                                                                                   false false true true false)
                                                                                                                   (String.String
                                                                                                                   (Ascii.Ascii true false true
                                                                                                                   false false true true false)
                                                                                                                   String.EmptyString)))))))))))))))))))))))))))))))))))))))))))))))))
   end).
Proof. exact AutoVarParse.autovar_leaf_equation. Qed.
Print Assumptions autovar_leaf_equation.

Theorem unconfigured_command_leaf_rejected :
  forall (autovars : list (text * autovar)) (switches : list (text * text)) (env_errors : bool)
    (parse_format : toks -> res (token * text * text * toks)) (consts : list (text * text)) (f : nat) (script : text) 
    (ts0 : toks),
  let ts := leaf_start ts0 in
  peekis IDENT ts = true ->
  assoc autovars (tlit (pk 1 ts)) = None ->
  leaf_expr autovars switches env_errors parse_format consts f script ts0 =
  err_tok (pk 1 ts)
    (String.String (Ascii.Ascii false false true true false true true false)
       (String.String (Ascii.Ascii true false true false false true true false)
          (String.String (Ascii.Ascii false true true false false true true false)
             (String.String (Ascii.Ascii false false true false true true true false)
                (String.String (Ascii.Ascii false false false false false true false false)
                   (String.String (Ascii.Ascii true true false false true true true false)
                      (String.String (Ascii.Ascii true false false true false true true false)
                         (String.String (Ascii.Ascii false false true false false true true false)
                            (String.String (Ascii.Ascii true false true false false true true false)
                               (String.String (Ascii.Ascii false false false false false true false false)
                                  (String.String (Ascii.Ascii true true true true false true true false)
                                     (String.String (Ascii.Ascii false true true false false true true false)
                                        (String.String (Ascii.Ascii false false false false false true false false)
                                           (String.String (Ascii.Ascii false true false false false true true false)
                                              (String.String (Ascii.Ascii true false false true false true true false)
                                                 (String.String (Ascii.Ascii false true true true false true true false)
                                                    (String.String (Ascii.Ascii true false false false false true true false)
                                                       (String.String (Ascii.Ascii false true false false true true true false)
                                                          (String.String (Ascii.Ascii true false false true true true true false)
                                                             (String.String (Ascii.Ascii false false false false false true false false)
                                                                (String.String (Ascii.Ascii true false true false false true true false)
                                                                   (String.String (Ascii.Ascii false false false true true true true false)
                                                                      (String.String (Ascii.Ascii false false false false true true true false)
                                                                         (String.String
                                                                            (Ascii.Ascii false true false false true true true false)
                                                                            (String.String
                                                                               (Ascii.Ascii true false true false false true true false)
                                                                               (String.String
                                                                                  (Ascii.Ascii true true false false true true true false)
                                                                                  (String.String
                                                                                     (Ascii.Ascii true true false false true true true false)
                                                                                     (String.String
                                                                                        (Ascii.Ascii true false false true false true true false)
                                                                                        (String.String
                                                                                           (Ascii.Ascii true true true true false true true
                                                                                              false)
                                                                                           (String.String
                                                                                              (Ascii.Ascii false true true true false true true
                                                                                                 false)
                                                                                              (String.String
                                                                                                 (Ascii.Ascii false false false false false true
                                                                                                    false false)
                                                                                                 (String.String
                                                                                                    (Ascii.Ascii true false true true false true
                                                                                                       true false)
                                                                                                    (String.String
                                                                                                       (Ascii.Ascii true false true false true
                                                                                                          true true false)
                                                                                                       (String.String
                                                                                                          (Ascii.Ascii true true false false
                                                                                                             true true true false)
                                                                                                          (String.String
                                                                                                             (Ascii.Ascii false false true false
                                                                                                                true true true false)
                                                                                                             (String.String
                                                                                                                (Ascii.Ascii false false false
                                                                                                                   false false true false false)
                                                                                                                (String.String
                                                                                                                   (Ascii.Ascii false true false
                                                                                                                   false false true true false)
                                                                                                                   (String.String
                                                                                                                   (Ascii.Ascii true false true
                                                                                                                   false false true true false)
                                                                                                                   (String.String
                                                                                                                   (Ascii.Ascii false false
                                                                                                                   false false false true false
                                                                                                                   false)
                                                                                                                   (String.String
                                                                                                                   (Ascii.Ascii false true true
                                                                                                                   false true true true false)
                                                                                                                   (String.String
                                                                                                                   (Ascii.Ascii true false false
                                                                                                                   false false true true false)
                                                                                                                   (String.String
                                                                                                                   (Ascii.Ascii false true false
                                                                                                                   false true true true false)
                                                                                                                   (String.String
                                                                                                                   (Ascii.Ascii false false
                                                                                                                   false true false true false
                                                                                                                   false)
                                                                                                                   (String.String
                                                                                                                   (Ascii.Ascii true false false
                                                                                                                   true false true false false)
                                                                                                                   (String.String
                                                                                                                   (Ascii.Ascii false false true
                                                                                                                   true false true false false)
                                                                                                                   (String.String
                                                                                                                   (Ascii.Ascii false false
                                                                                                                   false false false true false
                                                                                                                   false)
                                                                                                                   (String.String
                                                                                                                   (Ascii.Ascii false true true
                                                                                                                   false false true true false)
                                                                                                                   (String.String
                                                                                                                   (Ascii.Ascii false false true
                                                                                                                   true false true true false)
                                                                                                                   (String.String
                                                                                                                   (Ascii.Ascii true false false
                                                                                                                   false false true true false)
                                                                                                                   (String.String
                                                                                                                   (Ascii.Ascii true true true
                                                                                                                   false false true true false)
                                                                                                                   (String.String
                                                                                                                   (Ascii.Ascii false false
                                                                                                                   false true false true false
                                                                                                                   false)
                                                                                                                   (String.String
                                                                                                                   (Ascii.Ascii true false false
                                                                                                                   true false true false false)
                                                                                                                   (String.String
                                                                                                                   (Ascii.Ascii false false true
                                                                                                                   true false true false false)
                                                                                                                   (String.String
                                                                                                                   (Ascii.Ascii false false
                                                                                                                   false false false true false
                                                                                                                   false)
                                                                                                                   (String.String
                                                                                                                   (Ascii.Ascii false false true
                                                                                                                   false false true true false)
                                                                                                                   (String.String
                                                                                                                   (Ascii.Ascii true false true
                                                                                                                   false false true true false)
                                                                                                                   (String.String
                                                                                                                   (Ascii.Ascii false true true
                                                                                                                   false false true true false)
                                                                                                                   (String.String
                                                                                                                   (Ascii.Ascii true false true
                                                                                                                   false false true true false)
                                                                                                                   (String.String
                                                                                                                   (Ascii.Ascii true false false
                                                                                                                   false false true true false)
                                                                                                                   (String.String
                                                                                                                   (Ascii.Ascii false false true
                                                                                                                   false true true true false)
                                                                                                                   (String.String
                                                                                                                   (Ascii.Ascii true false true
                                                                                                                   false false true true false)
                                                                                                                   (String.String
                                                                                                                   (Ascii.Ascii false false true
                                                                                                                   false false true true false)
                                                                                                                   (String.String
                                                                                                                   (Ascii.Ascii false false
                                                                                                                   false true false true false
                                                                                                                   false)
                                                                                                                   (String.String
                                                                                                                   (Ascii.Ascii true false false
                                                                                                                   true false true false false)
                                                                                                                   (String.String
                                                                                                                   (Ascii.Ascii false false true
                                                                                                                   true false true false false)
                                                                                                                   (String.String
                                                                                                                   (Ascii.Ascii false false
                                                                                                                   false false false true false
                                                                                                                   false)
                                                                                                                   (String.String
                                                                                                                   (Ascii.Ascii true true true
                                                                                                                   true false true true false)
                                                                                                                   (String.String
                                                                                                                   (Ascii.Ascii false true false
                                                                                                                   false true true true false)
                                                                                                                   (String.String
                                                                                                                   (Ascii.Ascii false false
                                                                                                                   false false false true false
                                                                                                                   false)
                                                                                                                   (String.String
                                                                                                                   (Ascii.Ascii true false false
                                                                                                                   false false true true false)
                                                                                                                   (String.String
                                                                                                                   (Ascii.Ascii true false true
                                                                                                                   false true true true false)
                                                                                                                   (String.String
                                                                                                                   (Ascii.Ascii false false true
                                                                                                                   false true true true false)
                                                                                                                   (String.String
                                                                                                                   (Ascii.Ascii true true true
                                                                                                                   true false true true false)
                                                                                                                   (String.String
                                                                                                                   (Ascii.Ascii false true true
                                                                                                                   false true true true false)
                                                                                                                   (String.String
                                                                                                                   (Ascii.Ascii true false false
                                                                                                                   false false true true false)
                                                                                                                   (String.String
                                                                                                                   (Ascii.Ascii false true false
                                                                                                                   false true true true false)
                                                                                                                   (String.String
                                                                                                                   (Ascii.Ascii false false
                                                                                                                   false false false true false
                                                                                                                   false)
                                                                                                                   (String.String
                                                                                                                   (Ascii.Ascii true true false
                                                                                                                   false false true true false)
                                                                                                                   (String.String
                                                                                                                   (Ascii.Ascii true true true
                                                                                                                   true false true true false)
                                                                                                                   (String.String
                                                                                                                   (Ascii.Ascii true false true
                                                                                                                   true false true true false)
                                                                                                                   (String.String
                                                                                                                   (Ascii.Ascii true false true
                                                                                                                   true false true true false)
                                                                                                                   (String.String
                                                                                                                   (Ascii.Ascii true false false
                                                                                                                   false false true true false)
                                                                                                                   (String.String
                                                                                                                   (Ascii.Ascii false true true
                                                                                                                   true false true true false)
                                                                                                                   (String.String
                                                                                                                   (Ascii.Ascii false false true
                                                                                                                   false false true true false)
                                                                                                                   String.EmptyString)))))))))))))))))))))))))))))))))))))))))))))))))))))))))))))))))))))))))))))))))))).
Proof. exact AutoVarParse.unconfigured_command_leaf_rejected. Qed.
Print Assumptions unconfigured_command_leaf_rejected.

Theorem leaf_parse_cases :
  forall (autovars : list (text * autovar)) (switches : list (text * text)) (env_errors : bool)
    (parse_format : toks -> res (token * text * text * toks)) (consts : list (text * text)) (f : nat) (script : text) 
    (ts0 : toks) (l : leaf) (imp : impdata) (rest : toks),
  let ts := leaf_start ts0 in
  leaf_expr autovars switches env_errors parse_format consts f script ts0 = Ok (l, imp, rest) ->
  peek_is_autovar autovars ts = true /\
  (exists (av : autovar) (c : cmd) (ts2 : toks),
     peekis IDENT ts = true /\
     assoc autovars (tlit (pk 1 ts)) = Some av /\
     command_stmt switches env_errors parse_format consts f script (adv ts) = Ok (c, imp, ts2) /\
     lpre l = Some c /\
     lk l = KVar /\
     lline l = tline (ctok c) /\
     compared_var av c = Some (loperand l) /\
     (if peekis NOT ts0
      then
       lop l = OEq /\
       lvalue l = t (String.String (Ascii.Ascii false false false false true true false false) String.EmptyString) /\
       lstrict l = false /\ rest = adv ts2
      else cond_var_operator consts f (adv ts2) = Ok (lop l, lvalue l, lstrict l, rest))) \/
  peek_is_autovar autovars ts = false /\ lpre l = None.
Proof. exact AutoVarParse.leaf_parse_cases. Qed.
Print Assumptions leaf_parse_cases.

Theorem autovar_leaf_position_out_of_range :
  forall (autovars : list (text * autovar)) (switches : list (text * text)) (env_errors : bool)
    (parse_format : toks -> res (token * text * text * toks)) (consts : list (text * text)) (f : nat) (script : text) 
    (ts0 : toks) (av : autovar) (p : Z) (c : cmd) (imp : impdata) (ts2 : toks),
  let ts := leaf_start ts0 in
  peekis IDENT ts = true ->
  assoc autovars (tlit (pk 1 ts)) = Some av ->
  avPos av = Some p ->
  command_stmt switches env_errors parse_format consts f script (adv ts) = Ok (c, imp, ts2) ->
  (p < 0)%Z \/ (Z.of_nat (length (cargs c)) <= p)%Z ->
  leaf_expr autovars switches env_errors parse_format consts f script ts0 =
  err_range (pk 1 ts) (cur ts2)
    (String.String (Ascii.Ascii true false false false false true true false)
       (String.String (Ascii.Ascii true false true false true true true false)
          (String.String (Ascii.Ascii false false true false true true true false)
             (String.String (Ascii.Ascii true true true true false true true false)
                (String.String (Ascii.Ascii true false true true false true false false)
                   (String.String (Ascii.Ascii false true true false true true true false)
                      (String.String (Ascii.Ascii true false false false false true true false)
                         (String.String (Ascii.Ascii false true false false true true true false)
                            (String.String (Ascii.Ascii false false false false false true false false)
                               (String.String (Ascii.Ascii true true false false false true true false)
                                  (String.String (Ascii.Ascii true true true true false true true false)
                                     (String.String (Ascii.Ascii true false true true false true true false)
                                        (String.String (Ascii.Ascii true false true true false true true false)
                                           (String.String (Ascii.Ascii true false false false false true true false)
                                              (String.String (Ascii.Ascii false true true true false true true false)
                                                 (String.String (Ascii.Ascii false false true false false true true false)
                                                    (String.String (Ascii.Ascii false false false false false true false false)
                                                       (String.String (Ascii.Ascii false false false true false true true false)
                                                          (String.String (Ascii.Ascii true false false false false true true false)
                                                             (String.String (Ascii.Ascii true true false false true true true false)
                                                                (String.String (Ascii.Ascii false false false false false true false false)
                                                                   (String.String (Ascii.Ascii true false false false false true true false)
                                                                      (String.String (Ascii.Ascii false true true true false true true false)
                                                                         (String.String
                                                                            (Ascii.Ascii false false false false false true false false)
                                                                            (String.String
                                                                               (Ascii.Ascii true false false false false true true false)
                                                                               (String.String
                                                                                  (Ascii.Ascii false true false false true true true false)
                                                                                  (String.String
                                                                                     (Ascii.Ascii true true true false false true true false)
                                                                                     (String.String
                                                                                        (Ascii.Ascii false false false false false true false
                                                                                           false)
                                                                                        (String.String
                                                                                           (Ascii.Ascii false false false false true true true
                                                                                              false)
                                                                                           (String.String
                                                                                              (Ascii.Ascii true true true true false true true
                                                                                                 false)
                                                                                              (String.String
                                                                                                 (Ascii.Ascii true true false false true true
                                                                                                    true false)
                                                                                                 (String.String
                                                                                                    (Ascii.Ascii true false false true false
                                                                                                       true true false)
                                                                                                    (String.String
                                                                                                       (Ascii.Ascii false false true false true
                                                                                                          true true false)
                                                                                                       (String.String
                                                                                                          (Ascii.Ascii true false false true
                                                                                                             false true true false)
                                                                                                          (String.String
                                                                                                             (Ascii.Ascii true true true true
                                                                                                                false true true false)
                                                                                                             (String.String
                                                                                                                (Ascii.Ascii false true true
                                                                                                                   true false true true false)
                                                                                                                (String.String
                                                                                                                   (Ascii.Ascii false false
                                                                                                                   false false false true false
                                                                                                                   false)
                                                                                                                   (String.String
                                                                                                                   (Ascii.Ascii true true true
                                                                                                                   true false true true false)
                                                                                                                   (String.String
                                                                                                                   (Ascii.Ascii true false true
                                                                                                                   false true true true false)
                                                                                                                   (String.String
                                                                                                                   (Ascii.Ascii false false true
                                                                                                                   false true true true false)
                                                                                                                   (String.String
                                                                                                                   (Ascii.Ascii false false
                                                                                                                   false false false true false
                                                                                                                   false)
                                                                                                                   (String.String
                                                                                                                   (Ascii.Ascii true true true
                                                                                                                   true false true true false)
                                                                                                                   (String.String
                                                                                                                   (Ascii.Ascii false true true
                                                                                                                   false false true true false)
                                                                                                                   (String.String
                                                                                                                   (Ascii.Ascii false false
                                                                                                                   false false false true false
                                                                                                                   false)
                                                                                                                   (String.String
                                                                                                                   (Ascii.Ascii false true false
                                                                                                                   false true true true false)
                                                                                                                   (String.String
                                                                                                                   (Ascii.Ascii true false false
                                                                                                                   false false true true false)
                                                                                                                   (String.String
                                                                                                                   (Ascii.Ascii false true true
                                                                                                                   true false true true false)
                                                                                                                   (String.String
                                                                                                                   (Ascii.Ascii true true true
                                                                                                                   false false true true false)
                                                                                                                   (String.String
                                                                                                                   (Ascii.Ascii true false true
                                                                                                                   false false true true false)
                                                                                                                   String.EmptyString))))))))))))))))))))))))))))))))))))))))))))))))).
Proof. exact AutoVarParse.autovar_leaf_position_out_of_range. Qed.
Print Assumptions autovar_leaf_position_out_of_range.

Theorem var_leaf_comparison :
  forall (autovars : list (text * autovar)) (switches : list (text * text)) (env_errors : bool)
    (parse_format : toks -> res (token * text * text * toks)) (consts : list (text * text)) (f : nat) (script : text) 
    (ts0 : toks) (l : leaf) (imp : impdata) (rest : toks),
  let ts := leaf_start ts0 in
  leaf_expr autovars switches env_errors parse_format consts f script ts0 = Ok (l, imp, rest) ->
  peekis VAR ts = true ->
  lpre l = None /\
  lk l = KVar /\
  (exists ts4 : toks,
     if peekis NOT ts0
     then
      lop l = OEq /\
      lvalue l = t (String.String (Ascii.Ascii false false false false true true false false) String.EmptyString) /\
      lstrict l = false /\ rest = adv ts4
     else cond_var_operator consts f (adv ts4) = Ok (lop l, lvalue l, lstrict l, rest)).
Proof. exact AutoVarParse.var_leaf_comparison. Qed.
Print Assumptions var_leaf_comparison.

Theorem autovar_leaf_default_comparison :
  forall (autovars : list (text * autovar)) (switches : list (text * text)) (env_errors : bool)
    (parse_format : toks -> res (token * text * text * toks)) (consts : list (text * text)) (f : nat) (script : text) 
    (ts0 : toks) (av : autovar) (c : cmd) (imp : impdata) (ts2 : toks) (v : text),
  let ts := leaf_start ts0 in
  peekis IDENT ts = true ->
  assoc autovars (tlit (pk 1 ts)) = Some av ->
  command_stmt switches env_errors parse_format consts f script (adv ts) = Ok (c, imp, ts2) ->
  compared_var av c = Some v ->
  peekis NOT ts0 = true \/ is_cmp_tok (cur (adv ts2)) = None ->
  leaf_expr autovars switches env_errors parse_format consts f script ts0 =
  Ok
    (autovar_leaf c v (if peekis NOT ts0 then OEq else ONe)
       (t (String.String (Ascii.Ascii false false false false true true false false) String.EmptyString)) false, imp, 
     adv ts2).
Proof. exact AutoVarParse.autovar_leaf_default_comparison. Qed.
Print Assumptions autovar_leaf_default_comparison.

Theorem autovar_leaf_preamble_is_the_statement :
  forall (autovars : list (text * autovar)) (switches : list (text * text)) (env_errors : bool)
    (parse_format : toks -> res (token * text * text * toks)) (consts : list (text * text)) (f : nat) (script : text) 
    (bs cs : list nat) (ts0 : toks) (l : leaf) (imp : impdata) (rest : toks),
  let ts := leaf_start ts0 in
  leaf_expr autovars switches env_errors parse_format consts f script ts0 = Ok (l, imp, rest) ->
  peekis IDENT ts = true ->
  try_label (adv ts) = None ->
  exists (c : cmd) (ts2 : toks),
    lpre l = Some c /\
    parse_stmt autovars switches env_errors parse_format consts (S f) script bs cs (adv ts) = Ok ([SCmd c], imp, ts2) /\
    (if peekis NOT ts0
     then rest = adv ts2
     else exists (o : cmpop) (v : text) (st : bool), cond_var_operator consts f (adv ts2) = Ok (o, v, st, rest)).
Proof. exact AutoVarParse.autovar_leaf_preamble_is_the_statement. Qed.
Print Assumptions autovar_leaf_preamble_is_the_statement.

Theorem autovar_switch_equation :
  forall (autovars : list (text * autovar)) (switches : list (text * text)) (env_errors : bool)
    (parse_format : toks -> res (token * text * text * toks)) (consts : list (text * text)) (f : nat) (script : text) 
    (bs cs : list nat) (ts : toks) (av : autovar),
  peekis LPAREN ts = true ->
  peekis VAR (adv ts) = false ->
  assoc autovars (tlit (pk 1 (adv ts))) = Some av ->
  parse_switch autovars switches env_errors parse_format consts (S f) script bs cs ts =
  (do (c, imp, ts2) <- command_stmt switches env_errors parse_format consts f script (adv (adv ts));
   match compared_var av c with
   | Some v =>
       if negb (peekis RPAREN ts2)
       then
        err_tok (cur ts)
          (String.String (Ascii.Ascii true false true true false true true false)
             (String.String (Ascii.Ascii true false false true false true true false)
                (String.String (Ascii.Ascii true true false false true true true false)
                   (String.String (Ascii.Ascii true true false false true true true false)
                      (String.String (Ascii.Ascii true false false true false true true false)
                         (String.String (Ascii.Ascii false true true true false true true false)
                            (String.String (Ascii.Ascii true true true false false true true false)
                               (String.String (Ascii.Ascii false false false false false true false false)
                                  (String.String (Ascii.Ascii true true false false false true true false)
                                     (String.String (Ascii.Ascii false false true true false true true false)
                                        (String.String (Ascii.Ascii true true true true false true true false)
                                           (String.String (Ascii.Ascii true true false false true true true false)
                                              (String.String (Ascii.Ascii true false false true false true true false)
                                                 (String.String (Ascii.Ascii false true true true false true true false)
                                                    (String.String (Ascii.Ascii true true true false false true true false)
                                                       (String.String (Ascii.Ascii false false false false false true false false)
                                                          (String.String (Ascii.Ascii false false false false true true true false)
                                                             (String.String (Ascii.Ascii true false false false false true true false)
                                                                (String.String (Ascii.Ascii false true false false true true true false)
                                                                   (String.String (Ascii.Ascii true false true false false true true false)
                                                                      (String.String (Ascii.Ascii false true true true false true true false)
                                                                         (String.String
                                                                            (Ascii.Ascii false false true false true true true false)
                                                                            (String.String
                                                                               (Ascii.Ascii false false false true false true true false)
                                                                               (String.String
                                                                                  (Ascii.Ascii true false true false false true true false)
                                                                                  (String.String
                                                                                     (Ascii.Ascii true true false false true true true false)
                                                                                     (String.String
                                                                                        (Ascii.Ascii true false false true false true true false)
                                                                                        (String.String
                                                                                           (Ascii.Ascii true true false false true true true
                                                                                              false)
                                                                                           (String.String
                                                                                              (Ascii.Ascii false false false false false true
                                                                                                 false false)
                                                                                              (String.String
                                                                                                 (Ascii.Ascii true true true true false true
                                                                                                    true false)
                                                                                                 (String.String
                                                                                                    (Ascii.Ascii false true true false false
                                                                                                       true true false)
                                                                                                    (String.String
                                                                                                       (Ascii.Ascii false false false false
                                                                                                          false true false false)
                                                                                                       (String.String
                                                                                                          (Ascii.Ascii true true false false
                                                                                                             true true true false)
                                                                                                          (String.String
                                                                                                             (Ascii.Ascii true true true false
                                                                                                                true true true false)
                                                                                                             (String.String
                                                                                                                (Ascii.Ascii true false false
                                                                                                                   true false true true false)
                                                                                                                (String.String
                                                                                                                   (Ascii.Ascii false false true
                                                                                                                   false true true true false)
                                                                                                                   (String.String
                                                                                                                   (Ascii.Ascii true true false
                                                                                                                   false false true true false)
                                                                                                                   (String.String
                                                                                                                   (Ascii.Ascii false false
                                                                                                                   false true false true true
                                                                                                                   false)
                                                                                                                   (String.String
                                                                                                                   (Ascii.Ascii false false
                                                                                                                   false false false true false
                                                                                                                   false)
                                                                                                                   (String.String
                                                                                                                   (Ascii.Ascii true true false
                                                                                                                   false true true true false)
                                                                                                                   (String.String
                                                                                                                   (Ascii.Ascii false false true
                                                                                                                   false true true true false)
                                                                                                                   (String.String
                                                                                                                   (Ascii.Ascii true false false
                                                                                                                   false false true true false)
                                                                                                                   (String.String
                                                                                                                   (Ascii.Ascii false false true
                                                                                                                   false true true true false)
                                                                                                                   (String.String
                                                                                                                   (Ascii.Ascii true false true
                                                                                                                   false false true true false)
                                                                                                                   (String.String
                                                                                                                   (Ascii.Ascii true false true
                                                                                                                   true false true true false)
                                                                                                                   (String.String
                                                                                                                   (Ascii.Ascii true false true
                                                                                                                   false false true true false)
                                                                                                                   (String.String
                                                                                                                   (Ascii.Ascii false true true
                                                                                                                   true false true true false)
                                                                                                                   (String.String
                                                                                                                   (Ascii.Ascii false false true
                                                                                                                   false true true true false)
                                                                                                                   (String.String
                                                                                                                   (Ascii.Ascii false false
                                                                                                                   false false false true false
                                                                                                                   false)
                                                                                                                   (String.String
                                                                                                                   (Ascii.Ascii false true true
                                                                                                                   false true true true false)
                                                                                                                   (String.String
                                                                                                                   (Ascii.Ascii true false false
                                                                                                                   false false true true false)
                                                                                                                   (String.String
                                                                                                                   (Ascii.Ascii false false true
                                                                                                                   true false true true false)
                                                                                                                   (String.String
                                                                                                                   (Ascii.Ascii true false true
                                                                                                                   false true true true false)
                                                                                                                   (String.String
                                                                                                                   (Ascii.Ascii true false true
                                                                                                                   false false true true false)
                                                                                                                   String.EmptyString)))))))))))))))))))))))))))))))))))))))))))))))))))))
       else
        let ts3 := adv ts2 in
        if negb (peekis LBRACE ts3)
        then
         err_range (cur ts3) (pk 1 ts3)
           (String.String (Ascii.Ascii true false true true false true true false)
              (String.String (Ascii.Ascii true false false true false true true false)
                 (String.String (Ascii.Ascii true true false false true true true false)
                    (String.String (Ascii.Ascii true true false false true true true false)
                       (String.String (Ascii.Ascii true false false true false true true false)
                          (String.String (Ascii.Ascii false true true true false true true false)
                             (String.String (Ascii.Ascii true true true false false true true false)
                                (String.String (Ascii.Ascii false false false false false true false false)
                                   (String.String (Ascii.Ascii true true true true false true true false)
                                      (String.String (Ascii.Ascii false false false false true true true false)
                                         (String.String (Ascii.Ascii true false true false false true true false)
                                            (String.String (Ascii.Ascii false true true true false true true false)
                                               (String.String (Ascii.Ascii true false false true false true true false)
                                                  (String.String (Ascii.Ascii false true true true false true true false)
                                                     (String.String (Ascii.Ascii true true true false false true true false)
                                                        (String.String (Ascii.Ascii false false false false false true false false)
                                                           (String.String (Ascii.Ascii true true false false false true true false)
                                                              (String.String (Ascii.Ascii true false true false true true true false)
                                                                 (String.String (Ascii.Ascii false true false false true true true false)
                                                                    (String.String (Ascii.Ascii false false true true false true true false)
                                                                       (String.String (Ascii.Ascii true false false true true true true false)
                                                                          (String.String
                                                                             (Ascii.Ascii false false false false false true false false)
                                                                             (String.String
                                                                                (Ascii.Ascii false true false false false true true false)
                                                                                (String.String
                                                                                   (Ascii.Ascii false true false false true true true false)
                                                                                   (String.String
                                                                                      (Ascii.Ascii true false false false false true true false)
                                                                                      (String.String
                                                                                         (Ascii.Ascii true true false false false true true
                                                                                            false)
                                                                                         (String.String
                                                                                            (Ascii.Ascii true false true false false true true
                                                                                               false)
                                                                                            (String.String
                                                                                               (Ascii.Ascii false false false false false true
                                                                                                  false false)
                                                                                               (String.String
                                                                                                  (Ascii.Ascii true true true true false true
                                                                                                     true false)
                                                                                                  (String.String
                                                                                                     (Ascii.Ascii false true true false false
                                                                                                        true true false)
                                                                                                     (String.String
                                                                                                        (Ascii.Ascii false false false false
                                                                                                           false true false false)
                                                                                                        (String.String
                                                                                                           (Ascii.Ascii true true false false
                                                                                                              true true true false)
                                                                                                           (String.String
                                                                                                              (Ascii.Ascii true true true false
                                                                                                                 true true true false)
                                                                                                              (String.String
                                                                                                                 (Ascii.Ascii true false false
                                                                                                                   true false true true false)
                                                                                                                 (String.String
                                                                                                                   (Ascii.Ascii false false true
                                                                                                                   false true true true false)
                                                                                                                   (String.String
                                                                                                                   (Ascii.Ascii true true false
                                                                                                                   false false true true false)
                                                                                                                   (String.String
                                                                                                                   (Ascii.Ascii false false
                                                                                                                   false true false true true
                                                                                                                   false)
                                                                                                                   (String.String
                                                                                                                   (Ascii.Ascii false false
                                                                                                                   false false false true false
                                                                                                                   false)
                                                                                                                   (String.String
                                                                                                                   (Ascii.Ascii true true false
                                                                                                                   false true true true false)
                                                                                                                   (String.String
                                                                                                                   (Ascii.Ascii false false true
                                                                                                                   false true true true false)
                                                                                                                   (String.String
                                                                                                                   (Ascii.Ascii true false false
                                                                                                                   false false true true false)
                                                                                                                   (String.String
                                                                                                                   (Ascii.Ascii false false true
                                                                                                                   false true true true false)
                                                                                                                   (String.String
                                                                                                                   (Ascii.Ascii true false true
                                                                                                                   false false true true false)
                                                                                                                   (String.String
                                                                                                                   (Ascii.Ascii true false true
                                                                                                                   true false true true false)
                                                                                                                   (String.String
                                                                                                                   (Ascii.Ascii true false true
                                                                                                                   false false true true false)
                                                                                                                   (String.String
                                                                                                                   (Ascii.Ascii false true true
                                                                                                                   true false true true false)
                                                                                                                   (String.String
                                                                                                                   (Ascii.Ascii false false true
                                                                                                                   false true true true false)
                                                                                                                   String.EmptyString)))))))))))))))))))))))))))))))))))))))))))))))
        else
         let ts4 := adv ts3 in
         match
           parse_cases autovars switches env_errors parse_format consts f script (length ts :: bs) cs (cur ts4) (adv ts4) [] [] false imp0
         with
         | Ok ([], _, ts5) =>
             err_range (cur ts) (cur ts5)
               (String.String (Ascii.Ascii true true false false true true true false)
                  (String.String (Ascii.Ascii true true true false true true true false)
                     (String.String (Ascii.Ascii true false false true false true true false)
                        (String.String (Ascii.Ascii false false true false true true true false)
                           (String.String (Ascii.Ascii true true false false false true true false)
                              (String.String (Ascii.Ascii false false false true false true true false)
                                 (String.String (Ascii.Ascii false false false false false true false false)
                                    (String.String (Ascii.Ascii true true false false true true true false)
                                       (String.String (Ascii.Ascii false false true false true true true false)
                                          (String.String (Ascii.Ascii true false false false false true true false)
                                             (String.String (Ascii.Ascii false false true false true true true false)
                                                (String.String (Ascii.Ascii true false true false false true true false)
                                                   (String.String (Ascii.Ascii true false true true false true true false)
                                                      (String.String (Ascii.Ascii true false true false false true true false)
                                                         (String.String (Ascii.Ascii false true true true false true true false)
                                                            (String.String (Ascii.Ascii false false true false true true true false)
                                                               (String.String (Ascii.Ascii false false false false false true false false)
                                                                  (String.String (Ascii.Ascii false false false true false true true false)
                                                                     (String.String (Ascii.Ascii true false false false false true true false)
                                                                        (String.String (Ascii.Ascii true true false false true true true false)
                                                                           (String.String
                                                                              (Ascii.Ascii false false false false false true false false)
                                                                              (String.String
                                                                                 (Ascii.Ascii false true true true false true true false)
                                                                                 (String.String
                                                                                    (Ascii.Ascii true true true true false true true false)
                                                                                    (String.String
                                                                                       (Ascii.Ascii false false false false false true false
                                                                                          false)
                                                                                       (String.String
                                                                                          (Ascii.Ascii true true false false false true true
                                                                                             false)
                                                                                          (String.String
                                                                                             (Ascii.Ascii true false false false false true true
                                                                                                false)
                                                                                             (String.String
                                                                                                (Ascii.Ascii true true false false true true
                                                                                                   true false)
                                                                                                (String.String
                                                                                                   (Ascii.Ascii true false true false false true
                                                                                                      true false)
                                                                                                   (String.String
                                                                                                      (Ascii.Ascii true true false false true
                                                                                                         true true false)
                                                                                                      (String.String
                                                                                                         (Ascii.Ascii false false false false
                                                                                                            false true false false)
                                                                                                         (String.String
                                                                                                            (Ascii.Ascii true true true true
                                                                                                               false true true false)
                                                                                                            (String.String
                                                                                                               (Ascii.Ascii false true false
                                                                                                                  false true true true false)
                                                                                                               (String.String
                                                                                                                  (Ascii.Ascii false false false
                                                                                                                   false false true false false)
                                                                                                                  (String.String
                                                                                                                   (Ascii.Ascii false false true
                                                                                                                   false false true true false)
                                                                                                                   (String.String
                                                                                                                   (Ascii.Ascii true false true
                                                                                                                   false false true true false)
                                                                                                                   (String.String
                                                                                                                   (Ascii.Ascii false true true
                                                                                                                   false false true true false)
                                                                                                                   (String.String
                                                                                                                   (Ascii.Ascii true false false
                                                                                                                   false false true true false)
                                                                                                                   (String.String
                                                                                                                   (Ascii.Ascii true false true
                                                                                                                   false true true true false)
                                                                                                                   (String.String
                                                                                                                   (Ascii.Ascii false false true
                                                                                                                   true false true true false)
                                                                                                                   (String.String
                                                                                                                   (Ascii.Ascii false false true
                                                                                                                   false true true true false)
                                                                                                                   (String.String
                                                                                                                   (Ascii.Ascii false false
                                                                                                                   false false false true false
                                                                                                                   false)
                                                                                                                   (String.String
                                                                                                                   (Ascii.Ascii true true false
                                                                                                                   false false true true false)
                                                                                                                   (String.String
                                                                                                                   (Ascii.Ascii true false false
                                                                                                                   false false true true false)
                                                                                                                   (String.String
                                                                                                                   (Ascii.Ascii true true false
                                                                                                                   false true true true false)
                                                                                                                   (String.String
                                                                                                                   (Ascii.Ascii true false true
                                                                                                                   false false true true false)
                                                                                                                   String.EmptyString)))))))))))))))))))))))))))))))))))))))))))))
         | Ok ((_ :: _) as cases, imp', ts5) => Ok ([SCmd c; SSwitch (length ts) v (tline (ctok c)) cases], impadd imp imp', ts5)
         | Err e => Err e
         | Panic => Panic
         | Fuel => Fuel
         end
   | None =>
       err_range (cur (adv (adv ts))) (cur ts2)
         (String.String (Ascii.Ascii true false false false false true true false)
            (String.String (Ascii.Ascii true false true false true true true false)
               (String.String (Ascii.Ascii false false true false true true true false)
                  (String.String (Ascii.Ascii true true true true false true true false)
                     (String.String (Ascii.Ascii true false true true false true false false)
                        (String.String (Ascii.Ascii false true true false true true true false)
                           (String.String (Ascii.Ascii true false false false false true true false)
                              (String.String (Ascii.Ascii false true false false true true true false)
                                 (String.String (Ascii.Ascii false false false false false true false false)
                                    (String.String (Ascii.Ascii true true false false false true true false)
                                       (String.String (Ascii.Ascii true true true true false true true false)
                                          (String.String (Ascii.Ascii true false true true false true true false)
                                             (String.String (Ascii.Ascii true false true true false true true false)
                                                (String.String (Ascii.Ascii true false false false false true true false)
                                                   (String.String (Ascii.Ascii false true true true false true true false)
                                                      (String.String (Ascii.Ascii false false true false false true true false)
                                                         (String.String (Ascii.Ascii false false false false false true false false)
                                                            (String.String (Ascii.Ascii false false false true false true true false)
                                                               (String.String (Ascii.Ascii true false false false false true true false)
                                                                  (String.String (Ascii.Ascii true true false false true true true false)
                                                                     (String.String (Ascii.Ascii false false false false false true false false)
                                                                        (String.String
                                                                           (Ascii.Ascii true false false false false true true false)
                                                                           (String.String
                                                                              (Ascii.Ascii false true true true false true true false)
                                                                              (String.String
                                                                                 (Ascii.Ascii false false false false false true false false)
                                                                                 (String.String
                                                                                    (Ascii.Ascii true false false false false true true false)
                                                                                    (String.String
                                                                                       (Ascii.Ascii false true false false true true true false)
                                                                                       (String.String
                                                                                          (Ascii.Ascii true true true false false true true
                                                                                             false)
                                                                                          (String.String
                                                                                             (Ascii.Ascii false false false false false true
                                                                                                false false)
                                                                                             (String.String
                                                                                                (Ascii.Ascii false false false false true true
                                                                                                   true false)
                                                                                                (String.String
                                                                                                   (Ascii.Ascii true true true true false true
                                                                                                      true false)
                                                                                                   (String.String
                                                                                                      (Ascii.Ascii true true false false true
                                                                                                         true true false)
                                                                                                      (String.String
                                                                                                         (Ascii.Ascii true false false true
                                                                                                            false true true false)
                                                                                                         (String.String
                                                                                                            (Ascii.Ascii false false true false
                                                                                                               true true true false)
                                                                                                            (String.String
                                                                                                               (Ascii.Ascii true false false
                                                                                                                  true false true true false)
                                                                                                               (String.String
                                                                                                                  (Ascii.Ascii true true true
                                                                                                                   true false true true false)
                                                                                                                  (String.String
                                                                                                                   (Ascii.Ascii false true true
                                                                                                                   true false true true false)
                                                                                                                   (String.String
                                                                                                                   (Ascii.Ascii false false
                                                                                                                   false false false true false
                                                                                                                   false)
                                                                                                                   (String.String
                                                                                                                   (Ascii.Ascii true true true
                                                                                                                   true false true true false)
                                                                                                                   (String.String
                                                                                                                   (Ascii.Ascii true false true
                                                                                                                   false true true true false)
                                                                                                                   (String.String
                                                                                                                   (Ascii.Ascii false false true
                                                                                                                   false true true true false)
                                                                                                                   (String.String
                                                                                                                   (Ascii.Ascii false false
                                                                                                                   false false false true false
                                                                                                                   false)
                                                                                                                   (String.String
                                                                                                                   (Ascii.Ascii true true true
                                                                                                                   true false true true false)
                                                                                                                   (String.String
                                                                                                                   (Ascii.Ascii false true true
                                                                                                                   false false true true false)
                                                                                                                   (String.String
                                                                                                                   (Ascii.Ascii false false
                                                                                                                   false false false true false
                                                                                                                   false)
                                                                                                                   (String.String
                                                                                                                   (Ascii.Ascii false true false
                                                                                                                   false true true true false)
                                                                                                                   (String.String
                                                                                                                   (Ascii.Ascii true false false
                                                                                                                   false false true true false)
                                                                                                                   (String.String
                                                                                                                   (Ascii.Ascii false true true
                                                                                                                   true false true true false)
                                                                                                                   (String.String
                                                                                                                   (Ascii.Ascii true true true
                                                                                                                   false false true true false)
                                                                                                                   (String.String
                                                                                                                   (Ascii.Ascii true false true
                                                                                                                   false false true true false)
                                                                                                                   String.EmptyString)))))))))))))))))))))))))))))))))))))))))))))))))
   end).
Proof. exact AutoVarParse.autovar_switch_equation. Qed.
Print Assumptions autovar_switch_equation.

Theorem unconfigured_command_switch_rejected :
  forall (autovars : list (text * autovar)) (switches : list (text * text)) (env_errors : bool)
    (parse_format : toks -> res (token * text * text * toks)) (consts : list (text * text)) (f : nat) (script : text) 
    (bs cs : list nat) (ts : toks),
  peekis LPAREN ts = true ->
  peekis VAR (adv ts) = false ->
  assoc autovars (tlit (pk 1 (adv ts))) = None ->
  parse_switch autovars switches env_errors parse_format consts (S f) script bs cs ts =
  err_tok (pk 1 (adv ts))
    (String.String (Ascii.Ascii true false true false false true true false)
       (String.String (Ascii.Ascii false false false true true true true false)
          (String.String (Ascii.Ascii false false false false true true true false)
             (String.String (Ascii.Ascii true false true false false true true false)
                (String.String (Ascii.Ascii true true false false false true true false)
                   (String.String (Ascii.Ascii false false true false true true true false)
                      (String.String (Ascii.Ascii true false true false false true true false)
                         (String.String (Ascii.Ascii false false true false false true true false)
                            (String.String (Ascii.Ascii false false false false false true false false)
                               (String.String (Ascii.Ascii false true true true false true true false)
                                  (String.String (Ascii.Ascii true false true false false true true false)
                                     (String.String (Ascii.Ascii false false false true true true true false)
                                        (String.String (Ascii.Ascii false false true false true true true false)
                                           (String.String (Ascii.Ascii false false false false false true false false)
                                              (String.String (Ascii.Ascii false false true false true true true false)
                                                 (String.String (Ascii.Ascii true true true true false true true false)
                                                    (String.String (Ascii.Ascii true true false true false true true false)
                                                       (String.String (Ascii.Ascii true false true false false true true false)
                                                          (String.String (Ascii.Ascii false true true true false true true false)
                                                             (String.String (Ascii.Ascii false false false false false true false false)
                                                                (String.String (Ascii.Ascii false false true false true true true false)
                                                                   (String.String (Ascii.Ascii true true true true false true true false)
                                                                      (String.String
                                                                         (Ascii.Ascii false false false false false true false false)
                                                                         (String.String
                                                                            (Ascii.Ascii false true false false false true true false)
                                                                            (String.String
                                                                               (Ascii.Ascii true false true false false true true false)
                                                                               (String.String
                                                                                  (Ascii.Ascii false false false false false true false false)
                                                                                  (String.String
                                                                                     (Ascii.Ascii true true true false false true false false)
                                                                                     (String.String
                                                                                        (Ascii.Ascii false true true false true false true false)
                                                                                        (String.String
                                                                                           (Ascii.Ascii true false false false false false true
                                                                                              false)
                                                                                           (String.String
                                                                                              (Ascii.Ascii false true false false true false
                                                                                                 true false)
                                                                                              (String.String
                                                                                                 (Ascii.Ascii true true true false false true
                                                                                                    false false)
                                                                                                 (String.String
                                                                                                    (Ascii.Ascii false false false false false
                                                                                                       true false false)
                                                                                                    (String.String
                                                                                                       (Ascii.Ascii true true true true false
                                                                                                          true true false)
                                                                                                       (String.String
                                                                                                          (Ascii.Ascii false true false false
                                                                                                             true true true false)
                                                                                                          (String.String
                                                                                                             (Ascii.Ascii false false false
                                                                                                                false false true false false)
                                                                                                             (String.String
                                                                                                                (Ascii.Ascii true false false
                                                                                                                   false false true true false)
                                                                                                                (String.String
                                                                                                                   (Ascii.Ascii true false true
                                                                                                                   false true true true false)
                                                                                                                   (String.String
                                                                                                                   (Ascii.Ascii false false true
                                                                                                                   false true true true false)
                                                                                                                   (String.String
                                                                                                                   (Ascii.Ascii true true true
                                                                                                                   true false true true false)
                                                                                                                   (String.String
                                                                                                                   (Ascii.Ascii true false true
                                                                                                                   true false true false false)
                                                                                                                   (String.String
                                                                                                                   (Ascii.Ascii false true true
                                                                                                                   false true true true false)
                                                                                                                   (String.String
                                                                                                                   (Ascii.Ascii true false false
                                                                                                                   false false true true false)
                                                                                                                   (String.String
                                                                                                                   (Ascii.Ascii false true false
                                                                                                                   false true true true false)
                                                                                                                   (String.String
                                                                                                                   (Ascii.Ascii false false
                                                                                                                   false false false true false
                                                                                                                   false)
                                                                                                                   (String.String
                                                                                                                   (Ascii.Ascii true true false
                                                                                                                   false false true true false)
                                                                                                                   (String.String
                                                                                                                   (Ascii.Ascii true true true
                                                                                                                   true false true true false)
                                                                                                                   (String.String
                                                                                                                   (Ascii.Ascii true false true
                                                                                                                   true false true true false)
                                                                                                                   (String.String
                                                                                                                   (Ascii.Ascii true false true
                                                                                                                   true false true true false)
                                                                                                                   (String.String
                                                                                                                   (Ascii.Ascii true false false
                                                                                                                   false false true true false)
                                                                                                                   (String.String
                                                                                                                   (Ascii.Ascii false true true
                                                                                                                   true false true true false)
                                                                                                                   (String.String
                                                                                                                   (Ascii.Ascii false false true
                                                                                                                   false false true true false)
                                                                                                                   String.EmptyString))))))))))))))))))))))))))))))))))))))))))))))))))).
Proof. exact AutoVarParse.unconfigured_command_switch_rejected. Qed.
Print Assumptions unconfigured_command_switch_rejected.

Theorem autovar_switch_parse :
  forall (autovars : list (text * autovar)) (switches : list (text * text)) (env_errors : bool)
    (parse_format : toks -> res (token * text * text * toks)) (consts : list (text * text)) (f : nat) (script : text) 
    (bs cs : list nat) (ts : toks) (ss : list stmt) (imp : impdata) (rest : toks),
  parse_switch autovars switches env_errors parse_format consts (S f) script bs cs ts = Ok (ss, imp, rest) ->
  peekis VAR (adv ts) = false ->
  exists (av : autovar) (c : cmd) (impc : impdata) (ts2 : toks) (cases : list scase) (impb : impdata),
    peekis LPAREN ts = true /\
    assoc autovars (tlit (pk 1 (adv ts))) = Some av /\
    command_stmt switches env_errors parse_format consts f script (adv (adv ts)) = Ok (c, impc, ts2) /\
    peekis RPAREN ts2 = true /\
    peekis LBRACE (adv ts2) = true /\
    parse_cases autovars switches env_errors parse_format consts f script (length ts :: bs) cs (pk 1 (adv ts2)) (adv (adv (adv ts2))) [] []
      false imp0 = Ok (cases, impb, rest) /\
    cases <> [] /\
    imp = impadd impc impb /\ (exists v : text, compared_var av c = Some v /\ ss = [SCmd c; SSwitch (length ts) v (tline (ctok c)) cases]).
Proof. exact AutoVarParse.autovar_switch_parse. Qed.
Print Assumptions autovar_switch_parse.

Theorem autovar_switch_position_out_of_range :
  forall (autovars : list (text * autovar)) (switches : list (text * text)) (env_errors : bool)
    (parse_format : toks -> res (token * text * text * toks)) (consts : list (text * text)) (f : nat) (script : text) 
    (bs cs : list nat) (ts : toks) (av : autovar) (p : Z) (c : cmd) (imp : impdata) (ts2 : toks),
  peekis LPAREN ts = true ->
  peekis VAR (adv ts) = false ->
  assoc autovars (tlit (pk 1 (adv ts))) = Some av ->
  avPos av = Some p ->
  command_stmt switches env_errors parse_format consts f script (adv (adv ts)) = Ok (c, imp, ts2) ->
  (p < 0)%Z \/ (Z.of_nat (length (cargs c)) <= p)%Z ->
  parse_switch autovars switches env_errors parse_format consts (S f) script bs cs ts =
  err_range (pk 1 (adv ts)) (cur ts2)
    (String.String (Ascii.Ascii true false false false false true true false)
       (String.String (Ascii.Ascii true false true false true true true false)
          (String.String (Ascii.Ascii false false true false true true true false)
             (String.String (Ascii.Ascii true true true true false true true false)
                (String.String (Ascii.Ascii true false true true false true false false)
                   (String.String (Ascii.Ascii false true true false true true true false)
                      (String.String (Ascii.Ascii true false false false false true true false)
                         (String.String (Ascii.Ascii false true false false true true true false)
                            (String.String (Ascii.Ascii false false false false false true false false)
                               (String.String (Ascii.Ascii true true false false false true true false)
                                  (String.String (Ascii.Ascii true true true true false true true false)
                                     (String.String (Ascii.Ascii true false true true false true true false)
                                        (String.String (Ascii.Ascii true false true true false true true false)
                                           (String.String (Ascii.Ascii true false false false false true true false)
                                              (String.String (Ascii.Ascii false true true true false true true false)
                                                 (String.String (Ascii.Ascii false false true false false true true false)
                                                    (String.String (Ascii.Ascii false false false false false true false false)
                                                       (String.String (Ascii.Ascii false false false true false true true false)
                                                          (String.String (Ascii.Ascii true false false false false true true false)
                                                             (String.String (Ascii.Ascii true true false false true true true false)
                                                                (String.String (Ascii.Ascii false false false false false true false false)
                                                                   (String.String (Ascii.Ascii true false false false false true true false)
                                                                      (String.String (Ascii.Ascii false true true true false true true false)
                                                                         (String.String
                                                                            (Ascii.Ascii false false false false false true false false)
                                                                            (String.String
                                                                               (Ascii.Ascii true false false false false true true false)
                                                                               (String.String
                                                                                  (Ascii.Ascii false true false false true true true false)
                                                                                  (String.String
                                                                                     (Ascii.Ascii true true true false false true true false)
                                                                                     (String.String
                                                                                        (Ascii.Ascii false false false false false true false
                                                                                           false)
                                                                                        (String.String
                                                                                           (Ascii.Ascii false false false false true true true
                                                                                              false)
                                                                                           (String.String
                                                                                              (Ascii.Ascii true true true true false true true
                                                                                                 false)
                                                                                              (String.String
                                                                                                 (Ascii.Ascii true true false false true true
                                                                                                    true false)
                                                                                                 (String.String
                                                                                                    (Ascii.Ascii true false false true false
                                                                                                       true true false)
                                                                                                    (String.String
                                                                                                       (Ascii.Ascii false false true false true
                                                                                                          true true false)
                                                                                                       (String.String
                                                                                                          (Ascii.Ascii true false false true
                                                                                                             false true true false)
                                                                                                          (String.String
                                                                                                             (Ascii.Ascii true true true true
                                                                                                                false true true false)
                                                                                                             (String.String
                                                                                                                (Ascii.Ascii false true true
                                                                                                                   true false true true false)
                                                                                                                (String.String
                                                                                                                   (Ascii.Ascii false false
                                                                                                                   false false false true false
                                                                                                                   false)
                                                                                                                   (String.String
                                                                                                                   (Ascii.Ascii true true true
                                                                                                                   true false true true false)
                                                                                                                   (String.String
                                                                                                                   (Ascii.Ascii true false true
                                                                                                                   false true true true false)
                                                                                                                   (String.String
                                                                                                                   (Ascii.Ascii false false true
                                                                                                                   false true true true false)
                                                                                                                   (String.String
                                                                                                                   (Ascii.Ascii false false
                                                                                                                   false false false true false
                                                                                                                   false)
                                                                                                                   (String.String
                                                                                                                   (Ascii.Ascii true true true
                                                                                                                   true false true true false)
                                                                                                                   (String.String
                                                                                                                   (Ascii.Ascii false true true
                                                                                                                   false false true true false)
                                                                                                                   (String.String
                                                                                                                   (Ascii.Ascii false false
                                                                                                                   false false false true false
                                                                                                                   false)
                                                                                                                   (String.String
                                                                                                                   (Ascii.Ascii false true false
                                                                                                                   false true true true false)
                                                                                                                   (String.String
                                                                                                                   (Ascii.Ascii true false false
                                                                                                                   false false true true false)
                                                                                                                   (String.String
                                                                                                                   (Ascii.Ascii false true true
                                                                                                                   true false true true false)
                                                                                                                   (String.String
                                                                                                                   (Ascii.Ascii true true true
                                                                                                                   false false true true false)
                                                                                                                   (String.String
                                                                                                                   (Ascii.Ascii true false true
                                                                                                                   false false true true false)
                                                                                                                   String.EmptyString))))))))))))))))))))))))))))))))))))))))))))))))).
Proof. exact AutoVarParse.autovar_switch_position_out_of_range. Qed.
Print Assumptions autovar_switch_position_out_of_range.

Theorem autovar_switch_preamble_is_the_statement :
  forall (autovars : list (text * autovar)) (switches : list (text * text)) (env_errors : bool)
    (parse_format : toks -> res (token * text * text * toks)) (consts : list (text * text)) (f : nat) (script : text) 
    (bs cs bs' cs' : list nat) (ts : toks) (ss : list stmt) (imp : impdata) (rest : toks),
  parse_switch autovars switches env_errors parse_format consts (S f) script bs cs ts = Ok (ss, imp, rest) ->
  peekis VAR (adv ts) = false ->
  ttype (pk 1 (adv ts)) = IDENT ->
  try_label (adv (adv ts)) = None ->
  exists (c : cmd) (impc : impdata) (ts2 : toks) (sw : stmt) (impb : impdata),
    parse_stmt autovars switches env_errors parse_format consts (S f) script bs' cs' (adv (adv ts)) = Ok ([SCmd c], impc, ts2) /\
    ss = [SCmd c; sw] /\ imp = impadd impc impb.
Proof. exact AutoVarParse.autovar_switch_preamble_is_the_statement. Qed.
Print Assumptions autovar_switch_preamble_is_the_statement.

Theorem command_stmt_mono :
  forall (switches : list (text * text)) (env_errors : bool) (parse_format : toks -> res (token * text * text * toks))
    (consts : list (text * text)) (f g : nat) (script : text) (ts : toks) (r : cmd * impdata * toks),
  f <= g ->
  command_stmt switches env_errors parse_format consts f script ts = Ok r ->
  command_stmt switches env_errors parse_format consts g script ts = Ok r.
Proof. exact AutoVarParse.command_stmt_mono. Qed.
Print Assumptions command_stmt_mono.

Theorem every_preamble_in_a_condition :
  forall (autovars : list (text * autovar)) (switches : list (text * text)) (env_errors : bool)
    (parse_format : toks -> res (token * text * text * toks)) (consts : list (text * text)),
  (forall (ts : toks) (tk : token) (v sty : text) (ts' : toks),
   parse_format ts = Ok (tk, v, sty, ts') -> forall a : toks, advs a ts -> advs a ts') ->
  forall (f : nat) (single neg : bool) (script : text) (ts : toks) (e : bexp) (imp : impdata) (ts' : toks) (l : leaf) (c : cmd),
  bool_expr autovars switches env_errors parse_format consts f single neg script ts = Ok (e, imp, ts') ->
  In l (leaves e) ->
  lpre l = Some c ->
  exists (tsc : toks) (av : autovar) (impc : impdata) (ts2 : toks),
    advs ts tsc /\
    ttype (cur tsc) = IDENT /\
    assoc autovars (tlit (cur tsc)) = Some av /\
    command_stmt switches env_errors parse_format consts f script tsc = Ok (c, impc, ts2) /\
    (forall bs cs : list nat,
     try_label tsc = None -> parse_stmt autovars switches env_errors parse_format consts (S f) script bs cs tsc = Ok ([SCmd c], impc, ts2)) /\
    lk l = KVar /\ lline l = tline (ctok c) /\ compared_var av c = Some (loperand l).
Proof. exact AutoVarParse.every_preamble_in_a_condition. Qed.
Print Assumptions every_preamble_in_a_condition.

Theorem every_preamble_in_an_if_or_while_condition :
  forall (autovars : list (text * autovar)) (switches : list (text * text)) (env_errors : bool)
    (parse_format : toks -> res (token * text * text * toks)) (consts : list (text * text)),
  (forall (ts : toks) (tk : token) (v sty : text) (ts' : toks),
   parse_format ts = Ok (tk, v, sty, ts') -> forall a : toks, advs a ts -> advs a ts') ->
  forall (f : nat) (require : bool) (script : text) (bs cs : list nat) (ts : toks) (e : bexp) (b : list stmt) (imp : impdata) 
    (ts' : toks) (l : leaf) (c : cmd),
  parse_cond autovars switches env_errors parse_format consts (S f) require script bs cs ts = Ok (Some e, b, imp, ts') ->
  In l (leaves e) ->
  lpre l = Some c ->
  exists (tsc : toks) (av : autovar) (impc : impdata) (ts2 : toks),
    advs ts tsc /\
    ttype (cur tsc) = IDENT /\
    assoc autovars (tlit (cur tsc)) = Some av /\
    command_stmt switches env_errors parse_format consts f script tsc = Ok (c, impc, ts2) /\
    lk l = KVar /\ lline l = tline (ctok c) /\ compared_var av c = Some (loperand l).
Proof. exact AutoVarParse.every_preamble_in_an_if_or_while_condition. Qed.
Print Assumptions every_preamble_in_an_if_or_while_condition.

Theorem every_preamble_in_a_do_while_condition :
  forall (autovars : list (text * autovar)) (switches : list (text * text)) (env_errors : bool)
    (parse_format : toks -> res (token * text * text * toks)) (consts : list (text * text)),
  (forall (ts : toks) (tk : token) (v sty : text) (ts' : toks),
   parse_format ts = Ok (tk, v, sty, ts') -> forall a : toks, advs a ts -> advs a ts') ->
  forall (f : nat) (script : text) (bs cs : list nat) (ts : toks) (tg : nat) (b : list stmt) (e : bexp) (imp : impdata) 
    (ts' : toks) (l : leaf) (c : cmd),
  ttype (cur ts) = DO ->
  parse_stmt autovars switches env_errors parse_format consts (S f) script bs cs ts = Ok ([SDoWhile tg b e], imp, ts') ->
  In l (leaves e) ->
  lpre l = Some c ->
  exists (tsc : toks) (av : autovar) (impc : impdata) (ts2 : toks),
    ttype (cur tsc) = IDENT /\
    assoc autovars (tlit (cur tsc)) = Some av /\
    command_stmt switches env_errors parse_format consts f script tsc = Ok (c, impc, ts2) /\
    lk l = KVar /\ lline l = tline (ctok c) /\ compared_var av c = Some (loperand l).
Proof. exact AutoVarParse.every_preamble_in_a_do_while_condition. Qed.
Print Assumptions every_preamble_in_a_do_while_condition.

Theorem autovar_leaf_head :
  forall (autovars : list (text * autovar)) (switches : list (text * text)) (env_errors : bool)
    (parse_format : toks -> res (token * text * text * toks)) (consts : list (text * text)) (script : text) (f : nat) 
    (pre name lp : token) (a : arglist) (rp : token) (R : list token) (av : autovar) (v : text),
  cmd_ok switches env_errors parse_format name lp a rp ->
  assoc autovars (tlit name) = Some av ->
  compared_var av (parsed_cmd consts name lp a rp R) = Some v ->
  length (arg_tokens a) < f ->
  R <> [] ->
  leaf_expr autovars switches env_errors parse_format consts f script (pre :: name :: lp :: arg_tokens a ++ rp :: R) =
  (do (o, val, strict, ts5) <- cond_var_operator consts f R;
   Ok (autovar_leaf (parsed_cmd consts name lp a rp R) v o val strict, parsed_imp script name lp a rp R, ts5)).
Proof. exact AutoVarParse.autovar_leaf_head. Qed.
Print Assumptions autovar_leaf_head.

Theorem autovar_leaf_compared :
  forall (autovars : list (text * autovar)) (switches : list (text * text)) (env_errors : bool)
    (parse_format : toks -> res (token * text * text * toks)) (consts : list (text * text)) (script : text) (F0 : nat) 
    (name lp : token) (a : arglist) (rp o : token) (op : cmpop) (vals R : list token) (av : autovar) (v : text),
  1 <= F0 ->
  cmd_ok switches env_errors parse_format name lp a rp ->
  assoc autovars (tlit name) = Some av ->
  is_cmp_tok o = Some op ->
  value_ok vals ->
  compared_var av (parsed_cmd consts name lp a rp (o :: vals ++ R)) = Some v ->
  follow R ->
  leaf_spec_at autovars switches env_errors parse_format consts script F0 (cmd_toks name lp a rp ++ o :: vals)
    (autovar_leaf (parsed_cmd consts name lp a rp (o :: vals ++ R)) v op (opnd consts vals) false)
    (parsed_imp script name lp a rp (o :: vals ++ R)) R.
Proof. exact AutoVarParse.autovar_leaf_compared. Qed.
Print Assumptions autovar_leaf_compared.

Theorem condition_with_autovar_leaves_parses_to_its_meaning :
  forall (autovars : list (text * autovar)) (switches : list (text * text)) (env_errors : bool)
    (parse_format : toks -> res (token * text * text * toks)) (consts : list (text * text)) (script : text) (F0 : nat) 
    (St : Type) (exec : cmd -> St -> stepres St) (flag_set trainer_beaten : text -> St -> bool)
    (cmp_var cmp_var_value : text -> text -> St -> comparison) (e : expr) (lp : token) (rest : list token) (f : nat),
  wf_expr_at autovars switches env_errors parse_format consts script F0 e rest ->
  lok_expr e ->
  need_expr F0 e <= f ->
  stop rest ->
  exists (T : bexp) (imp' : impdata),
    bool_expr autovars switches env_errors parse_format consts f false false script (lp :: print_expr e ++ rest) = Ok (T, imp', rest) /\
    imp_eq imp' (imp_expr e) /\
    (forall s : St,
     eval_bexp St exec flag_set trainer_beaten cmp_var cmp_var_value T s = sev_expr St exec flag_set trainer_beaten cmp_var cmp_var_value e s).
Proof. exact AutoVarParse.condition_with_autovar_leaves_parses_to_its_meaning. Qed.
Print Assumptions condition_with_autovar_leaves_parses_to_its_meaning.

Theorem autovar_leaf_meaning :
  forall (St : Type) (exec : cmd -> St -> stepres St) (flag_set trainer_beaten : text -> St -> bool)
    (cmp_var cmp_var_value : text -> text -> St -> comparison) (c : cmd) (v : text) (o : cmpop) (val : text) (strict : bool) 
    (s s' : St),
  exec c s = Continue St s' ->
  eval_leaf St exec flag_set trainer_beaten cmp_var cmp_var_value (autovar_leaf c v o val strict) s =
  ([c], s', Some (cmp_holds o ((if strict then cmp_var_value else cmp_var) v val s'))).
Proof. exact AutoVarParse.autovar_leaf_meaning. Qed.
Print Assumptions autovar_leaf_meaning.

Theorem preamble_rendered_as_statement :
  forall (mpath : option text) (name : text) (ch : chunk) (next : Z) (l : leaf) (tr fa : Z) (c : cmd),
  cbr ch = Some (BrLeaf l tr fa) ->
  lpre l = Some c ->
  (exists more : list instr, Datatypes.fst (Datatypes.fst (render_branch mpath name ch next)) = ICmd c :: more) /\
  (exists before : list instr, render_stmt mpath (SCmd c) = before ++ [ICmd c] /\ before = marker mpath (tline (ctok c))) /\
  (forall p : text, print_instr p (ICmd c) = render_cmd c).
Proof. exact AutoVarParse.preamble_rendered_as_statement. Qed.
Print Assumptions preamble_rendered_as_statement.


(* ---- whole programs (AutoVarProgram.v): induction over the statement parser. For every program parse_program accepts, every
   script body and inline map-script body, at any nesting depth: program_autovar_leaves (every leaf with a preamble in every
   condition: the preamble is the command command_stmt / parse_stmt return at that position of the program's token stream,
   its name is configured, the leaf compares compared_var av c = the configured name or the argument at the configured
   position), program_closed_conditions (for a condition closed by ')': no premise on the tokens), program_plain_leaves (every
   other leaf is a plain form of LeafForms.v), program_switches (a switch written on a command has that command as the
   statement just before it and switches on its result var), compiled_autovar_conditions (composition with C01: in the emitted
   code the command runs exactly where the source semantics runs the preamble), condition_events_are_preambles_in_order (one
   evaluation performs a subsequence of the preambles, in leaf order, each at most once). Examples.unchecked_closing_token and
   Examples.compared_var_at_an_inline_text_position record two behaviours of the compiler outside C11's quantifier
   (DESIGN.md boundaries B15, B16). ---- *)
From Coq Require Import String. From Pory Require Import AutoVarProgram. Open Scope string_scope. Open Scope list_scope.
Theorem accepted_bodies_have_origins :
  forall (hl hd hs : N -> bool) (autovars : list (text * autovar)) (switches : list (text * text)) (ee : bool) (fc : fontcfg) 
    (cli_font : text) (cli_maxlen : Z) (s : text) (p : program),
  parse_program autovars switches ee (parse_format fc cli_font cli_maxlen ee) (lex hl hd hs s) = Ok p ->
  Forall
    (ok (cond_origin_p autovars switches ee (parse_format fc cli_font cli_maxlen ee) (lex hl hd hs s))
       (switch_origin_p autovars switches ee (parse_format fc cli_font cli_maxlen ee) (lex hl hd hs s))) (ProgWf.bodies_of (tops p)).
Proof. exact AutoVarProgram.accepted_bodies_have_origins. Qed.
Print Assumptions accepted_bodies_have_origins.

Theorem program_autovar_leaves :
  forall (hl hd hs : N -> bool) (autovars : list (text * autovar)) (switches : list (text * text)) (ee : bool) (fc : fontcfg) 
    (cli_font : text) (cli_maxlen : Z) (s : text) (p : program),
  parse_program autovars switches ee (parse_format fc cli_font cli_maxlen ee) (lex hl hd hs s) = Ok p ->
  forall (body : list stmt) (e : bexp) (l : leaf) (c' : cmd),
  In body (ProgWf.bodies_of (tops p)) ->
  cond_in e body ->
  In l (leaves e) ->
  lpre l = Some c' ->
  exists
    (ps : list patch) (c : cmd) (consts : list (text * text)) (f : nat) (script : text) (tsc : toks) (av : autovar) 
  (impc : impdata) (ts2 : toks),
    c' = pcmd ps c /\
    advs (lex hl hd hs s) tsc /\
    Datatypes.length tsc = Ast.cid c /\
    ttype (cur tsc) = IDENT /\
    cname c = tlit (cur tsc) /\
    ctok c = cur tsc /\
    assoc autovars (cname c) = Some av /\
    command_stmt switches ee (parse_format fc cli_font cli_maxlen ee) consts f script tsc = Ok (c, impc, ts2) /\
    (forall bs cs : list nat,
     try_label tsc = None ->
     parse_stmt autovars switches ee (parse_format fc cli_font cli_maxlen ee) consts (S f) script bs cs tsc = Ok ([SCmd c], impc, ts2)) /\
    lk l = KVar /\ lline l = tline (ctok c) /\ compared_var av c = Some (loperand l).
Proof. exact AutoVarProgram.program_autovar_leaves. Qed.
Print Assumptions program_autovar_leaves.

Theorem program_closed_conditions :
  forall (hl hd hs : N -> bool) (autovars : list (text * autovar)) (switches : list (text * text)) (ee : bool) (fc : fontcfg) 
    (cli_font : text) (cli_maxlen : Z) (s : text) (p : program),
  parse_program autovars switches ee (parse_format fc cli_font cli_maxlen ee) (lex hl hd hs s) = Ok p ->
  forall (body : list stmt) (e : bexp),
  In body (ProgWf.bodies_of (tops p)) ->
  cond_in e body ->
  exists (ps : list patch) (e0 : bexp) (consts : list (text * text)) (f : nat) (script : text) (ts : toks) (imp : impdata) 
  (ts' : toks),
    e = pbexp ps e0 /\
    advs (lex hl hd hs s) ts /\
    bool_expr autovars switches ee (parse_format fc cli_font cli_maxlen ee) consts f false false script ts = Ok (e0, imp, ts') /\
    (ttype (cur ts') = RPAREN ->
     forall (l : leaf) (c' : cmd),
     In l (leaves e) ->
     lpre l = Some c' ->
     exists (c : cmd) (f' : nat) (tsc : toks) (impc : impdata) (ts2 : toks),
       c' = pcmd ps c /\
       advs (lex hl hd hs s) tsc /\
       Datatypes.length tsc = Ast.cid c /\
       (forall bs cs : list nat,
        parse_stmt autovars switches ee (parse_format fc cli_font cli_maxlen ee) consts (S f') script bs cs tsc = Ok ([SCmd c], impc, ts2))).
Proof. exact AutoVarProgram.program_closed_conditions. Qed.
Print Assumptions program_closed_conditions.

Theorem program_plain_leaves :
  forall (hl hd hs : N -> bool) (autovars : list (text * autovar)) (switches : list (text * text)) (ee : bool) (fc : fontcfg) 
    (cli_font : text) (cli_maxlen : Z) (s : text) (p : program),
  parse_program autovars switches ee (parse_format fc cli_font cli_maxlen ee) (lex hl hd hs s) = Ok p ->
  forall (body : list stmt) (e : bexp) (l : leaf),
  In body (ProgWf.bodies_of (tops p)) ->
  cond_in e body ->
  In l (leaves e) ->
  lpre l = None ->
  exists (consts : list (text * text)) (ts0 : toks) (l0 : leaf) (rest : list token) (lf : LeafForms.lform),
    advs (lex hl hd hs s) ts0 /\
    (l = l0 \/ l = neg_leaf l0) /\
    LeafForms.pure_form lf /\
    LeafForms.shape_form lf /\
    ts0 = cur ts0 :: LeafForms.form_toks lf ++ rest /\ l0 = LeafForms.form_leaf autovars consts lf 0 /\ LeafForms.next_ok lf (cur rest).
Proof. exact AutoVarProgram.program_plain_leaves. Qed.
Print Assumptions program_plain_leaves.

Theorem program_switches :
  forall (hl hd hs : N -> bool) (autovars : list (text * autovar)) (switches : list (text * text)) (ee : bool) (fc : fontcfg) 
    (cli_font : text) (cli_maxlen : Z) (s : text) (p : program),
  parse_program autovars switches ee (parse_format fc cli_font cli_maxlen ee) (lex hl hd hs s) = Ok p ->
  forall (body blk l1 : list stmt) (tg : nat) (v : text) (ol : Z) (cases : list (bool * text * Z * list stmt)) (l2 : list stmt),
  In body (ProgWf.bodies_of (tops p)) ->
  block_in blk body ->
  blk = l1 ++ SSwitch tg v ol cases :: l2 ->
  exists ts : toks,
    advs (lex hl hd hs s) ts /\
    Datatypes.length ts = tg /\
    ttype (cur ts) = SWITCH /\
    peekis LPAREN ts = true /\
    (peekis VAR (adv ts) = true /\
     (exists (consts : list (text * text)) (f : nat) (parts : list text) (tsx : toks),
        switch_operand consts f (cur ts) (adv (adv (adv (adv ts)))) [] = Ok (parts, tsx) /\
        v = join sp parts /\ ol = tline (cur (adv (adv (adv (adv ts)))))) \/
     peekis VAR (adv ts) = false /\
     (exists
        (ps : list patch) (c : cmd) (l1' : list stmt) (consts : list (text * text)) (f : nat) (script : text) (av : autovar) 
      (impc : impdata) (ts2 : toks),
        l1 = l1' ++ [SCmd (pcmd ps c)] /\
        cname c = tlit (pk 1 (adv ts)) /\
        ctok c = pk 1 (adv ts) /\
        Ast.cid c = Datatypes.length (adv (adv ts)) /\
        assoc autovars (cname c) = Some av /\
        command_stmt switches ee (parse_format fc cli_font cli_maxlen ee) consts f script (adv (adv ts)) = Ok (c, impc, ts2) /\
        (ttype (pk 1 (adv ts)) = IDENT ->
         try_label (adv (adv ts)) = None ->
         forall bs cs : list nat,
         parse_stmt autovars switches ee (parse_format fc cli_font cli_maxlen ee) consts (S f) script bs cs (adv (adv ts)) =
         Ok ([SCmd c], impc, ts2)) /\ peekis RPAREN ts2 = true /\ compared_var av c = Some v /\ ol = tline (ctok c))).
Proof. exact AutoVarProgram.program_switches. Qed.
Print Assumptions program_switches.

Theorem compiled_autovar_conditions :
  forall (St : Type) (exec : cmd -> St -> stepres St) (flag_set trainer_beaten : text -> St -> bool)
    (cmp_var cmp_var_value : text -> text -> St -> comparison) (case_matches : text -> text -> St -> bool) (hl hd hs : N -> bool)
    (autovars : list (text * autovar)) (switches : list (text * text)) (ee : bool) (fc : fontcfg) (cli_font : text) 
    (cli_maxlen : Z) (src : text) (p : program),
  parse_program autovars switches ee (parse_format fc cli_font cli_maxlen ee) (lex hl hd hs src) = Ok p ->
  forall body : list stmt,
  In body (ProgWf.bodies_of (tops p)) ->
  NoDup (WorkLabels.dlabs body) ->
  forall (mp : option text) (tl : list text) (name : text) (glob optimize : bool) (w : wst) (code : list instr),
  emit_graph body = Emitter.Ok w ->
  emit_script mp tl name glob optimize body = Emitter.Ok code ->
  RenderFromSource.names_okb (finals w) code = true ->
  (Z.of_nat (Datatypes.length (finals w)) <= 10 ^ 40)%Z ->
  ((forall (n : nat) (s : St),
    exists m : nat,
      run sfinal (sstep St exec flag_set trainer_beaten cmp_var cmp_var_value case_matches (fun l : text => SemTgt.fl_body l body Kstop)) n
        (enter body Kstop) s =
      run SemTgt.tfinal (SemTgt.tstep St exec flag_set trainer_beaten cmp_var cmp_var_value case_matches code) m (SemTgt.jump code name) s) /\
   (forall (m : nat) (s : St),
    exists n : nat,
      res_le
        (run SemTgt.tfinal (SemTgt.tstep St exec flag_set trainer_beaten cmp_var cmp_var_value case_matches code) m (SemTgt.jump code name) s)
        (run sfinal (sstep St exec flag_set trainer_beaten cmp_var cmp_var_value case_matches (fun l : text => SemTgt.fl_body l body Kstop)) n
           (enter body Kstop) s))) /\
  (forall (e : bexp) (l : leaf) (c' : cmd),
   cond_in e body ->
   In l (leaves e) ->
   lpre l = Some c' ->
   (exists (ps : list patch) (c : cmd) (av : autovar),
      c' = pcmd ps c /\ assoc autovars (cname c) = Some av /\ compared_var av c = Some (loperand l)) /\
   (forall s : St,
    eval_leaf St exec flag_set trainer_beaten cmp_var cmp_var_value l s =
    match exec c' s with
    | Continue _ s' => ([c'], s', Some (cmp_holds (lop l) ((if lstrict l then cmp_var_value else cmp_var) (loperand l) (lvalue l) s')))
    | Stop _ => ([c'], s, None)
    end)) /\
  (forall (blk l1 : list stmt) (tg : nat) (v : text) (ol : Z) (cases : list (bool * text * Z * list stmt)) (l2 : list stmt),
   block_in blk body ->
   blk = l1 ++ SSwitch tg v ol cases :: l2 ->
   exists ts : toks,
     advs (lex hl hd hs src) ts /\
     Datatypes.length ts = tg /\
     ttype (cur ts) = SWITCH /\
     (peekis VAR (adv ts) = false ->
      exists (ps : list patch) (c : cmd) (l1' : list stmt) (av : autovar),
        l1 = l1' ++ [SCmd (pcmd ps c)] /\ cname c = tlit (pk 1 (adv ts)) /\ assoc autovars (cname c) = Some av /\ compared_var av c = Some v)).
Proof. exact AutoVarProgram.compiled_autovar_conditions. Qed.
Print Assumptions compiled_autovar_conditions.

Theorem autovar_leaf_is_command_then_plain_leaf :
  forall (St : Type) (exec : cmd -> St -> stepres St) (flag_set trainer_beaten : text -> St -> bool)
    (cmp_var cmp_var_value : text -> text -> St -> comparison) (l : leaf) (p : cmd) (s : St),
  lpre l = Some p ->
  eval_leaf St exec flag_set trainer_beaten cmp_var cmp_var_value l s =
  match exec p s with
  | Continue _ s' => let '(ev, s2, r) := eval_leaf St exec flag_set trainer_beaten cmp_var cmp_var_value (plain_of l) s' in ([p] ++ ev, s2, r)
  | Stop _ => ([p], s, None)
  end.
Proof. exact AutoVarProgram.autovar_leaf_is_command_then_plain_leaf. Qed.
Print Assumptions autovar_leaf_is_command_then_plain_leaf.

Theorem command_statement_step :
  forall (St : Type) (exec : cmd -> St -> stepres St) (flag_set trainer_beaten : text -> St -> bool)
    (cmp_var cmp_var_value : text -> text -> St -> comparison) (case_matches : text -> text -> St -> bool) (find_label : text -> option sstate)
    (c : cmd) (rest : list stmt) (k : cont) (s s' : St),
  is_name c "end" = false ->
  is_name c "return" = false ->
  is_name c "goto" = false ->
  exec c s = Continue St s' ->
  sstep St exec flag_set trainer_beaten cmp_var cmp_var_value case_matches find_label (SRun (SCmd c) rest k) s = ([c], enter rest k, s').
Proof. exact AutoVarProgram.command_statement_step. Qed.
Print Assumptions command_statement_step.

Theorem command_then_switch_steps :
  forall (St : Type) (exec : cmd -> St -> stepres St) (flag_set trainer_beaten : text -> St -> bool)
    (cmp_var cmp_var_value : text -> text -> St -> comparison) (case_matches : text -> text -> St -> bool) (find_label : text -> option sstate)
    (c : cmd) (tg : nat) (v : text) (ol : Z) (cases : list (bool * text * Z * list stmt)) (rest : list stmt) (k : cont) 
    (s s' : St),
  is_name c "end" = false ->
  is_name c "return" = false ->
  is_name c "goto" = false ->
  exec c s = Continue St s' ->
  sstep St exec flag_set trainer_beaten cmp_var cmp_var_value case_matches find_label (SRun (SCmd c) (SSwitch tg v ol cases :: rest) k) s =
  ([c], SRun (SSwitch tg v ol cases) rest k, s') /\
  sstep St exec flag_set trainer_beaten cmp_var cmp_var_value case_matches find_label (SRun (SSwitch tg v ol cases) rest k) s' =
  ([], enter (select_case cases (fun x : text => case_matches v x s')) (Kswitch tg (kseq rest k)), s').
Proof. exact AutoVarProgram.command_then_switch_steps. Qed.
Print Assumptions command_then_switch_steps.

Theorem condition_events_are_preambles_in_order :
  forall (St : Type) (exec : cmd -> St -> stepres St) (flag_set trainer_beaten : text -> St -> bool)
    (cmp_var cmp_var_value : text -> text -> St -> comparison) (e : bexp) (s : St),
  subseq (Datatypes.fst (Datatypes.fst (eval_bexp St exec flag_set trainer_beaten cmp_var cmp_var_value e s))) (preambles e).
Proof. exact AutoVarProgram.condition_events_are_preambles_in_order. Qed.
Print Assumptions condition_events_are_preambles_in_order.

