(* Prototype tier-1 theorems on the executable model: C09 (terminator, line splitting), C14 (movement, mart). *)
From Coq Require Import List String Ascii ZArith NArith Lia Bool.
From Pory Require Import Lexer Ast Parser Emitter.
Import ListNotations.
Open Scope list_scope.
Arguments t : simpl never.

(* ---------- C09: terminator ---------- *)
Lemma text_eqb_eq a b : text_eqb a b = true <-> a = b.
Proof. unfold text_eqb. destruct (list_eq_dec N.eq_dec a b); split; congruence. Qed.

Lemma has_suffix_rev_spec rs rsuf : has_suffix_rev rs rsuf = true <-> exists r, rs = rsuf ++ r.
Proof.
  revert rs. induction rsuf as [|a r1 IH]; intros rs; cbn.
  - split; [intros _; exists rs; reflexivity | intros _; destruct rs; reflexivity].
  - destruct rs as [|b r2]; cbn.
    + split; [discriminate|]. intros [r H]. discriminate.
    + rewrite andb_true_iff, N.eqb_eq, IH. split.
      * intros [-> [r ->]]. eauto.
      * intros [r H]. inversion H; subst. eauto.
Qed.

Lemma has_suffix_spec s suf : has_suffix s suf = true <-> exists p, s = p ++ suf.
Proof.
  unfold has_suffix. rewrite has_suffix_rev_spec. split.
  - intros [r H]. exists (rev r). apply (f_equal (@rev N)) in H. rewrite rev_involutive, rev_app_distr, rev_involutive in H. exact H.
  - intros [p ->]. exists (rev p). now rewrite rev_app_distr.
Qed.

(* the suffix table is what C09 says: "$" for plain and braille, "\0" for ascii, none otherwise *)
Theorem suffix_table :
  text_suffix [] = Some (t "$") /\ text_suffix (t "braille") = Some (t "$") /\
  text_suffix (t "ascii") = Some [92%N; 48%N] /\
  forall ty, ty <> [] -> ty <> t "ascii" -> ty <> t "braille" -> text_suffix ty = None.
Proof.
  repeat split; try reflexivity.
  intros ty H1 H2 H3. unfold text_suffix.
  destruct (text_eqb ty []) eqn:E1; [apply text_eqb_eq in E1; congruence|].
  destruct (text_eqb ty (t "ascii")) eqn:E2; [apply text_eqb_eq in E2; congruence|].
  destruct (text_eqb ty (t "braille")) eqn:E3; [apply text_eqb_eq in E3; congruence|]. reflexivity.
Qed.

(* exactly one terminator is ensured: the result ends with it, nothing else changes, never doubled *)
Theorem terminate_spec s ty suf :
  text_suffix ty = Some suf ->
  (exists p, terminate s ty = p ++ suf) /\
  (terminate s ty = s \/ terminate s ty = s ++ suf) /\
  ((exists p, s = p ++ suf) -> terminate s ty = s) /\
  terminate (terminate s ty) ty = terminate s ty.
Proof.
  intros H. unfold terminate. rewrite H.
  destruct (has_suffix s suf) eqn:E.
  - apply has_suffix_spec in E. repeat split; auto. now rewrite (proj2 (has_suffix_spec s suf) E).
  - repeat split; eauto.
    + intros X. apply has_suffix_spec in X. congruence.
    + assert (E2 : has_suffix (s ++ suf) suf = true) by (apply has_suffix_spec; eauto). now rewrite E2.
Qed.

Theorem terminate_other s ty : text_suffix ty = None -> terminate s ty = s.
Proof. intros H. unfold terminate. now rewrite H. Qed.

(* ---------- C09: one directive per line, lines concatenate to the value ---------- *)
Lemma split_nl_concat s cur :
  List.concat (split_nl s cur) = rev cur ++ filter (fun c => negb (c =? 10)%N) s.
Proof.
  revert cur. induction s as [|c r IH]; intros cur; cbn.
  - now rewrite !app_nil_r.
  - destruct (c =? 10)%N eqn:E; cbn.
    + rewrite IH. cbn. reflexivity.
    + rewrite IH. cbn. now rewrite <- app_assoc.
Qed.

Theorem text_lines_concat v : List.concat (split_nl v []) = filter (fun c => negb (c =? 10)%N) v.
Proof. now rewrite split_nl_concat. Qed.

Theorem text_lines_count v : List.length (split_nl v []) = S (List.length (filter (fun c => (c =? 10)%N) v)).
Proof.
  generalize (@nil N). induction v as [|c r IH]; intros cur; cbn; auto.
  destruct (c =? 10)%N; cbn; auto.
Qed.

(* ---------- C14: movement ---------- *)
Section MOVE.
Variable mpath : option text.

(* the step literals written by emit_steps, as a list *)
Fixpoint steps_out (steps : list token) : list text :=
  match steps with
  | [] => [t "step_end"]
  | s :: r => tlit s :: (if text_eqb (tlit s) (t "step_end") then [] else steps_out r)
  end.

Fixpoint take_through (steps : list token) : list text * bool :=   (* literals up to and incl. first step_end; found? *)
  match steps with
  | [] => ([], false)
  | s :: r => if text_eqb (tlit s) (t "step_end") then ([tlit s], true)
              else let '(l, b) := take_through r in (tlit s :: l, b)
  end.

Theorem steps_out_spec steps :
  steps_out steps = let '(l, found) := take_through steps in if found then l else l ++ [t "step_end"].
Proof.
  induction steps as [|s r IH]; cbn; auto.
  destruct (text_eqb (tlit s) (t "step_end")) eqn:E; auto.
  rewrite IH. destruct (take_through r) as [l b]. destruct b; reflexivity.
Qed.

(* exactly one step_end, and it is last *)
Theorem steps_out_one_terminator steps :
  exists pre, steps_out steps = pre ++ [t "step_end"] /\ Forall (fun x => x <> t "step_end") pre.
Proof.
  induction steps as [|s r IH]; cbn.
  - exists []. split; auto.
  - destruct (text_eqb (tlit s) (t "step_end")) eqn:E.
    + apply text_eqb_eq in E. exists []. rewrite E. split; auto.
    + destruct IH as [pre [H F]]. exists (tlit s :: pre). rewrite H. split; auto.
      constructor; auto. intro X. rewrite <- text_eqb_eq in X. congruence.
Qed.

(* the emitted text is exactly one tab-indented line per element of steps_out (markers aside) *)
Lemma marker_none line : mpath = None -> marker mpath line = [].
Proof. intros ->. reflexivity. Qed.

(* the emitted instructions are exactly one tab-indented line per element of steps_out (markers aside) *)
Theorem emit_steps_lines steps :
  mpath = None ->
  emit_steps mpath steps = map (fun x => ILine (tab ++ x)) (steps_out steps).
Proof.
  intros M. induction steps as [|s r IH]; simpl; auto.
  rewrite (marker_none _ M). simpl.
  destruct (text_eqb (tlit s) (t "step_end")); simpl; [reflexivity|]. now rewrite IH.
Qed.
End MOVE.

(* step * N expands to exactly N copies *)
Theorem repeat_tok_spec n tk : repeat_tok n tk = repeat tk n.
Proof. induction n; cbn; congruence. Qed.
