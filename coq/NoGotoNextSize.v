(* C05 (c2) and (d) WITHOUT the size premise.

   NoGotoNext.v / OptimSame.v prove "no compiler-generated goto targets the label on the very next line" and "no generated
   sub-label is emitted that nothing refers to" under the premise
       Z.of_nat (length (finals w)) <= 10 ^ 40
   (the model prints chunk ids with 40 decimal digits; the premise gives the injectivity of lbl name i on chunk ids).
   ProgramClosed.graph_size shows that the premise always holds: emit_graph runs the worklist with work_fuel = 10000 steps and
   each step adds at most one chunk to finals, so a chunk graph has at most 10000 chunks.  This file discharges the premise in
   every main theorem of NoGotoNext.v (and in the theorems of OptimSame.v that Properties_C05.v quotes with the premise).

   MAIN STATEMENTS, in words (all for BOTH settings of -optimize unless stated; `skip` = blank line or line marker)
   graph_size_holds                          every chunk graph emit_graph returns satisfies the old premise.
   no_goto_to_next_label_unoptimized_nosize  -optimize off, one script with a source-checked, well-scoped body: the code is never
                                             pre ++ goto l :: mid ++ l: :: post with mid made of skip lines only.
   no_goto_to_next_label_nosize              the same for either setting.
   no_goto_to_next_label_from_source_nosize  the same for every script body of every program accepted by parse_program.
   program_segments_ok_nosize                the final code of every accepted program is the concatenation of the segments of
                                             OptimSame.program_pieces; data segments are emitted as they are; every script
                                             segment is the emit_script code of a body of the program, has no goto followed by
                                             its own label (c2) and all its label lines are accounted for (d): the script label,
                                             an author's label, or a generated sub-label name_i (i > 0) that a jump line of the
                                             same segment targets.  NO premise besides acceptance of the program.
   program_no_goto_to_next_label_nosize      (c2) for the final code as ONE instruction list; the only premise left is that the
                                             label names of the output are pairwise distinct (NoDup (lnames code)); that premise
                                             is needed (NoGotoNext.NGEXAMPLES.flat_statement_needs_distinct_labels).
   script_goto_target_defined_nosize         the label a generated goto names is defined in the code of the same script.
   from OptimSame.v:
   optimized_gotos_go_backward_nosize, no_goto_to_a_later_label_optimized_nosize, goto_to_next_label_partial_nosize,
   no_goto_to_next_label_checked_nosize, optimized_gotos_go_backward_from_source_nosize: the OptimSame.v statements minus the
                                             premise.
   graph-free forms (the witness w of emit_graph is removed too, it is obtained from emit_script = Ok):
   no_goto_to_next_label_closed              src_ok body -> scoped None None body -> emit_script .. opt body = Ok code ->
                                             no_goto_to_next code.
   no_goto_to_next_label_from_source_closed  In body (bodies_of (tops p)) -> emit_script .. opt body = Ok code ->
                                             no_goto_to_next code /\ label_lines_accounted name glob body code.
   optimized_gotos_go_backward_closed        src_ok body -> emit_script .. true body = Ok code -> every goto goes backward.
   EXAMPLES: the hypotheses hold on concrete sources (reusing NoGotoNext.NGEXAMPLES), and the statements without premise are
   applied to them. *)
From Coq Require Import List String Ascii ZArith NArith Lia Bool Permutation.
From Pory Require Import Lexer Ast Emitter EmitProps RenderSim RenderCheck C17Proofs Worklist WorkRefs WorkLabels WorkShape
  OrderPerm LabelsUnique LabelSim Tr NameClash RenderFromSource OptimSame NoGotoNext.
From Pory Require Import Parser Format ProgWf ProgSrc.
From Pory Require ProgramClosed.
Import ListNotations.
Open Scope list_scope.

(* ================================================================================================================== *)
(* Part 0: the premise always holds                                                                                    *)
(* ================================================================================================================== *)
Theorem graph_size_holds body w : emit_graph body = Emitter.Ok w -> (Z.of_nat (List.length (finals w)) <= 10 ^ 40)%Z.
Proof. exact (ProgramClosed.graph_size body w). Qed.

(* ================================================================================================================== *)
(* Part 1: one script                                                                                                  *)
(* ================================================================================================================== *)
(* THEOREM (c2), -optimize off *)
Theorem no_goto_to_next_label_unoptimized_nosize mp tl name glob body w code :
  emit_graph body = Emitter.Ok w -> src_ok body -> scoped None None body ->
  emit_script mp tl name glob false body = Emitter.Ok code ->
  forall pre l mid g post, code = pre ++ IGoto l :: mid ++ ILabel l g :: post -> Forall skip mid -> False.
Proof.
  intros HW HS HSC.
  exact (no_goto_to_next_label_unoptimized mp tl name glob body w code HW HS HSC (graph_size_holds body w HW)).
Qed.

(* THEOREM (c2), either setting *)
Theorem no_goto_to_next_label_nosize mp tl name glob body w opt code :
  emit_graph body = Emitter.Ok w -> src_ok body -> scoped None None body ->
  emit_script mp tl name glob opt body = Emitter.Ok code ->
  forall pre l mid g post, code = pre ++ IGoto l :: mid ++ ILabel l g :: post -> Forall skip mid -> False.
Proof.
  intros HW HS HSC.
  exact (no_goto_to_next_label mp tl name glob body w opt code HW HS HSC (graph_size_holds body w HW)).
Qed.

(* the label a generated goto names is defined in the code of the same script *)
Theorem script_goto_target_defined_nosize mp tl name glob body w opt code :
  emit_graph body = Emitter.Ok w -> src_ok body ->
  emit_script mp tl name glob opt body = Emitter.Ok code ->
  forall a l b, code = a ++ IGoto l :: b -> In l (lnames code).
Proof.
  intros HW HS.
  exact (script_goto_target_defined mp tl name glob body w HW HS (graph_size_holds body w HW) opt code).
Qed.

(* ---------- the theorems of OptimSame.v quoted in Properties_C05.v with the premise ---------- *)
Theorem optimized_gotos_go_backward_nosize mp tl name glob body w code :
  emit_graph body = Emitter.Ok w -> src_ok body ->
  emit_script mp tl name glob true body = Emitter.Ok code ->
  forall pre l post, code = pre ++ IGoto l :: post -> ~ In l (lnames post).
Proof.
  intros HW HS. exact (optimized_gotos_go_backward mp tl name glob body w code HW HS (graph_size_holds body w HW)).
Qed.

Theorem no_goto_to_a_later_label_optimized_nosize mp tl name glob body w code :
  emit_graph body = Emitter.Ok w -> src_ok body ->
  emit_script mp tl name glob true body = Emitter.Ok code ->
  forall pre l mid g post, code = pre ++ IGoto l :: mid ++ ILabel l g :: post -> False.
Proof.
  intros HW HS. exact (no_goto_to_a_later_label_optimized mp tl name glob body w code HW HS (graph_size_holds body w HW)).
Qed.

(* PARTIAL in OptimSame.v (bodies that need not be well scoped); kept for completeness, superseded for well-scoped bodies by
   no_goto_to_next_label_nosize *)
Theorem goto_to_next_label_partial_nosize mp tl name glob body w opt code :
  emit_graph body = Emitter.Ok w -> src_ok body ->
  emit_script mp tl name glob opt body = Emitter.Ok code ->
  forall pre l mid g post, code = pre ++ IGoto l :: mid ++ ILabel l g :: post -> Forall skip mid ->
  exists l1 A B l2 cA cB,
    order_of opt (finals w) = l1 ++ A :: B :: l2 /\ get_chunk (finals w) A = Some cA /\ get_chunk (finals w) B = Some cB /\
    l = lbl name (tail_of cA) /\ tail_of cA <> B /\ B <> 0%Z /\ cstmts cB = [] /\ ~ In (lbl name B) (targets_of code).
Proof.
  intros HW HS. exact (goto_to_next_label_partial mp tl name glob body w opt code HW HS (graph_size_holds body w HW)).
Qed.

Theorem no_goto_to_next_label_checked_nosize mp tl name glob body w opt code :
  emit_graph body = Emitter.Ok w -> src_ok body ->
  emit_script mp tl name glob opt body = Emitter.Ok code ->
  no_dead_empty_chunk name (finals w) code = true ->
  forall pre l mid g post, code = pre ++ IGoto l :: mid ++ ILabel l g :: post -> Forall skip mid -> False.
Proof.
  intros HW HS. exact (no_goto_to_next_label_checked mp tl name glob body w opt code HW HS (graph_size_holds body w HW)).
Qed.

(* ---------- graph-free forms: the witness w is obtained from emit_script = Ok ---------- *)
Lemma emit_script_graph mp tl name glob opt body code :
  emit_script mp tl name glob opt body = Emitter.Ok code -> exists w, emit_graph body = Emitter.Ok w.
Proof.
  intros H. destruct (emit_graph body) as [w| | | |] eqn:HW; try (rewrite emit_script_eq, HW in H; discriminate H).
  exists w. reflexivity.
Qed.

Theorem no_goto_to_next_label_closed mp tl name glob body opt code :
  src_ok body -> scoped None None body ->
  emit_script mp tl name glob opt body = Emitter.Ok code -> no_goto_to_next code.
Proof.
  intros HS HSC H. destruct (emit_script_graph _ _ _ _ _ _ _ H) as [w HW]. intros pre l mid g post.
  exact (no_goto_to_next_label_nosize mp tl name glob body w opt code HW HS HSC H pre l mid g post).
Qed.

Theorem optimized_gotos_go_backward_closed mp tl name glob body code :
  src_ok body ->
  emit_script mp tl name glob true body = Emitter.Ok code ->
  forall pre l post, code = pre ++ IGoto l :: post -> ~ In l (lnames post).
Proof.
  intros HS H. destruct (emit_script_graph _ _ _ _ _ _ _ H) as [w HW].
  exact (optimized_gotos_go_backward_nosize mp tl name glob body w code HW HS H).
Qed.

(* ================================================================================================================== *)
(* Part 2: every accepted program                                                                                      *)
(* ================================================================================================================== *)
Section FROM_SOURCE.
Variables (hl hd hs : N -> bool) (autovars : list (text * autovar)) (switches : list (text * text)) (ee : bool)
          (fc : fontcfg) (cli_font : text) (cli_maxlen : Z) (src : text) (p : program).
Hypothesis HP : parse_program autovars switches ee (parse_format fc cli_font cli_maxlen ee) (lex hl hd hs src) = Parser.Ok p.

Lemma sizes_hold : forall body w, In body (bodies_of (tops p)) -> emit_graph body = Emitter.Ok w ->
  (Z.of_nat (List.length (finals w)) <= 10 ^ 40)%Z.
Proof. intros body w _ HW. exact (graph_size_holds body w HW). Qed.

(* THEOREM (c2), every script body of every accepted program, BOTH settings *)
Theorem no_goto_to_next_label_from_source_nosize body mp tl name glob w opt code :
  In body (bodies_of (tops p)) -> emit_graph body = Emitter.Ok w ->
  emit_script mp tl name glob opt body = Emitter.Ok code ->
  forall pre l mid g post, code = pre ++ IGoto l :: mid ++ ILabel l g :: post -> Forall skip mid -> False.
Proof.
  intros HB HW.
  exact (no_goto_to_next_label_from_source hl hd hs autovars switches ee fc cli_font cli_maxlen src p HP
           body mp tl name glob w opt code HB HW (graph_size_holds body w HW)).
Qed.

(* THEOREM (c2) + (d), graph-free: every script body of every accepted program, both settings *)
Theorem no_goto_to_next_label_from_source_closed body mp tl name glob opt code :
  In body (bodies_of (tops p)) ->
  emit_script mp tl name glob opt body = Emitter.Ok code ->
  no_goto_to_next code /\ label_lines_accounted name glob body code.
Proof.
  intros HB H. split.
  - destruct (emit_script_graph _ _ _ _ _ _ _ H) as [w HW]. intros pre l mid g post.
    exact (no_goto_to_next_label_from_source_nosize body mp tl name glob w opt code HB HW H pre l mid g post).
  - exact (script_label_lines_from_source hl hd hs autovars switches ee fc cli_font cli_maxlen src p HP
             body mp tl name glob opt code HB H).
Qed.

Theorem optimized_gotos_go_backward_from_source_nosize body mp tl name glob w code :
  In body (bodies_of (tops p)) -> emit_graph body = Emitter.Ok w ->
  emit_script mp tl name glob true body = Emitter.Ok code ->
  forall pre l post, code = pre ++ IGoto l :: post -> ~ In l (lnames post).
Proof.
  intros HB HW.
  exact (optimized_gotos_go_backward_from_source hl hd hs autovars switches ee fc cli_font cli_maxlen src p HP
           body mp tl name glob w code HB HW (graph_size_holds body w HW)).
Qed.

(* THEOREM (c2) + (d), the final code of every accepted program, both settings, no further premise *)
Theorem program_segments_ok_nosize opt mp code :
  emit_program_instrs opt mp p = Emitter.Ok code ->
  exists segs : list (list instr),
    Forall2 (segment_ok mp (map xname (texts p)) opt) (program_pieces mp p) segs /\ code = List.concat segs.
Proof.
  exact (program_segments_ok hl hd hs autovars switches ee fc cli_font cli_maxlen src p HP opt mp code sizes_hold).
Qed.

(* THEOREM (c2), the final code of every accepted program as one instruction list, both settings; the premise that the label
   names the output defines are pairwise distinct stays (it is needed: NGEXAMPLES.flat_statement_needs_distinct_labels) *)
Theorem program_no_goto_to_next_label_nosize opt mp code :
  emit_program_instrs opt mp p = Emitter.Ok code ->
  NoDup (lnames code) ->
  forall pre l mid g post, code = pre ++ IGoto l :: mid ++ ILabel l g :: post -> Forall skip mid -> False.
Proof.
  exact (program_no_goto_to_next_label hl hd hs autovars switches ee fc cli_font cli_maxlen src p HP opt mp code sizes_hold).
Qed.
End FROM_SOURCE.
(* ================================================================================================================== *)
(* Part 3: the hypotheses are satisfiable; the statements applied to concrete sources                                  *)
(* ================================================================================================================== *)
Module NSEXAMPLES.
Import NGEXAMPLES.
Local Open Scope string_scope.
Notation PARSE s := (parse_program [] [] true (parse_format fc0 [] 0%Z true) (lex nf nf nf (t s))).

(* (1) nested loops without condition (NGEXAMPLES.src1 = "script A { while { while { lock } } }"): the hypotheses of the
   one-script theorems hold and the graph-free theorem applies, both settings *)
Example ex1_closed :
  src_ok body1 /\ scoped None None body1 /\
  (forall opt, exists code, emit_script None [] (t "A") true opt body1 = Emitter.Ok code /\ no_goto_to_next code /\
                            label_lines_accounted (t "A") true body1 code) /\
  (exists code, emit_script None [] (t "A") true true body1 = Emitter.Ok code /\
                forall pre l post, code = (pre ++ IGoto l :: post)%list -> ~ In l (lnames post)).
Proof.
  destruct ex1_hyps as (P & B & HW & S1 & S2 & _).
  split; [exact S1|]. split; [exact S2|]. split.
  - intros opt.
    assert (E : exists code, emit_script None [] (t "A") true opt body1 = Emitter.Ok code)
      by (destruct opt; eexists; vm_compute; reflexivity).
    destruct E as (code & H). exists code. split; [exact H|].
    exact (no_goto_to_next_label_from_source_closed nf nf nf [] [] true fc0 [] 0%Z (t src1) (prog_of src1) P
             body1 None [] (t "A") true opt code B H).
  - eexists. split; [vm_compute; reflexivity|].
    apply (optimized_gotos_go_backward_closed None [] (t "A") true body1 _ S1). vm_compute. reflexivity.
Qed.

(* (2) a program with data pieces and three scripts (OptimSame.EXAMPLES.ex_src), both settings: the program theorems apply with
   no premise besides acceptance (and NoDup (lnames code) for the flat form) *)
Example ex2_program_nosize :
  PARSE OptimSame.EXAMPLES.ex_src = Parser.Ok p2 /\
  forall opt, exists code, emit_program_instrs opt None p2 = Emitter.Ok code /\ NoDup (lnames code) /\
    (forall pre l mid g post, code = (pre ++ IGoto l :: mid ++ ILabel l g :: post)%list -> Forall skip mid -> False) /\
    exists segs, Forall2 (segment_ok None (map xname (texts p2)) opt) (program_pieces None p2) segs /\ code = List.concat segs.
Proof.
  assert (P : PARSE OptimSame.EXAMPLES.ex_src = Parser.Ok p2) by (vm_compute; reflexivity).
  split; [exact P|]. intros opt.
  assert (E : exists code, emit_program_instrs opt None p2 = Emitter.Ok code /\ ndb (lnames code) = true).
  { destruct opt; eexists; (split; [vm_compute; reflexivity|vm_compute; reflexivity]). }
  destruct E as (code & H & N). exists code. split; [exact H|]. apply ndb_sound in N. split; [exact N|]. split.
  - exact (program_no_goto_to_next_label_nosize nf nf nf [] [] true fc0 [] 0%Z (t OptimSame.EXAMPLES.ex_src) p2 P opt None code H N).
  - exact (program_segments_ok_nosize nf nf nf [] [] true fc0 [] 0%Z (t OptimSame.EXAMPLES.ex_src) p2 P opt None code H).
Qed.

(* (3) the unoptimized output of NGEXAMPLES.src4 has forward gotos; the theorem with the graph witness applies *)
Example ex4_nosize : no_goto_to_next (code_of src4 false) /\ no_goto_to_next (code_of src4 true).
Proof.
  assert (P : PARSE src4 = Parser.Ok (prog_of src4)) by (vm_compute; reflexivity).
  assert (B : In (NameClash.body_of src4) (bodies_of (tops (prog_of src4)))) by (vm_compute; left; reflexivity).
  destruct (emit_graph (NameClash.body_of src4)) as [w| | | |] eqn:HW; try (vm_compute in HW; discriminate HW).
  split; intros pre l mid g post.
  - apply (no_goto_to_next_label_from_source_nosize nf nf nf [] [] true fc0 [] 0%Z (t src4) (prog_of src4) P (NameClash.body_of src4) None [] (t "A") true w false); [exact B|exact HW|vm_compute; reflexivity].
  - apply (no_goto_to_next_label_from_source_nosize nf nf nf [] [] true fc0 [] 0%Z (t src4) (prog_of src4) P (NameClash.body_of src4) None [] (t "A") true w true); [exact B|exact HW|vm_compute; reflexivity].
Qed.
End NSEXAMPLES.
