(* The tables the hand-written model uses are the tables of the Go sources (coq/Tables.v is regenerated from /repo on
   every run): checked by computation.  If a table of the Go code changes, one of these lemmas no longer checks. *)
From Coq Require Import List String ZArith NArith Bool.
From Pory Require Import Lexer Ast Parser Format Tables.
Import ListNotations.
Open Scope list_scope.

Lemma keywords_agree : go_keywords = keywords.
Proof. reflexivity. Qed.

Definition all_toktypes : list toktype :=
  [ ILLEGAL; EOF; IDENT; INT; STRING; RAWSTRING; STRINGTYPE; ASSIGN; EQ; NEQ; LT; GT; LTE; GTE; AND; OR; NOT; MUL;
    COMMA; COLON; LPAREN; RPAREN; LBRACE; RBRACE; LBRACKET; RBRACKET; SCRIPT; RAW; TEXT; MOVEMENT; MART; MAPSCRIPTS; FORMAT;
    VAR; FLAG; DEFEATED; TRUE; FALSE; IF; ELSE; ELSEIF; DO; WHILE; BREAK; CONTINUE; SWITCH; CASE; DEFAULT; GLOBAL; LOCAL;
    PORYSWITCH; CONST; VALUE; MOVES ].
Lemma all_toktypes_complete ty : In ty all_toktypes.
Proof. destruct ty; cbn; tauto. Qed.

Lemma toplevel_agree : forall ty, is_toplevel ty = existsb (tt_eqb ty) go_toplevel.
Proof. intros ty. destruct ty; reflexivity. Qed.

(* textSuffixes: the model's text_suffix is the lookup in the Go table *)
Lemma text_suffix_agree : forall ty, text_suffix ty = assoc go_text_suffixes ty.
Proof.
  intros ty. unfold text_suffix, go_text_suffixes. cbn [assoc].
  assert (S : forall a b, text_eqb a b = text_eqb b a).
  { intros a b. unfold text_eqb. destruct (list_eq_dec N.eq_dec a b), (list_eq_dec N.eq_dec b a); congruence. }
  rewrite (S [] ty), (S (t "ascii") ty), (S (t "braille") ty). reflexivity.
Qed.

Lemma named_parameters_agree : go_named_parameters = named_params.
Proof. reflexivity. Qed.

(* the operator-negation table: comparison operators and the two connectives *)
Definition tok_of_cmpop (o : cmpop) : toktype := match o with OEq => EQ | ONe => NEQ | OLt => LT | OLe => LTE | OGt => GT | OGe => GTE end.
Definition tok_of_bop (o : bop) : toktype := match o with BAnd => AND | BOr => OR end.
Fixpoint lookup_neg (l : list (toktype * toktype)) (x : toktype) : toktype :=
  match l with [] => x | (a, b) :: r => if tt_eqb a x then b else lookup_neg r x end.
Lemma negation_agree_cmp : forall o, tok_of_cmpop (negate_op o) = lookup_neg go_negation (tok_of_cmpop o).
Proof. destruct o; reflexivity. Qed.
Lemma negation_agree_bop : forall o, tok_of_bop (negate_bop o) = lookup_neg go_negation (tok_of_bop o).
Proof. destruct o; reflexivity. Qed.

Lemma multiplier_bounds_agree : go_multiplier_min_rejected = 0%Z /\ go_multiplier_max = 9999%Z.
Proof. split; reflexivity. Qed.

Lemma test_font_agree : go_test_font_id = testFontID.
Proof. reflexivity. Qed.
Lemma fallback_width_agree : go_fallback_width = 0%Z.
Proof. reflexivity. Qed.
