(* C01: every script body of an accepted program passes the source check of lemma 1 (src_ok): the premise src_okb of the
   end-to-end theorem is a theorem about the parser. *)
From Coq Require Import List String Ascii ZArith NArith Lia Bool.
From Pory Require Import Lexer Ast Parser Emitter Sem2 Tr LabelSim RenderCheck Worklist Consume SrcWf ProgWf LexLayout.
Import ListNotations.
Open Scope list_scope.

(* ---------- boolean characterisations of the two nested checks ---------- *)
Lemma swf1b_if_eq conds els : swf1b (SIf conds els) =
  forallb (fun cb : bexp * list stmt => swfb (snd cb)) conds && match els with Some b => swfb b | None => true end.
Proof.
  change (swf1b (SIf conds els)) with
    ((fix go (cs : list (bexp * list stmt)) : bool := match cs with [] => true | (_, b) :: r => swfl_local b && go r end) conds &&
     match els with Some b => swfl_local b | None => true end).
  assert (B : match els with Some b => swfl_local b | None => true end = match els with Some b => swfb b | None => true end) by (destruct els; [apply swfl_local_eq|reflexivity]).
  rewrite B. f_equal; try (induction conds as [|[e b] r IH]; [reflexivity|]; cbn; rewrite IH, swfl_local_eq; reflexivity).
Qed.
Lemma ifok1b_if_eq conds els : ifok1b (SIf conds els) =
  negb (match conds with [] => true | _ => false end) && forallb (fun cb : bexp * list stmt => ifokb (snd cb)) conds &&
  match els with Some b => ifokb b | None => true end.
Proof.
  change (ifok1b (SIf conds els)) with
      (negb (match conds with [] => true | _ => false end) &&
       (fix go (cs : list (bexp * list stmt)) : bool := match cs with [] => true | (_, b) :: r => ifok_local b && go r end) conds &&
       match els with Some b => ifok_local b | None => true end).
  assert (B : match els with Some b => ifok_local b | None => true end = match els with Some b => ifokb b | None => true end) by (destruct els; [apply ifok_local_eq|reflexivity]).
  rewrite B. f_equal; try (f_equal; try (induction conds as [|[e b] r IH]; [reflexivity|]; cbn; rewrite IH, ifok_local_eq; reflexivity)).
Qed.
Lemma swf1b_switch_eq tg op ol cases : swf1b (SSwitch tg op ol cases) = wf_casesb cases && forallb (fun c : scase => swfb (sc_body c)) cases.
Proof.
  change (swf1b (SSwitch tg op ol cases)) with
    (wf_casesb cases && (fix go (cs : list scase) : bool := match cs with [] => true | c :: r => swfl_local (sc_body c) && go r end) cases).
  f_equal; try (induction cases as [|c r IH]; [reflexivity|]; cbn; rewrite IH, swfl_local_eq; reflexivity).
Qed.
Lemma ifok1b_switch_eq tg op ol cases : ifok1b (SSwitch tg op ol cases) =
  negb (match cases with [] => true | _ => false end) && forallb (fun c : scase => ifokb (sc_body c)) cases.
Proof.
  change (ifok1b (SSwitch tg op ol cases)) with
      (negb (match cases with [] => true | _ => false end) &&
       (fix go (cs : list scase) : bool := match cs with [] => true | c :: r => ifok_local (sc_body c) && go r end) cases).
  f_equal; try reflexivity; try (induction cases as [|c r IH]; [reflexivity|cbn; rewrite IH, ifok_local_eq; reflexivity]).
Qed.

Definition rebody (g : list stmt -> list stmt) (c : scase) : scase := (fst (fst (fst c)), snd (fst (fst c)), snd (fst c), g (snd c)).
Lemma case_values_rebody g cases : case_values (map (rebody g) cases) = case_values cases.
Proof. unfold case_values. induction cases as [|[[[d v] l] b] r IH]; [reflexivity|]. cbn [map flat_map]. rewrite IH. reflexivity. Qed.
Lemma filter_def_rebody g cases : List.length (filter (fun c : scase => sc_def c) (map (rebody g) cases)) = List.length (filter (fun c : scase => sc_def c) cases).
Proof. induction cases as [|[[[d v] l] b] r IH]; [reflexivity|]. destruct d; cbn in *; rewrite IH; reflexivity. Qed.
Lemma wf_casesb_rebody g cases : wf_casesb (map (rebody g) cases) = wf_casesb cases.
Proof. unfold wf_casesb. now rewrite case_values_rebody, filter_def_rebody. Qed.

(* ---------- patching hoisted labels into command arguments touches neither ids nor structure ---------- *)
Section PATCH.
Variable ps : list patch.
Definition same1 (s : stmt) : Prop :=
  tags1 (pstmt ps s) = tags1 s /\ swf1b (pstmt ps s) = swf1b s /\ ifok1b (pstmt ps s) = ifok1b s.
Definition samel (ss : list stmt) : Prop :=
  tags (map (pstmt ps) ss) = tags ss /\ swfb (map (pstmt ps) ss) = swfb ss /\ ifokb (map (pstmt ps) ss) = ifokb ss.

Lemma pstmt_same : forall ss, samel ss.
Proof.
  apply (stmts_ind2 same1 samel).
  - repeat split.
  - intros s r (A1 & A2 & A3) (B1 & B2 & B3). unfold samel. cbn [map tags swfb ifokb]. rewrite A1, A2, A3, B1, B2, B3. repeat split.
  - intros c. repeat split.
  - intros n g tk. repeat split.
  - intros conds els HC HE. unfold same1.
    pose (f := fun cb : bexp * list stmt => (pbexp ps (fst cb), map (pstmt ps) (snd cb))).
    change (pstmt ps (SIf conds els)) with (SIf (map f conds) (match els with Some b => Some (map (pstmt ps) b) | None => None end)).
    assert (T : tags_conds (map f conds) = tags_conds conds /\
                forallb (fun cb : bexp * list stmt => swfb (snd cb)) (map f conds) = forallb (fun cb : bexp * list stmt => swfb (snd cb)) conds /\
                forallb (fun cb : bexp * list stmt => ifokb (snd cb)) (map f conds) = forallb (fun cb : bexp * list stmt => ifokb (snd cb)) conds).
    { clear HE. induction HC as [|[e b] r (H1 & H2 & H3) _ (I1 & I2 & I3)]; [repeat split|]. unfold tags_conds in *. cbn in *. rewrite H1, H2, H3, I1, I2, I3. repeat split. }
    destruct T as (T1 & T2 & T3).
    assert (E : tags_opt (match els with Some b => Some (map (pstmt ps) b) | None => None end) = tags_opt els /\
                match (match els with Some b => Some (map (pstmt ps) b) | None => None end) with Some b => swfb b | None => true end = match els with Some b => swfb b | None => true end /\
                match (match els with Some b => Some (map (pstmt ps) b) | None => None end) with Some b => ifokb b | None => true end = match els with Some b => ifokb b | None => true end).
    { destruct els as [b|]; [destruct HE as (H1 & H2 & H3); cbn; auto|repeat split]. }
    destruct E as (E1 & E2 & E3).
    rewrite !tags1_if, !swf1b_if_eq, !ifok1b_if_eq, T1, T2, T3, E1, E2, E3. repeat split. destruct conds; reflexivity.
  - intros tg c b (H1 & H2 & H3). unfold same1. cbn [pstmt]. rewrite !tags1_while, H1. repeat split.
    + change (swf1b (SWhile tg (match c with Some e => Some (pbexp ps e) | None => None end) (map (pstmt ps) b))) with (swfl_local (map (pstmt ps) b)).
      change (swf1b (SWhile tg c b)) with (swfl_local b). now rewrite !swfl_local_eq.
    + change (ifok1b (SWhile tg (match c with Some e => Some (pbexp ps e) | None => None end) (map (pstmt ps) b))) with (ifok_local (map (pstmt ps) b)).
      change (ifok1b (SWhile tg c b)) with (ifok_local b). now rewrite !ifok_local_eq.
  - intros tg b c (H1 & H2 & H3). unfold same1. cbn [pstmt]. rewrite !tags1_dowhile, H1. repeat split.
    + change (swf1b (SDoWhile tg (map (pstmt ps) b) (pbexp ps c))) with (swfl_local (map (pstmt ps) b)).
      change (swf1b (SDoWhile tg b c)) with (swfl_local b). now rewrite !swfl_local_eq.
    + change (ifok1b (SDoWhile tg (map (pstmt ps) b) (pbexp ps c))) with (ifok_local (map (pstmt ps) b)).
      change (ifok1b (SDoWhile tg b c)) with (ifok_local b). now rewrite !ifok_local_eq.
  - intros tg. repeat split.
  - intros tg. repeat split.
  - intros tg o ol cases HC. unfold same1.
    pose (f := rebody (map (pstmt ps))).
    change (pstmt ps (SSwitch tg o ol cases)) with (SSwitch tg o ol (map f cases)).
    assert (T : tags_cases (map f cases) = tags_cases cases /\ wf_casesb (map f cases) = wf_casesb cases /\
                forallb (fun c : scase => swfb (sc_body c)) (map f cases) = forallb (fun c : scase => swfb (sc_body c)) cases /\
                forallb (fun c : scase => ifokb (sc_body c)) (map f cases) = forallb (fun c : scase => ifokb (sc_body c)) cases).
    { unfold f. rewrite wf_casesb_rebody.
      induction HC as [|[[[d v] l] b] r (H1 & H2 & H3) _ (I1 & I2 & I3 & I4)]; [repeat split|]. unfold tags_cases, sc_body in *. cbn in *. rewrite H1, H2, H3, I1, I3, I4. repeat split. }
    destruct T as (T1 & T2 & T3 & T4).
    rewrite !tags1_switch, !swf1b_switch_eq, !ifok1b_switch_eq, T1, T2, T3, T4. repeat split.
    f_equal. destruct cases; reflexivity.
Qed.

Lemma src_ok_pstmt ss : src_ok ss -> src_ok (map (pstmt ps) ss).
Proof. intros [O N]. destruct (pstmt_same ss) as (T & S & I). unfold src_ok, okb in *. rewrite T, S, I. split; assumption. Qed.
End PATCH.

(* ---------- programs ---------- *)
Definition all_src (l : list (list stmt)) : Prop := Forall src_ok l.
Lemma all_src_app a b : all_src a -> all_src b -> all_src (a ++ b).
Proof. intros. apply Forall_app. split; assumption. Qed.

Section P.
Variable autovars : list (text * autovar).
Variable switches : list (text * text).
Variable ee : bool.
Variable parse_format : toks -> Parser.res (token * text * text * toks).
Hypothesis parse_format_advs : forall ts tk v sty ts', parse_format ts = Parser.Ok (tk, v, sty, ts') -> forall a, advs a ts -> advs a ts'.

Notation parse_block c := (parse_block autovars switches ee parse_format c).
Notation ms_table c := (ms_table autovars switches ee parse_format c).
Notation ms_entries c := (ms_entries autovars switches ee parse_format c).
Notation parse_tops := (parse_tops autovars switches ee parse_format).
Notation parse_program := (parse_program autovars switches ee parse_format).

Tactic Notation "bind" hyp(H) "as" simple_intropattern(p) "eqn" ident(E) :=
  apply SrcWf.bind_inv in H; destruct H as (p & E & H); cbn beta iota in H.

Lemma parse_block_src c f script start ts ss imp ts' :
  eof_ended ts -> parse_block c f script [] [] start ts [] imp0 = Parser.Ok (ss, imp, ts') -> src_ok ss.
Proof.
  intros EO H. destruct (gw_all autovars switches parse_format c parse_format_advs ee f) as (_ & Iblock & _).
  destruct (Iblock _ _ _ _ _ _ _ _ _ _ (List.length ts) EO H (le_n _) (good_nil _ _)) as (N & _ & O). split; assumption.
Qed.

Ltac adv_ex H := first [eapply parse_block_advs; [exact parse_format_advs|exact H|] | eapply ms_collect_advs; [exact H|]
                       | eapply ms_table_advs; [exact parse_format_advs|exact H|] | eapply ms_entries_advs; [exact parse_format_advs|exact H|]
                       | eapply scope_modifier_advs; [exact H|]].
Ltac advs_now := advs_gox ltac:(fun K => adv_ex K).

Definition entries_src (es : list tableentry) : Prop :=
  all_src (flat_map (fun e => match teScript e with Some b => [b] | None => [] end) es).

Lemma ms_table_src c f : forall mapname tyname ts i acc imp es imp' ts',
  eof_ended ts -> ms_table c f mapname tyname ts i acc imp = Parser.Ok (es, imp', ts') -> entries_src acc -> entries_src es.
Proof.
  induction f as [|f IH]; intros mapname tyname ts i acc imp es imp' ts' EO H Hacc; [discriminate|].
  cbn [Parser.ms_table] in H. destruct (curis RBRACKET ts); [inversion H; subst; exact Hacc|]. cbn zeta in H.
  destruct (ms_collect c f (is COMMA) ts []) as [[cond ts1]|] eqn:C1; [|discriminate].
  destruct cond as [|c0 cond]; [discriminate|].
  destruct (ms_collect c f _ (adv ts1) []) as [[cmp ts3]|] eqn:C3; [|discriminate].
  destruct cmp as [|c1 cmp]; [discriminate|].
  assert (A3 : advs ts ts3) by advs_now.
  destruct (curis COLON ts3).
  - destruct (expect_peek IDENT ts3) as [ts4|] eqn:P4; [|discriminate].
    eapply IH; [|exact H|].
    + eapply advs_eof; [|exact EO]. advs_now.
    + unfold entries_src. rewrite flat_map_app. apply all_src_app; [exact Hacc|]. cbn. constructor.
  - bind H as [[b imp1] ts4] eqn E4. eapply IH; [|exact H|].
    + eapply advs_eof; [|exact EO]. advs_now.
    + unfold entries_src. rewrite flat_map_app. apply all_src_app; [exact Hacc|].
      cbn. constructor; [|constructor]. eapply parse_block_src; [|exact E4]. eapply advs_eof; [|exact EO]. advs_now.
Qed.

Definition ms_src (plain : list mapscript) (tables : list tablems) : Prop :=
  all_src (bodies_of_top (TMapScripts [] false plain tables)).

Lemma ms_entries_src c f : forall mapname ts plain tables imp plain' tables' imp' ts',
  eof_ended ts -> ms_entries c f mapname ts plain tables imp = Parser.Ok (plain', tables', imp', ts') -> ms_src plain tables -> ms_src plain' tables'.
Proof.
  induction f as [|f IH]; intros mapname ts plain tables imp plain' tables' imp' ts' EO H Hacc; [discriminate|].
  cbn [Parser.ms_entries] in H. destruct (curis RBRACE ts); [inversion H; subst; exact Hacc|].
  destruct (negb (curis IDENT ts)); [discriminate|]. cbn zeta in H.
  unfold ms_src, bodies_of_top in *. apply Forall_app in Hacc. destruct Hacc as [Hp Ht].
  destruct (curis COLON (adv ts)).
  - destruct (expect_peek IDENT (adv ts)) as [ts2|] eqn:P2; [|discriminate]. eapply IH; [|exact H|].
    + eapply advs_eof; [|exact EO]. advs_now.
    + unfold ms_src, bodies_of_top. rewrite flat_map_app. apply all_src_app; [apply all_src_app; [exact Hp|constructor]|exact Ht].
  - destruct (curis LBRACE (adv ts)).
    + bind H as [[b imp1] ts2] eqn E2. eapply IH; [|exact H|].
      * eapply advs_eof; [|exact EO]. advs_now.
      * unfold ms_src, bodies_of_top. rewrite flat_map_app. apply all_src_app; [apply all_src_app; [exact Hp|]|exact Ht].
        cbn. constructor; [|constructor]. eapply parse_block_src; [|exact E2]. eapply advs_eof; [|exact EO]. advs_now.
    + destruct (curis LBRACKET (adv ts)); [|discriminate]. bind H as [[es imp1] ts2] eqn E2. eapply IH; [|exact H|].
      * eapply advs_eof; [|exact EO]. advs_now.
      * unfold ms_src, bodies_of_top. rewrite flat_map_app. apply all_src_app; [exact Hp|]. apply all_src_app; [exact Ht|].
        cbn. rewrite app_nil_r. eapply ms_table_src; [|exact E2|constructor]. eapply advs_eof; [|exact EO]. advs_now.
Qed.

Lemma parse_tops_src f : forall st ts st',
  eof_ended ts -> parse_tops f st ts = Parser.Ok st' -> all_src (bodies_of (ptops st)) -> all_src (bodies_of (ptops st')).
Proof.
  induction f as [|f IH]; intros st ts st' EO H Hacc; [discriminate|].
  cbn [Parser.parse_tops] in H. destruct (curis EOF ts); [inversion H; subst; exact Hacc|]. cbn zeta in H.
  destruct (ttype (cur ts)); try discriminate.
  - (* script *)
    bind H as [[[[name g] b] imp] ts1] eqn E. destruct (add_implicit imp (ph st)) as [h' ps].
    assert (A1 : advs ts ts1) by (eapply parse_script_advs; [exact parse_format_advs|exact E|apply advs_refl]).
    eapply IH; [eapply advs_eof; [apply advs_k_adv; exact A1|exact EO]|exact H|]. cbn [ptops]. rewrite bodies_of_app. apply all_src_app; [exact Hacc|].
    cbn. constructor; [|constructor]. apply src_ok_pstmt.
    unfold Parser.parse_script in E. cbn zeta in E. bind E as [g0 ts0] eqn E0.
    destruct (expect_peek IDENT ts0) as [ts2|] eqn:P2; [|discriminate].
    destruct (expect_peek LBRACE ts2) as [ts3|] eqn:P3; [|discriminate]. bind E as [[b0 imp1] ts4] eqn E4. inversion E; subst.
    eapply parse_block_src; [|exact E4]. eapply advs_eof; [|exact EO]. advs_now.
  - (* raw *)
    bind H as [tp ts1] eqn E. eapply IH; [eapply advs_eof; [apply advs_k_adv; eapply parse_raw_advs; [exact E|apply advs_refl]|exact EO]|exact H|].
    cbn [ptops]. rewrite bodies_of_app. apply all_src_app; [exact Hacc|].
    unfold parse_raw in E. destruct (expect_peek RAWSTRING ts); [|discriminate]. inversion E; subst. constructor.
  - (* text *)
    bind H as [td ts1] eqn E. eapply IH; [eapply advs_eof; [apply advs_k_adv; eapply parse_text_advs; [exact parse_format_advs|exact E|apply advs_refl]|exact EO]|exact H|].
    cbn [ptops]. rewrite bodies_of_app. apply all_src_app; [exact Hacc|]. constructor.
  - (* movement *)
    bind H as [tp ts1] eqn E. eapply IH; [eapply advs_eof; [apply advs_k_adv; eapply parse_movement_advs; [exact E|apply advs_refl]|exact EO]|exact H|].
    cbn [ptops]. rewrite bodies_of_app. apply all_src_app; [exact Hacc|].
    unfold parse_movement in E. bind E as [g0 ts0] eqn E0.
    destruct (expect_peek IDENT ts0) as [ts2|]; [|discriminate].
    destruct (expect_peek LBRACE ts2) as [ts3|]; [|discriminate]. bind E as [steps ts4] eqn E4. inversion E; subst. constructor.
  - (* mart *)
    bind H as [tp ts1] eqn E. eapply IH; [eapply advs_eof; [apply advs_k_adv; eapply parse_mart_advs; [exact E|apply advs_refl]|exact EO]|exact H|].
    cbn [ptops]. rewrite bodies_of_app. apply all_src_app; [exact Hacc|].
    unfold parse_mart in E. bind E as [g0 ts0] eqn E0.
    destruct (expect_peek IDENT ts0) as [ts2|]; [|discriminate].
    destruct (expect_peek LBRACE ts2) as [ts3|]; [|discriminate]. bind E as [items ts4] eqn E4. inversion E; subst. constructor.
  - (* mapscripts *)
    bind H as [[tp imp] ts1] eqn E. destruct (add_implicit imp (ph st)) as [h' ps].
    assert (A1 : advs ts ts1) by (eapply parse_mapscripts_advs; [exact parse_format_advs|exact E|apply advs_refl]).
    eapply IH; [eapply advs_eof; [apply advs_k_adv; exact A1|exact EO]|exact H|]. cbn [ptops]. rewrite bodies_of_app. apply all_src_app; [exact Hacc|].
    unfold Parser.parse_mapscripts in E. bind E as [g0 ts0] eqn E0. cbn zeta in E.
    destruct (expect_peek IDENT ts0) as [ts2|] eqn:P2; [|discriminate].
    destruct (expect_peek LBRACE ts2) as [ts3|] eqn:P3; [|discriminate]. bind E as [[[plain tables] imp1] ts4] eqn E4. inversion E; subst.
    assert (EO3 : eof_ended (adv ts3)) by (eapply advs_eof; [|exact EO]; advs_now).
    pose proof (ms_entries_src _ _ _ _ _ _ _ _ _ _ _ EO3 E4 (Forall_nil _)) as M.
    unfold ms_src, bodies_of_top in M. apply Forall_app in M. destruct M as [Mp Mt].
    cbn. rewrite app_nil_r. apply all_src_app.
    + clear - Mp. induction plain as [|m r IHr]; [constructor|]. cbn in *. destruct (msScript m); cbn in *.
      * inversion Mp; subst. constructor; [apply src_ok_pstmt; assumption|apply IHr; assumption].
      * apply IHr; assumption.
    + clear - Mt. induction tables as [|tb r IHr]; [constructor|]. cbn in *. apply Forall_app in Mt. destruct Mt as [M1 M2].
      apply all_src_app; [|apply IHr; assumption]. clear - M1. induction (tmEntries tb) as [|e r IHr]; [constructor|]. cbn in *.
      destruct (teScript e); cbn in *.
      * inversion M1; subst. constructor; [apply src_ok_pstmt; assumption|apply IHr; assumption].
      * apply IHr; assumption.
  - (* const *)
    bind H as [c' ts1] eqn E. eapply IH; [eapply advs_eof; [apply advs_k_adv; eapply parse_const_advs; [exact E|apply advs_refl]|exact EO]|exact H|]. exact Hacc.
Qed.

(* THE THEOREM: every script body of an accepted program passes the source check of lemma 1 *)
Theorem parse_program_src ts p :
  eof_ended ts -> parse_program ts = Parser.Ok p -> all_src (bodies_of (tops p)).
Proof.
  unfold Parser.parse_program. intros EO H. bind H as st eqn E. cbn zeta in H.
  destruct (dup_text [] _); [discriminate|]. destruct (dup_mov [] _); [discriminate|]. inversion H; subst. cbn [tops].
  rewrite bodies_of_app. apply all_src_app.
  - eapply parse_tops_src; [exact EO|eassumption|constructor].
  - assert (M : movs_only (ph st)) by (eapply parse_tops_movs; [eassumption|reflexivity]). unfold movs_only in M. rewrite M. constructor.
Qed.
End P.

(* ---------- the real format() operator only advances ---------- *)
From Pory Require Import Format.
Lemma named_loop_advs : forall f ts p had p' had' ts', named_loop f ts p had = Parser.Ok (p', had', ts') -> forall a, advs a ts -> advs a ts'.
Proof.
  induction f as [|f IH]; intros ts p had p' had' ts' H a A; [discriminate|]. cbn [named_loop] in H. ok_split H; advs_go.
Qed.
Lemma parse_format_advs fc cli_font cli_maxlen ee ts tk v sty ts' :
  parse_format fc cli_font cli_maxlen ee ts = Parser.Ok (tk, v, sty, ts') -> forall a, advs a ts -> advs a ts'.
Proof.
  intros H a A. unfold parse_format in H. ok_split H;
    advs_gox ltac:(fun K => eapply named_loop_advs; [exact K|]).
Qed.

(* ---------- the lexer's token list ends with its EOF token ---------- *)
Section LX.
Variable is_letter_hi is_digit_hi is_space_hi : N -> bool.
Lemma eof_ended_app a b : eof_ended b -> eof_ended (a ++ b).
Proof.
  intros [N E]. split; [intros X; apply app_eq_nil in X; destruct X; contradiction|].
  induction a as [|y a IH]; [exact E|]. cbn [app]. destruct (a ++ b) eqn:AB; [apply app_eq_nil in AB; destruct AB as [_ AB]; contradiction|].
  cbn [last]. exact IH.
Qed.
Lemma lex_all_eof : forall f l, (len l < f)%nat -> eof_ended (lex_all is_letter_hi is_digit_hi is_space_hi f l).
Proof.
  induction f as [|f IH]; intros l L; [lia|]. cbn [Lexer.lex_all].
  destruct (next_token_aux is_letter_hi is_digit_hi is_space_hi l) as [[ts l'] en] eqn:E. destruct en.
  - rewrite next_token_aux_core in E. unfold LexLayout.nt_core in E. cbv zeta in E. cbn [Datatypes.fst Datatypes.snd] in E. inversion E as [[E1 E2 E3]].
    destruct (chs (skipall l)); [|discriminate]. cbn [orb Datatypes.fst] in E1. subst ts. split; [discriminate|reflexivity].
  - apply eof_ended_app. apply IH. pose proof (next_token_progress _ _ _ _ _ _ E). lia.
Qed.
Lemma lex_eof s : eof_ended (lex is_letter_hi is_digit_hi is_space_hi s).
Proof. unfold lex. apply lex_all_eof. unfold len, init. cbn. lia. Qed.
End LX.

(* THE THEOREM, on source texts: whatever the text, the classification of non-ASCII code points, the command configuration,
   the switches, the fonts and the mode - every script body of the parsed program passes the source check and is well scoped *)
Theorem accepted_bodies_are_src_ok hl hd hs autovars switches ee fc cli_font cli_maxlen s p :
  parse_program autovars switches ee (parse_format fc cli_font cli_maxlen ee) (lex hl hd hs s) = Parser.Ok p ->
  Forall (fun b => src_ok b /\ scoped None None b) (bodies_of (tops p)).
Proof.
  intros H.
  pose proof (parse_program_src autovars switches ee _ (parse_format_advs fc cli_font cli_maxlen ee) _ _ (lex_eof hl hd hs s) H) as A.
  pose proof (parse_program_scoped autovars switches ee _ _ _ H) as B'.
  unfold all_src, all_scoped in *. rewrite Forall_forall in *. intros b Hb. split; auto.
Qed.
